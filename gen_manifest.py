#!/usr/bin/env python3
"""Regenerate MANIFEST.json from the table below (kept in one place so it stays valid)."""
import json, subprocess

CLAIMED = {
 "C01": dict(cat="exploration",
   text="Seeded simulation: generated source trees x accepted repository configurations x seeded gate schedules (pool sizes 1-3, PCT/random/starve/FIFO policies) x read fragmentation/EINTR; the real archive pipeline runs on SimStore/SimSource, then every read path (ls, dump, read_file_at, restore to tmpfs) is compared with the source model and check(read_data) must be clean. Sampling, not proof: evidence reports runs, traces and configurations covered.",
   ref="5 C01", note="Trusted: SimStore semantics (cross-checked in C20), the FsModel comparison code, tmpfs for restore. Configurations come from the grid the library is meant to support.",
   tech="deterministic simulation: seeded gate scheduler over real threads + reference-model read-back"),
}
CLAIMED["C13"] = dict(cat="exploration",
   text="Seeded simulation: the same backup (and, in other batch kinds, the same prune or the same copy into a fresh repository with another key) is executed R times (plus, rarely, a free-running scenario on a directory with 1500-9000 distinct sub-directories whose backup, check, prune and copy must terminate) from scratch under different gate-release policies (FIFO, random, starve-one-role, PCT), pariter pool sizes 1-3, pack-size limits from one blob per pack upward and compression settings; the snapshot tree id and the set of reachable (type,id) blobs must agree across executions, every execution must terminate (no-progress detector), and an independent decoder checks that every blob of every stored pack is indexed and every referenced blob is indexed in a live pack.",
   ref="5 C13", note="Interleavings are explored at storage/source-call granularity plus one hook before a written pack is indexed; inside a step the threads run FIFO-serialised. Trusted: the simulator's own pack/index decoder.",
   tech="deterministic simulation: same command re-executed under many seeded schedules, differential oracle + independent store audit")
CLAIMED["C03"] = dict(cat="fault_enumeration",
   text="For each command kind (backup first/next, forget of one/several snapshots, prune mark/instant/delete-marked/repack-all/mark with early-delete-index but without instant-delete, repair index +/- read-all, repair snapshots, rewrite of trees or of metadata + forget, merge, config change + key add, password change (add key, delete old key; some password must open the repository at every prefix), copy into; prune / instant prune / backup started on the state an interrupted earlier run of the same command left behind) on a generated pre-state: one execution under a seeded gate schedule records the write/remove log; EVERY crash prefix of that log is opened with a fresh handle and every visible snapshot is read completely (old ones compared with their model); then single storage-op failures (no effect / lost acknowledgement) are injected at up to 12/24 positions under the same schedule: the command must return Err, never Ok, panic or hang, and the resulting states must satisfy the same oracle; finally one read or listing of the command fails (up to 6/12 positions; not for the repair commands): the command may cope or give up but must not panic or hang and the final state must satisfy the oracle. Exhaustive over prefixes of each explored log; sampled over inputs, schedules and configs.",
   ref="5 C03", note="Storage ops are atomic in SimStore; the log is one observed linearisation per run of the concurrent writers (different schedules give different ones). instant-delete+early-delete-index and hot/cold are excluded as the property says.",
   tech="deterministic simulation: op-log crash-prefix enumeration + single-fault re-execution under the recorded schedule")
CLAIMED["C02"] = dict(cat="exploration",
   text="Seeded simulation of histories over {backup of an edited source, stale-index double backup (duplicate blobs), crashed backup (unreferenced packs), duplicated index entry, forget subset, prune with options from the whole option grid, clock advance across keep-delete/keep-pack boundaries on the simulated clock, resurrect a forgotten snapshot then prune}; after every prune each remaining snapshot is read back against its model, check(read_data) must be clean, an independent decoder verifies that every referenced blob is in an unmarked existing pack, and packs whose mark is younger than keep-delete must still exist (non-instant prunes). Part of the backups and prunes run under seeded gate schedules.",
   ref="5 C02", note="early_delete_index is never set; instant_delete is documented to remove already-marked packs, so the keep-delete clause is asserted for non-instant prunes only. Trusted: the simulator's own pack/index decoder and the FsModel comparison.",
   tech="deterministic simulation: generated operation histories on a simulated clock, per-step reference-model read-back + independent store audit")
CLAIMED["C10"] = dict(cat="exploration",
   text="Seeded simulation of two commands with separate handles on one SimStore (backup||prune, prune||backup, backup||backup), every backend call of both a scheduling gate; 70% of runs place the second command fully or partly at a drawn position of the first (actor-segmented policy), the rest use random/PCT/starve policies. At every prefix of the combined mutation log that removes a pack or publishes a snapshot an independent decoder checks that every blob referenced by a visible snapshot is physically present; both commands must return (no hang, no panic); after a follow-up prune inside keep-delete, and again after keep-delete has passed on the simulated clock and another prune ran, every snapshot reads back equal to its model and check(read_data) is clean.",
   ref="5 C10", note="keep-delete is 1 day, the simulated overlap seconds to minutes (the premise). A command that detects the other one and returns Err is counted, not flagged: the property is about data, not about availability. Interleavings are at backend-call granularity.",
   tech="deterministic simulation: two actors interleaved by a seeded scheduler at backend-op granularity, prefix audit + reference-model read-back")
CLAIMED["C05"] = dict(cat="fault_enumeration",
   text="Repositories are built by generated histories (several index files, duplicate blobs, marked packs, tiny tree packs); then for a sample (quick) or all (thorough) stored files except config and keys, each of {remove, truncate, bit flip at structural and seeded positions, extend, swap with sibling, drop/duplicate one index entry} is applied to a frozen copy, and check(read_data) plus read-back of every snapshot run on fresh handles. Violation iff check reports no error while some snapshot does not read back equal to its model; the undamaged state is the control (must be check-clean and restorable).",
   ref="5 C05", note="Key files are not damaged (master-key credentials). A removed snapshot file is one snapshot less, not a damage check could notice. Panics of detached library threads while the call itself returns are counted, not flagged.",
   tech="deterministic simulation: stored-byte fault enumeration on frozen store states, check verdict vs reference-model read-back")
CLAIMED["C04"] = dict(cat="fault_enumeration",
   text="Four seeded batches. scan: sources built from random markers go through backup/prune/copy histories and every stored byte outside keys/ is scanned for marker windows (with a positive control through the simulator's own decryption), every file must authenticate, key files must not contain master-key bytes. nonce: with the nonce hook disarmed and kernel randomness, all message nonces over a history that re-encrypts identical plaintexts are pairwise distinct. tamper: for sampled/all stored files x {remove, truncate, bit flip, extend, swap with sibling} every read path (open, list, index load, full read-back) must fail or return exactly the untampered result. cred: add_key/delete_key/open sequences against a model set of valid credentials.",
   ref="5 C04", note="Index-entry edits re-encoded with the right key are forging with the key, not tampering, and are excluded here (C05 uses them). Detached-thread panics while the call itself returns Err are counted, not flagged. Findings about unverified file/blob ids are listed in known_findings.json.",
   tech="deterministic simulation: stored-byte tamper enumeration + independent AEAD audit + credential histories against a model")
CLAIMED["C08"] = dict(cat="exploration",
   text="Seeded simulation of histories that produce packs through every path (backup, stale-index double backup, prune repack fast and re-encoding, v1->v2 repack-uncompressed, merge, rewrite, copy into a repository with other key/compression/pack size) over drawn blob-size mixes, compression levels and pack-size limits; a monitor decodes every pack and index file ever written (from the op log) with the simulator's own decoder: id = hash, trailer, header entries tile the body, every blob authenticates/decompresses/hashes to its id, index entries equal the header and size. Then a subset or all index files are removed, repair_index (+/- read_all) runs and every snapshot must read back equal to its model with check(read_data) clean.",
   ref="5 C08", note="Trusted: the simulator's decoder. Blob-less packs_to_delete entries (unindexed packs marked by prune) are exempt from the blob-list comparison, their size is still compared.",
   tech="deterministic simulation: write monitor with independent decoder over generated histories + index-loss/repair round trip")
CLAIMED["C07"] = dict(cat="exploration",
   text="Seeded simulation of backup/edit/backup histories with index reload before every backup (fresh handle), with and without parent, partly under seeded gate schedules: the data blobs in the packs written by each backup (parsed independently from the op log) must equal, as a set, the chunks of the current source that were not indexed in an unmarked pack before; no already-indexed tree is written again; an unchanged re-backup writes no pack, keeps the tree id and reports data_added = 0; an insert/delete inside a long random file re-uses later chunks; equal-bytes tree and data blobs are both kept (final read-back + check).",
   ref="5 C07", note="The expected chunk set comes from the library's own chunk iterator (C06 checks the chunker). Duplicates of a NEW blob within one run are counted, not flagged (the statement promises sharing once the index has been reloaded).",
   tech="deterministic simulation: generated edit histories, op-log accounting of uploaded blobs against a reference chunking")
CLAIMED["C11"] = dict(cat="exploration",
   text="Seeded simulation: parent generations of an evolving source, then the same current source is archived twice on forks of one frozen store, once with parent options (implicit/explicit/several parents, ignore-ctime, ignore-inode, skip-if-unchanged, parents whose data pack was dropped from index and store) and once with force; tree ids must be equal, the parent-based snapshot must read back equal to the source model, files with missing parent blobs must have been re-opened (SimSource open log), summary counters must equal the model's classification in the plain case, skip-if-unchanged must save iff the tree differs.",
   ref="5 C11", note="The generator enforces the premise (no content change without mtime/ctime change). Edit scripts include type changes file<->dir<->symlink, renames, touches.",
   tech="deterministic simulation: differential execution (parent-based vs forced) on forked store states + source open log")
CLAIMED["C12"] = dict(cat="exploration",
   text="Seeded simulation, one command kind per run on repositories holding 2-4 snapshots of an evolving source: copy into a destination with other key/version/compression/pack sizes/chunker that is empty or already holds part of the snapshots (copied snapshots read back equal to their source models, destination check clean); merge under last_modified_node or its reverse against a reference merge on the models; rewrite with exclude sets from a plain grammar (extension, basename, anchored path; half of the runs with two directories of identical subtrees, i.e. one tree blob under two paths, and an exclude anchored inside one) against the model minus matches (forget on/off); repair_snapshots on undamaged repositories (no write) and after losing a data or tree pack (every file kept under its own name has its original content). Part of the commands run under seeded gate schedules.",
   ref="5 C12", note="Plain ASCII names in this scenario; merge orderings that tie on different entries are skipped; repair follows the documented order (repair index first).",
   tech="deterministic simulation: reference-model algebra (merge / exclude / repair) vs read-back on generated repositories")
CLAIMED["C15"] = dict(cat="exploration",
   text="Seeded programs of 5-15 public operations on an append-only repository (backup, delete_snapshots, prune with options from the full grid, repair_index, repair_snapshots +/- delete, rewrite +/- forget with and without tree rewriting, config changes, add/delete key, copy into, merge, save_snapshots), each through a fresh handle and partly under seeded gate schedules; the op log of every operation must show no remove and no overwrite of a snapshot, index or pack file, destructive operations must return Err with an empty write/remove log, the others must keep working. Dry-run batch: backup, repair_index, repair_snapshots, rewrite with their dry-run flag and prune_plan on states where the wet twin (run on a fork) does write: zero writes and removes.",
   ref="5 C15", note="An overwrite with byte-identical content (the same pack produced twice) is not a replacement. delete_key is allowed: key files are not in the property's list.",
   tech="deterministic simulation: random programs of public operations with an op-log oracle on the storage seam")
CLAIMED["C16"] = dict(cat="fault_enumeration",
   text="Seeded histories (backup, forget, repacking prune, config change, key add, key removal, copy of a snapshot from another repository into the pair; partly under gate schedules) on a hot/cold pair of SimStores under the library's own HotColdBackend, with a single-store twin fed the same history. The combined hot+cold mutation log is replayed op by op and the invariant (every key/snapshot/index/tree-pack file listed by cold is in hot with identical bytes; no data pack in hot) is checked after EVERY op, i.e. at every crash prefix; results are compared with the twin; restore, repacking prune and repair_index run against a cold store that rejects un-warmed pack reads and must succeed with every cold pack read preceded by its warm-up; hot files (a subset or all) are removed and the hot/cold repair must restore the invariant; one storage op on either store fails during a backup: Err, invariant intact.",
   ref="5 C16", note="Config is exempt from byte identity (is_hot). After the hot/cold repair the tree-pack clause is asserted for packs known to the index. Equivalence read-back uses non-rejecting copies of the stores.",
   tech="deterministic simulation: per-op invariant over the combined op log of two simulated stores + twin-world equivalence + fault injection")
CLAIMED["C19"] = dict(cat="exploration",
   text="Seeded simulation of two worlds fed the same program (backup, forget, repacking prune, check +/- read-data, full read-back, get a snapshot by full id): in one world operations alternate between a handle with a cache directory on tmpfs and an uncached handle on the same SimStore, with cache faults planted between operations (truncated/extended/deleted entries, entries replaced by a directory so that reading them fails, entries for unknown ids, non-hex names, -tmp- leftovers, a foreign repository directory); in the other every operation is uncached. Per operation the Ok/Err class and the logical result (snapshot trees, check verdict, read-back verdict) must agree, both worlds must end readable and check-clean, and after a listing through the cached handle the cache must hold no snapshot/index entry that the store lacks or that has another size.",
   ref="5 C19", note="File ids differ between the worlds, so results are compared logically. The cache directory is real tmpfs.",
   tech="deterministic simulation: twin-world differential execution with planted cache states")
CLAIMED["C20"] = dict(cat="exploration",
   text="Seeded simulation: sequences of 20-200 write / read_full / read_partial (16 range classes incl. zero-length, past-end, offset+length at and above 2^32) / list / list_with_size / remove operations over all file types, ids sharing a shard, contents of 0 B..4 MiB with boundary lengths and multi-piece (also empty-piece) BytesLists, executed in lock step on the real LocalBackend (tmpfs), OpenDALBackend on the fs service and on the memory service, each against a map model, with second handles auditing after every mutation; directory targets with planted foreign files (non-hex, wrong length, upper-case hex, id names in wrong shard / sub-directory, -tmp- leftovers, directories); on LocalBackend the pre-publish hook observes every write (temp file complete, id not listed / listed with the old size, old version readable) and interrupts about half of them (Err, nothing listed or readable, retry succeeds); calls that never return are detected by CPU-time accounting.",
   ref="5 C20", note="Concurrent writers of one id are not exercised. rclone/rest backends need external programs and are outside 'can run locally' here. Built by a sub-agent, reviewed and integrated.",
   tech="deterministic simulation: reference map model vs real backends on tmpfs, crash injection at the publish point, planted foreign files")
CLAIMED["C17"] = dict(cat="exploration",
   text="Seeded simulation: generated collections of 0-6 index files (duplicates across packs and files, the same id under both types, empty packs, marked packs, packs listed normally and marked, boundary offsets/sizes), written by the simulator's own JSON writer and AEAD encoder, are loaded through the real rayon loader in all three modes (full, ids-only, trees-only) under seeded gate schedules that permute the arrival order of the index files, pool sizes 1-3; every listed id, its neighbours, pack ids, special and random ids are queried through the verif hooks and judged against a map model built from the generator's data; one load per position of a failing index read and one with a failing listing must return Err or a complete index.",
   ref="5 C17", note="Packs mixing blob types are outside the statement's domain: deviations there are counted, not flagged. The *_checked loaders are not covered. The data size total is asserted in the full and ids-only modes (the trees-only mode drops data).",
   tech="deterministic simulation: reference map model vs real parallel index loader under seeded arrival orders and read faults")
CLAIMED["C06"] = dict(cat="exploration",
   text="Seeded simulation of the chunk iterator (through the verif hook) over accepted parameter sets (rabin avg 2^12..2^20 with min from 4096 up to avg and max up to 8*avg at and around all boundaries, rarely smaller refused ones, seeded irreducible polynomials; fixed sizes incl. primes) x streams (random, zeros, periodic, text, boundary-dense by solving for fingerprint zeros, targeted at min+-1 / min+63..65 / max-1) x reader behaviours (whole, 1-byte, capped, seeded short reads, Interrupted bursts, sticky hard error, size-hint variants): concatenation equals the stream, size bounds, identical chunk lists across reader behaviours, every cut below max at the first position whose non-rolling GF(2) reference fingerprint of the last 64 bytes has its masked bits zero, restart and suffix locality, Err exactly on a hard read error, no panic; a quarter of the runs also archive streams through Repository::archive and read the content ids back.",
   ref="5 C06", note="Cut decisions at chunk lengths below 64 (no full window) and polynomials other than irreducible degree 53 are not judged. Built by a sub-agent, reviewed and integrated.",
   tech="deterministic simulation of the Read seam (fragmentation, EINTR, errors) against an independent reference fingerprint")
CLAIMED["C14"] = dict(cat="exploration",
   text="Seeded simulation: snapshots (benign, and 20% hostile ones archived through a ReadSource with '..', absolute, separator-containing and symlink-then-entry names) are restored 10-12 times each into freshly built tmpfs sandboxes top/l1/l2/{outside,dest} with sentinel files, under all option combinations (delete, verify_existing, sparse, no_ownership, numeric_id, dry run first) and destination states (empty, identical, per-entry mutations incl. other type, symlinks into outside, fifos, hard links, edit scripts, unrelated trees, extras); everything outside dest must be unchanged whatever the outcome, a dry run changes nothing, on Ok every snapshot path has the snapshot's type/target/mode/mtime/owner and (under the statement's condition) bytes, extras are untouched without delete; panics and hangs are flagged.",
   ref="5 C14", note="Real tmpfs, restore writers run in one FIFO-serial interleaving. Err is tolerated for hostile snapshots and for a conflicting entry of another type with delete off. Built by a sub-agent, reviewed and integrated.",
   tech="deterministic simulation with planted destination states in a sentinel sandbox, reference-model comparison")
CLAIMED["C18"] = dict(cat="exploration",
   text="Seeded simulation of repository lives: init (real Repository::init or init_with_config for v1) with ConfigOptions drawn per field from unset/0/1/boundary+-1/interior/huge, then 1-4 apply_config calls through fresh handles, and after every accepted step a smoke run (backup of a model sized to the chunker parameters, read-back, check(read_data), sometimes restore to tmpfs, forget + prune with limits 0..u64::MAX % / sizes / extreme keep spans): no panic in any thread, no hang, a refused call performs no mutating store op and leaves every stored byte identical, an accepted change alters only the keys it names (stored config decrypted and diffed as plain JSON), no version downgrade, accepted configurations back up, check and restore correctly.",
   ref="5 C18", note="Configuration sampling is the deciding dimension; the simulator contributes the op log, panic/hang detection across library threads and the independent config decoder. Built by a sub-agent, reviewed and integrated.",
   tech="deterministic simulation: boundary-value configuration histories with op-log and independent config decoding oracles")
NOT_YET = {}
NA = {
 "C09": "pure function of its arguments (snapshot list, keep options, explicit 'now'): no schedule, clock read, I/O, fault or history for a simulator to own; see DESIGN.md section 6",
}

def main():
    props=[json.loads(l) for l in open('/verif/properties.jsonl')]
    checks=[]
    na=[]
    for p in props:
        i=p['id']
        if i in CLAIMED:
            c=CLAIMED[i]
            checks.append({
              "property_id": i,
              "quick_cmd": f"./check {i} quick",
              "thorough_cmd": f"./check {i} thorough",
              "evidence_file": f"/verif/evidence/{i}.json",
              "replay_cmd_template": "./check replay {path}",
              "engine": "rsim",
              "level_claimed": {"category": c['cat'], "text": c['text'], "design_ref": c['ref']},
              "level_note": c['note'],
              "technique": c['tech'],
            })
        elif i in NA:
            na.append({"property_id": i, "reason": NA[i]})
        else:
            na.append({"property_id": i, "reason": NOT_YET.get(i, "not claimed yet: the simulation scenario for this property is designed (DESIGN.md section 5) but not implemented in this revision")})
    hooks=subprocess.run(["git","-C","/repo","log","--format=%h %s","--grep=^verif-hooks"],capture_output=True,text=True).stdout.strip().splitlines()
    m={
     "version":1,
     "setup_cmd":"./check build",
     "hooks":{
       "guard":"cargo feature verif-hooks (rustic_core, rustic_backend); default off",
       "enable":"rsim depends on /repo/crates/core and /repo/crates/backend by path with features=[\"verif-hooks\"]; every ./check invocation runs cargo build first, so it rebuilds from /repo's working tree",
       "baseline_off_cmd":"cd /repo && cargo nextest run --workspace --no-fail-fast --test-threads 8 --offline",
       "source_commits":[h.split()[0] for h in hooks],
       "add_only":True,
     },
     "engines":[{"name":"rsim","path":"/verif/sim","serves_properties":[c['property_id'] for c in checks],
                 "kind_free_text":"deterministic simulator: real rustic_core threads parked at SimStore/SimSource gates and released one at a time by a seeded scheduler after /proc-based quiescence detection; simulated CLOCK_REALTIME and getrandom by libc symbol interposition; PRF nonces through a cfg-gated hook; fault plans on the storage seam; reference-model oracles"}],
     "checks":checks,
     "not_applicable":na,
     "notes":"exit 0 = held on everything explored, 1 = VIOLATION line printed, 2 = harness error. VERIF_SEED selects the batch seed (default fixed). known_findings.json lists recorded findings (KNOWN-FINDING lines) and fixed defects.",
    }
    json.dump(m,open('/verif/MANIFEST.json','w'),indent=1)
    print("claimed:",[c['property_id'] for c in checks])

main()
