#!/usr/bin/env python3
"""seeded_save.py <worktree> <i> <seeded-id> <property> <needs> <caught_by json list> <missed_by json list> [notes]"""
import sys, json, os, shutil, re
wt, i, sid, prop, needs, caught, missed = sys.argv[1:8]
notes = sys.argv[8] if len(sys.argv) > 8 else ""
d = f"/verif/seeded/{sid}"
os.makedirs(d, exist_ok=True)
shutil.copy(f"{wt}/out/mutant{i}.diff", f"{d}/patch.diff")
shutil.copy(f"{wt}/out/demo{i}.rs", f"{d}/demo.rs")
conf = open(f"{wt}/out/confirm{i}.txt").read() if os.path.exists(f"{wt}/out/confirm{i}.txt") else ""
summary = [l for l in conf.splitlines() if l.startswith("==") or l.startswith("test result") or "FAILED" in l]
meta = {
  "id": sid, "breaks_property": prop,
  "needs_to_manifest": needs,
  "origin": "written by an independent sub-agent that saw only the property text and a scratch worktree of /repo (nothing from /verif)",
  "confirmed_by_me": {
    "how": f"/verif/seeded_confirm.sh {wt} {i}: git apply patch.diff in the scratch worktree; demo (placed at crates/core/tests/) fails with the patch; cargo test -p rustic_core --lib and --test integration (--test-threads=4) pass except the 2 integration cases that already fail on the unchanged tree (test_check::case_3, case_4); patch reverted; demo passes",
    "log": summary,
  },
  "demo_command": "cp demo.rs <worktree>/crates/core/tests/demoN.rs && cargo test --offline -p rustic_core --test demoN",
  "checks_run": "/verif/seeded_test.sh patch.diff <PROP>... (quick tier, default seed) on a scratch worktree of /repo HEAD with the patch applied",
  "caught_by": json.loads(caught), "missed_by": json.loads(missed), "notes": notes,
}
json.dump(meta, open(f"{d}/meta.json", "w"), indent=1)
print("saved", d)
