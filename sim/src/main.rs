//! rsim — deterministic simulation with fault injection for rustic_core.
//!
//!   rsim batch  <PROP> <quick|thorough>        run a batch (spawns workers), write evidence
//!   rsim worker <PROP> <tier> <seed> <runs,..> <pool> <sched_cpu|-1> <worker_cpus,..> <secs>
//!   rsim replay <file> [--quiet]                re-execute a replay file (exit 1 = reproduced)
//!   rsim one    <PROP> <tier> <seed> <run>      run one scenario in this process, print its report
//!   rsim selftest determinism <PROP> <n>        run n scenarios twice in fresh processes, diff digests

#![allow(dead_code, clippy::too_many_arguments)]
mod audit;
mod common;
mod gf2;
mod harness;
mod interpose;
mod model;
mod props;
mod readback;
mod restore_check;
mod rng;
mod sched;
mod sim;
mod store;
mod tamper;
mod world;

use std::time::{Duration, Instant};

use harness::{Env, Prop, ReplayFile, Tier};
use sched::CpuPlan;

fn usage() -> ! {
    eprintln!("usage: rsim batch|worker|replay|one|selftest ...");
    std::process::exit(2);
}

fn seed_from_env() -> u64 {
    std::env::var("VERIF_SEED").ok().and_then(|s| s.parse().ok()).unwrap_or(20_260_925)
}

fn process_init() {
    // before any thread exists
    unsafe {
        std::env::set_var("TZ", "UTC");
        std::env::set_var("RUSTIC_NO_CACHE", "1");
    }
    common::install_panic_hook();
}

/// undo an inherited CPU mask (a worker that spawns `rsim replay` is itself pinned)
fn reset_affinity() {
    let n = unsafe { libc::sysconf(libc::_SC_NPROCESSORS_CONF) }.max(1) as usize;
    sched::set_affinity(&(0..n).collect::<Vec<_>>());
}

/// Process-level setup. Scheduled scenarios: pool sizes come from the faked CPU count, the
/// monotonic clock is shifted (no timed wait ever expires), and the rayon pool is created on the
/// worker CPU under SCHED_FIFO so that its threads inherit both.
fn process_setup(scheduled: bool, pool: usize, cpus: &CpuPlan) {
    if scheduled && cpus.sched_cpu.is_some() {
        let k = pool.max(1);
        interpose::fake_cpus(k);
        interpose::mono_shift(true);
        let w = cpus.worker_cpus.clone();
        std::thread::spawn(move || {
            sched::set_affinity(&w);
            let fifo = sched::set_fifo();
            if !fifo {
                eprintln!("note: SCHED_FIFO not available; schedules are serialised on one CPU but time-sliced");
            }
            let _ = rayon::ThreadPoolBuilder::new().num_threads(k).build_global();
            // make sure the pool threads exist now
            rayon::broadcast(|_| ());
        })
        .join()
        .expect("rayon setup");
        sched::set_affinity(&[cpus.sched_cpu.unwrap()]);
    } else {
        sched::set_affinity(&cpus.worker_cpus);
    }
}

fn parse_cpus(s: &str) -> Vec<usize> {
    s.split(',').filter(|x| !x.is_empty()).filter_map(|x| x.parse().ok()).collect()
}

fn main() {
    process_init();
    let args: Vec<String> = std::env::args().collect();
    if args.len() < 2 {
        usage();
    }
    match args[1].as_str() {
        "batch" => {
            if args.len() < 4 {
                usage();
            }
            let prop = props::by_id(&args[2]).unwrap_or_else(|| {
                eprintln!("unknown property {}", args[2]);
                std::process::exit(2)
            });
            let tier = Tier::parse(&std::env::var("VERIF_TIER").unwrap_or_else(|_| args[3].clone()));
            let tier = if args[3] == "thorough" { Tier::Thorough } else { tier };
            let r = harness::batch(prop, tier, seed_from_env());
            std::process::exit(r.exit);
        }
        "worker" => {
            if args.len() < 10 {
                usage();
            }
            let prop = props::by_id(&args[2]).expect("property");
            let tier = Tier::parse(&args[3]);
            let seed: u64 = args[4].parse().expect("seed");
            let runs: Vec<u64> = args[5].split(',').filter_map(|x| x.parse().ok()).collect();
            let pool: usize = args[6].parse().expect("pool");
            let sched_cpu: i64 = args[7].parse().expect("sched cpu");
            let worker_cpus = parse_cpus(&args[8]);
            let secs: u64 = args[9].parse().expect("secs");
            let cpus = CpuPlan { sched_cpu: (sched_cpu >= 0).then_some(sched_cpu as usize), worker_cpus };
            process_setup(prop.scheduled(), pool, &cpus);
            let stdout = std::io::stdout();
            let mut out = stdout.lock();
            harness::worker(prop, tier, seed, &runs, pool, cpus, Instant::now() + Duration::from_secs(secs), &mut out);
        }
        "one" => {
            if args.len() < 6 {
                usage();
            }
            reset_affinity();
            let prop = props::by_id(&args[2]).expect("property");
            let tier = Tier::parse(&args[3]);
            let seed: u64 = args[4].parse().expect("seed");
            let run: u64 = args[5].parse().expect("run");
            let ss = rng::subseed(seed, prop.id(), run);
            let spec = prop.generate(ss, tier);
            let pool = spec.get("pool").and_then(serde_json::Value::as_u64).unwrap_or(0) as usize;
            let env = one_env(prop, tier, pool);
            let t0 = Instant::now();
            let mut rep = prop.exec(&spec, &env);
            rep.normalize();
            println!("{}", serde_json::to_string_pretty(&serde_json::json!({"spec": spec, "wall_ms": t0.elapsed().as_millis() as u64, "report": rep})).unwrap());
            let _ = std::fs::remove_dir_all(&env.tmp);
        }
        "exec" => {
            // rsim exec <PROP> <tier> <spec.json>: execute a hand-edited spec (debugging aid)
            if args.len() < 5 {
                usage();
            }
            reset_affinity();
            let prop = props::by_id(&args[2]).expect("property");
            let tier = Tier::parse(&args[3]);
            let spec: serde_json::Value = serde_json::from_str(&std::fs::read_to_string(&args[4]).expect("spec file")).expect("spec json");
            let pool = spec.get("pool").and_then(serde_json::Value::as_u64).unwrap_or(0) as usize;
            let env = one_env(prop, tier, pool);
            let mut rep = prop.exec(&spec, &env);
            rep.normalize();
            common::dbg_dump();
            println!("{}", serde_json::to_string_pretty(&serde_json::json!({"spec": spec, "report": rep})).unwrap());
            let _ = std::fs::remove_dir_all(&env.tmp);
        }
        "replay" => {
            if args.len() < 3 {
                usage();
            }
            reset_affinity();
            let quiet = args.iter().any(|a| a == "--quiet");
            let text = std::fs::read_to_string(&args[2]).unwrap_or_else(|e| {
                eprintln!("cannot read {}: {e}", args[2]);
                std::process::exit(2)
            });
            let rf: ReplayFile = serde_json::from_str(&text).unwrap_or_else(|e| {
                eprintln!("cannot parse {}: {e}", args[2]);
                std::process::exit(2)
            });
            let prop = props::by_id(&rf.property).expect("property");
            let mut env = one_env(prop, Tier::parse(&rf.tier), rf.pool);
            env.replaying = true;
            let mut rep = prop.exec(&rf.spec, &env);
            rep.normalize();
            let _ = std::fs::remove_dir_all(&env.tmp);
            let same = rep.violations.iter().any(|v| v.fingerprint == rf.fingerprint);
            if !quiet {
                println!(
                    "replay of {}: fingerprint `{}` {}; event-log digest {} (recorded {:016x}, now {:016x})",
                    args[2],
                    rf.fingerprint,
                    if same { "REPRODUCED" } else { "not reproduced" },
                    if rep.trace_hash == rf.trace_hash { "identical" } else { "DIFFERS" },
                    rf.trace_hash,
                    rep.trace_hash
                );
                for v in &rep.violations {
                    println!("  violation: {} — {}", v.fingerprint, v.detail.lines().next().unwrap_or(""));
                }
                if same {
                    println!("VIOLATION property={} replay={}", rf.property, args[2]);
                }
            }
            std::process::exit(if same { 1 } else { 0 });
        }
        "selftest" => {
            if args.len() < 5 || args[2] != "determinism" {
                usage();
            }
            let prop = props::by_id(&args[3]).expect("property");
            let n: u64 = args[4].parse().expect("n");
            std::process::exit(selftest_determinism(prop, n));
        }
        _ => usage(),
    }
}

fn one_env(prop: &dyn Prop, tier: Tier, pool: usize) -> Env {
    let ncpu = std::thread::available_parallelism().map(|n| n.get()).unwrap_or(2);
    // pick CPUs from the top of the range so that we collide less with a running batch
    let cpus = if ncpu >= 2 && prop.scheduled() {
        let base = std::env::var("VERIF_CPU_BASE").ok().and_then(|s| s.parse().ok()).unwrap_or(0usize);
        CpuPlan { sched_cpu: Some(base % ncpu), worker_cpus: vec![(base + 1) % ncpu] }
    } else {
        CpuPlan::none()
    };
    process_setup(prop.scheduled(), pool, &cpus);
    Env { tier, pool, cpus, tmp: harness::make_tmp(), replaying: false }
}

/// Run `n` scenarios twice each in fresh processes (different CPU placement) and compare the
/// event-log digests.
fn selftest_determinism(prop: &'static dyn Prop, n: u64) -> i32 {
    use std::process::Command;
    let exe = std::env::current_exe().unwrap();
    let seed = seed_from_env();
    let mut diverged = 0;
    let mut compared = 0;
    let (mut free, mut free_differ) = (0, 0);
    fn run_one(exe: &std::path::Path, id: &str, seed: u64, run: u64, base: usize) -> Option<(u64, u64, Vec<String>)> {
        let o = Command::new(exe).args(["one", id, "quick", &seed.to_string(), &run.to_string()]).env("VERIF_CPU_BASE", base.to_string()).output().ok()?;
        let v: serde_json::Value = serde_json::from_slice(&o.stdout).ok()?;
        let r = &v["report"];
        let states: Vec<String> = r["states"].as_array().map(|a| a.iter().map(|x| x.to_string()).collect()).unwrap_or_default();
        Some((r["trace_hash"].as_u64()?, r["gates"].as_u64()?, states))
    }
    let handles: Vec<_> = (0..4u64)
        .map(|w| {
            let exe = exe.clone();
            let id = prop.id();
            std::thread::spawn(move || {
                let mut res = vec![];
                let mut i = w;
                while i < n {
                    let a = run_one(&exe, id, seed, i, (w as usize) * 4);
                    let b = run_one(&exe, id, seed, i, (w as usize) * 4 + 2);
                    res.push((i, a, b));
                    i += 4;
                }
                res
            })
        })
        .collect();
    for h in handles {
        for (i, a, b) in h.join().unwrap() {
            if let (Some(a), Some(b)) = (&a, &b) {
                if a.1 == 0 && b.1 == 0 {
                    // free-mode run (no gates): the store states reached are compared below
                    free += 1;
                    if a != b {
                        free_differ += 1;
                    }
                }
            }
            compared += 1;
            match (a, b) {
                (Some(a), Some(b)) if a == b => {}
                (a, b) => {
                    diverged += 1;
                    println!("run {i}: DIVERGED {:?} vs {:?}", a.map(|x| (x.0, x.1)), b.map(|x| (x.0, x.1)));
                }
            }
        }
    }
    println!("determinism selftest {}: {compared} scenarios x 2 processes, {diverged} diverged (event-log digest, gate count and store-state digests compared); {free} of them ran free (FIFO-serial, no gates), {free_differ} of those diverged", prop.id());
    i32::from(diverged > 0)
}
