//! Restore a snapshot into a tmpfs directory and compare the result with the FsModel.

use std::collections::BTreeMap;
use std::ffi::OsStr;
use std::os::unix::ffi::OsStrExt;
use std::os::unix::fs::{FileTypeExt, MetadataExt};
use std::path::{Path, PathBuf};
use std::sync::atomic::{AtomicU64, Ordering};

use rustic_core::repofile::SnapshotFile;
use rustic_core::{IndexedFull, LocalDestination, LsOptions, Repository, RestoreOptions};

use crate::model::{FsModel, Kind, PathKey, path_of, show_key};
use crate::rng::Rng;

static CTR: AtomicU64 = AtomicU64::new(0);

pub fn fresh_dir(tmp: &Path, what: &str) -> PathBuf {
    let p = tmp.join(format!("{what}-{}", CTR.fetch_add(1, Ordering::SeqCst)));
    let _ = std::fs::remove_dir_all(&p);
    std::fs::create_dir_all(&p).expect("create dir on tmpfs");
    p
}

/// run prepare_restore + restore of the whole snapshot into `dest`
pub fn restore_into<S: IndexedFull>(repo: &Repository<S>, snap: &SnapshotFile, dest: &Path, opts: &RestoreOptions, dry_first: bool) -> Result<(), String> {
    let node = repo.node_from_snapshot_and_path(snap, "").map_err(|e| format!("root node: {}", e.display_log()))?;
    let ls = repo.ls(&node, &LsOptions::default()).map_err(|e| format!("ls: {}", e.display_log()))?;
    let d = LocalDestination::new(dest.to_str().ok_or("dest not utf8")?, true, false).map_err(|e| format!("destination: {}", e.display_log()))?;
    if dry_first {
        let _ = repo.prepare_restore(opts, ls.clone(), &d, true).map_err(|e| format!("prepare_restore(dry): {}", e.display_log()))?;
    }
    let plan = repo.prepare_restore(opts, ls.clone(), &d, false).map_err(|e| format!("prepare_restore: {}", e.display_log()))?;
    repo.restore(plan, opts, ls, &d).map_err(|e| format!("restore: {}", e.display_log()))
}

#[derive(Clone, Debug)]
pub struct CompareOpts {
    pub mode: bool,
    pub mtime: bool,
    pub owner: bool,
    /// entries in the directory that are not in the model are an error
    pub no_extras: bool,
    pub hardlinks: bool,
}

impl Default for CompareOpts {
    fn default() -> Self {
        Self { mode: true, mtime: true, owner: true, no_extras: true, hardlinks: true }
    }
}

/// all paths below `root` (relative, as PathKey)
pub fn walk(root: &Path) -> std::io::Result<Vec<PathKey>> {
    fn rec(dir: &Path, prefix: &PathKey, out: &mut Vec<PathKey>) -> std::io::Result<()> {
        let mut names: Vec<_> = std::fs::read_dir(dir)?.collect::<Result<Vec<_>, _>>()?;
        names.sort_by_key(std::fs::DirEntry::file_name);
        for e in names {
            let mut k = prefix.clone();
            k.push(e.file_name().as_bytes().to_vec());
            out.push(k.clone());
            if e.file_type()?.is_dir() {
                rec(&e.path(), &k, out)?;
            }
        }
        Ok(())
    }
    let mut out = vec![];
    rec(root, &vec![], &mut out)?;
    Ok(out)
}

pub fn compare_dir(dest: &Path, model: &FsModel, o: &CompareOpts) -> Result<(), String> {
    let mut inodes: BTreeMap<u64, u64> = BTreeMap::new(); // model inode -> fs inode
    for (key, e) in &model.entries {
        let p = dest.join(path_of(key));
        let md = std::fs::symlink_metadata(&p).map_err(|err| format!("`{}` missing after restore: {err}", show_key(key)))?;
        let ft = md.file_type();
        match &e.kind {
            Kind::File(bytes) => {
                if !ft.is_file() {
                    return Err(format!("`{}` is not a regular file after restore", show_key(key)));
                }
                let got = std::fs::read(&p).map_err(|err| format!("read `{}`: {err}", show_key(key)))?;
                if got != **bytes {
                    return Err(format!("`{}` content differs after restore (got {} bytes, want {})", show_key(key), got.len(), bytes.len()));
                }
                if o.hardlinks && e.links > 1 {
                    if let Some(prev) = inodes.insert(e.inode, md.ino()) {
                        if prev != md.ino() {
                            return Err(format!("`{}` hard link not preserved", show_key(key)));
                        }
                    }
                }
            }
            Kind::Dir => {
                if !ft.is_dir() {
                    return Err(format!("`{}` is not a directory after restore", show_key(key)));
                }
            }
            Kind::Symlink(t) => {
                if !ft.is_symlink() {
                    return Err(format!("`{}` is not a symlink after restore", show_key(key)));
                }
                let got = std::fs::read_link(&p).map_err(|err| format!("readlink `{}`: {err}", show_key(key)))?;
                if got.as_os_str() != OsStr::from_bytes(t) {
                    return Err(format!("`{}` link target differs", show_key(key)));
                }
            }
            Kind::Fifo => {
                if !ft.is_fifo() {
                    return Err(format!("`{}` is not a fifo after restore", show_key(key)));
                }
            }
        }
        if !matches!(e.kind, Kind::Symlink(_)) {
            if o.mode && md.mode() & 0o7777 != e.mode & 0o7777 {
                return Err(format!("`{}` mode {:o} != {:o}", show_key(key), md.mode() & 0o7777, e.mode));
            }
            if o.mtime && (md.mtime(), md.mtime_nsec() as i32) != e.mtime {
                return Err(format!("`{}` mtime {:?} != {:?}", show_key(key), (md.mtime(), md.mtime_nsec()), e.mtime));
            }
        }
        if o.owner && (md.uid() != e.uid || md.gid() != e.gid) {
            return Err(format!("`{}` owner {}:{} != {}:{}", show_key(key), md.uid(), md.gid(), e.uid, e.gid));
        }
    }
    if o.no_extras {
        for k in walk(dest).map_err(|e| format!("walk: {e}"))? {
            if !model.entries.contains_key(&k) {
                return Err(format!("extra entry `{}` in destination", show_key(&k)));
            }
        }
    }
    Ok(())
}

pub fn restore_and_compare<S: IndexedFull>(repo: &Repository<S>, snap: &SnapshotFile, model: &FsModel, tmp: &Path, rng: &mut Rng) -> Result<(), String> {
    let dest = fresh_dir(tmp, "restore");
    let opts = RestoreOptions::default();
    let r = restore_into(repo, snap, &dest, &opts, rng.chance(1, 2)).and_then(|()| compare_dir(&dest, model, &CompareOpts::default()));
    // directories may have been restored read-only
    make_removable(&dest);
    let _ = std::fs::remove_dir_all(&dest);
    r
}

pub fn make_removable(dir: &Path) {
    use std::os::unix::fs::PermissionsExt;
    if let Ok(keys) = walk(dir) {
        for k in keys {
            let p = dir.join(path_of(&k));
            if let Ok(md) = std::fs::symlink_metadata(&p) {
                if md.is_dir() {
                    let _ = std::fs::set_permissions(&p, std::fs::Permissions::from_mode(0o755));
                }
            }
        }
    }
}

/// Create `model` as a real directory tree below `root` (which must exist and be empty): contents,
/// link targets (arbitrary bytes), fifos, hard-link groups, modes, owners and mtimes (ns precision).
pub fn materialize(model: &FsModel, root: &Path) -> Result<(), String> {
    use std::ffi::CString;
    use std::os::unix::ffi::OsStrExt as _;
    let cpath = |p: &Path| CString::new(p.as_os_str().as_bytes()).map_err(|e| e.to_string());
    let mut by_inode: BTreeMap<u64, PathBuf> = BTreeMap::new();
    for (k, e) in &model.entries {
        let p = root.join(path_of(k));
        match &e.kind {
            Kind::Dir => std::fs::create_dir(&p).map_err(|er| format!("mkdir {}: {er}", show_key(k)))?,
            Kind::File(b) => {
                if e.links > 1 {
                    if let Some(first) = by_inode.get(&e.inode) {
                        std::fs::hard_link(first, &p).map_err(|er| format!("link {}: {er}", show_key(k)))?;
                        continue;
                    }
                    let _ = by_inode.insert(e.inode, p.clone());
                }
                std::fs::write(&p, &**b).map_err(|er| format!("write {}: {er}", show_key(k)))?;
            }
            Kind::Symlink(t) => std::os::unix::fs::symlink(OsStr::from_bytes(t), &p).map_err(|er| format!("symlink {}: {er}", show_key(k)))?,
            Kind::Fifo => {
                let c = cpath(&p)?;
                if unsafe { libc::mkfifo(c.as_ptr(), 0o600) } != 0 {
                    return Err(format!("mkfifo {}", show_key(k)));
                }
            }
        }
    }
    // metadata, children before their directories (reverse order), so that directory mtimes stick
    for (k, e) in model.entries.iter().rev() {
        let p = root.join(path_of(k));
        let c = cpath(&p)?;
        unsafe {
            if libc::lchown(c.as_ptr(), e.uid, e.gid) != 0 {
                return Err(format!("lchown {}", show_key(k)));
            }
            if !matches!(e.kind, Kind::Symlink(_)) && libc::chmod(c.as_ptr(), e.mode & 0o7777) != 0 {
                return Err(format!("chmod {}", show_key(k)));
            }
            let ts = [libc::timespec { tv_sec: e.mtime.0, tv_nsec: i64::from(e.mtime.1) }, libc::timespec { tv_sec: e.mtime.0, tv_nsec: i64::from(e.mtime.1) }];
            if libc::utimensat(libc::AT_FDCWD, c.as_ptr(), ts.as_ptr(), libc::AT_SYMLINK_NOFOLLOW) != 0 {
                return Err(format!("utimensat {}", show_key(k)));
            }
        }
    }
    Ok(())
}
