//! The single source of pseudo-randomness of the simulator.
//!
//! Everything a run decides (world, inputs, ops, faults, schedule) is drawn from a `Rng`
//! seeded by `subseed(VERIF_SEED, property, run index)`.

use sha2::{Digest, Sha256};

#[derive(Clone, Debug)]
pub struct Rng {
    s: [u64; 4],
}

fn splitmix(x: &mut u64) -> u64 {
    *x = x.wrapping_add(0x9E37_79B9_7F4A_7C15);
    let mut z = *x;
    z = (z ^ (z >> 30)).wrapping_mul(0xBF58_476D_1CE4_E5B9);
    z = (z ^ (z >> 27)).wrapping_mul(0x94D0_49BB_1331_11EB);
    z ^ (z >> 31)
}

impl Rng {
    pub fn new(seed: u64) -> Self {
        let mut x = seed;
        let s = [
            splitmix(&mut x),
            splitmix(&mut x),
            splitmix(&mut x),
            splitmix(&mut x),
        ];
        Self { s }
    }

    /// A new independent stream, labelled.
    pub fn fork(&mut self, label: &str) -> Self {
        let a = self.next_u64();
        Self::new(hash64(&[&a.to_le_bytes(), label.as_bytes()]))
    }

    pub fn next_u64(&mut self) -> u64 {
        // xoshiro256**
        let result = self.s[1].wrapping_mul(5).rotate_left(7).wrapping_mul(9);
        let t = self.s[1] << 17;
        self.s[2] ^= self.s[0];
        self.s[3] ^= self.s[1];
        self.s[1] ^= self.s[2];
        self.s[0] ^= self.s[3];
        self.s[2] ^= t;
        self.s[3] = self.s[3].rotate_left(45);
        result
    }

    /// uniform in 0..n (n > 0)
    pub fn below(&mut self, n: u64) -> u64 {
        assert!(n > 0);
        // bias is irrelevant for our purposes
        self.next_u64() % n
    }

    pub fn usize(&mut self, n: usize) -> usize {
        self.below(n as u64) as usize
    }

    /// uniform in lo..=hi
    pub fn range(&mut self, lo: u64, hi: u64) -> u64 {
        assert!(lo <= hi);
        lo + self.below(hi - lo + 1)
    }

    pub fn chance(&mut self, num: u64, den: u64) -> bool {
        self.below(den) < num
    }

    pub fn pick<'a, T>(&mut self, v: &'a [T]) -> &'a T {
        &v[self.usize(v.len())]
    }

    pub fn bytes(&mut self, n: usize) -> Vec<u8> {
        let mut v = Vec::with_capacity(n + 8);
        while v.len() < n {
            v.extend_from_slice(&self.next_u64().to_le_bytes());
        }
        v.truncate(n);
        v
    }

    /// random bytes of a random length in lo..=hi
    pub fn bytes_range(&mut self, lo: u64, hi: u64) -> Vec<u8> {
        let n = self.range(lo, hi) as usize;
        self.bytes(n)
    }

    pub fn shuffle<T>(&mut self, v: &mut [T]) {
        for i in (1..v.len()).rev() {
            let j = self.usize(i + 1);
            v.swap(i, j);
        }
    }

    /// choose index by weights
    pub fn weighted(&mut self, weights: &[u64]) -> usize {
        let total: u64 = weights.iter().sum();
        let mut x = self.below(total.max(1));
        for (i, w) in weights.iter().enumerate() {
            if x < *w {
                return i;
            }
            x -= *w;
        }
        weights.len() - 1
    }
}

pub fn hash64(parts: &[&[u8]]) -> u64 {
    let mut h = Sha256::new();
    for p in parts {
        h.update((p.len() as u64).to_le_bytes());
        h.update(p);
    }
    let d = h.finalize();
    u64::from_le_bytes(d[..8].try_into().unwrap())
}

pub fn sha256(data: &[u8]) -> [u8; 32] {
    let mut h = Sha256::new();
    h.update(data);
    h.finalize().into()
}

/// Sub-seed of run `i` of property `prop` under the batch seed.
pub fn subseed(seed: u64, prop: &str, i: u64) -> u64 {
    hash64(&[&seed.to_le_bytes(), prop.as_bytes(), &i.to_le_bytes()])
}
