//! World helpers: keys, repository configurations, repository handles on SimStores, backups of
//! FsModels.

use std::path::PathBuf;
use std::sync::Arc;

use base64::Engine;
use bytesize::ByteSize;
use rustic_core::repofile::{Chunker, MasterKey, SnapshotFile};
use rustic_core::{
    BackupOptions, ConfigOptions, Credentials, IndexedFullStatus, IndexedIdsStatus, KeyOptions,
    OpenStatus, Repository, RepositoryBackends, RepositoryOptions, RusticResult, SnapshotOptions,
    WriteBackend,
};

use crate::model::{FsModel, ReadPlan, SimSource, SourceLog};
use crate::rng::Rng;
use crate::sched::Sched;
use crate::store::SimStore;

#[derive(Clone, Debug)]
pub struct KeyMat {
    pub encrypt: [u8; 32],
    pub k: [u8; 16],
    pub r: [u8; 16],
}

impl KeyMat {
    pub fn from_seed(seed: u64) -> Self {
        let mut rng = Rng::new(seed ^ 0x6b65_795f_6d61_7421);
        let mut s = Self { encrypt: [0; 32], k: [0; 16], r: [0; 16] };
        s.encrypt.copy_from_slice(&rng.bytes(32));
        s.k.copy_from_slice(&rng.bytes(16));
        s.r.copy_from_slice(&rng.bytes(16));
        // Poly1305-AES requires certain bits of r to be clear; restic masks them when generating.
        // The AEAD crate clamps r itself, but keep the key canonical all the same.
        for i in [3, 7, 11, 15] {
            s.r[i] &= 0x0f;
        }
        for i in [4, 8, 12] {
            s.r[i] &= 0xfc;
        }
        s
    }
    pub fn master_key(&self) -> MasterKey {
        let b = base64::engine::general_purpose::STANDARD;
        let json = serde_json::json!({
            "mac": {"k": b.encode(self.k), "r": b.encode(self.r)},
            "encrypt": b.encode(self.encrypt),
        });
        serde_json::from_value(json).expect("master key json")
    }
    pub fn creds(&self) -> Credentials {
        Credentials::Masterkey(self.master_key())
    }
    /// the 64-byte key as laid out by rustic: encrypt ‖ k ‖ r
    pub fn aead_key(&self) -> [u8; 64] {
        let mut k = [0u8; 64];
        k[..32].copy_from_slice(&self.encrypt);
        k[32..48].copy_from_slice(&self.k);
        k[48..].copy_from_slice(&self.r);
        k
    }
}

#[derive(Clone, Debug, PartialEq, Eq, serde::Serialize, serde::Deserialize)]
pub enum ChunkerCfg {
    Default,
    Rabin { avg: usize, min: usize, max: usize },
    Fixed { size: usize },
}

#[derive(Clone, Debug, serde::Serialize, serde::Deserialize)]
pub struct RepoCfg {
    pub version: u32,
    pub compression: Option<i32>,
    pub chunker: ChunkerCfg,
    pub datapack_size: Option<u64>,
    pub treepack_size: Option<u64>,
    pub datapack_growfactor: Option<u32>,
    pub treepack_growfactor: Option<u32>,
    pub extra_verify: Option<bool>,
}

impl Default for RepoCfg {
    fn default() -> Self {
        Self {
            version: 2,
            compression: None,
            chunker: ChunkerCfg::Default,
            datapack_size: None,
            treepack_size: None,
            datapack_growfactor: None,
            treepack_growfactor: None,
            extra_verify: None,
        }
    }
}

impl RepoCfg {
    /// "safe grid": parameters the library accepts and that are meant to work
    pub fn gen(rng: &mut Rng) -> Self {
        let version = if rng.chance(1, 4) { 1 } else { 2 };
        let compression = if version == 1 {
            if rng.chance(1, 2) { Some(0) } else { None }
        } else {
            match rng.weighted(&[80, 20, 20, 20, 16, 2, 1]) {
                0 => None,
                1 => Some(0),
                2 => Some(1),
                3 => Some(3),
                4 => Some(-7),
                5 => Some(19),
                _ => Some(22),
            }
        };
        let chunker = match rng.weighted(&[1, 6, 3]) {
            0 => ChunkerCfg::Default,
            1 => {
                let k = rng.range(12, 17);
                let avg = 1usize << k;
                let min = *rng.pick(&[4096usize, 4096, 8192, avg / 2, avg]);
                let min = min.min(avg).max(4096);
                let max = *rng.pick(&[avg, avg * 2, avg * 4, avg * 8]);
                ChunkerCfg::Rabin { avg, min, max }
            }
            _ => ChunkerCfg::Fixed { size: *rng.pick(&[4096usize, 5000, 10_007, 16_384, 65_536, 100_000, 1 << 20]) },
        };
        let pack = |rng: &mut Rng| *rng.pick(&[None, None, Some(1u64), Some(4096), Some(20_000), Some(100_000), Some(1_000_000)]);
        Self {
            version,
            compression,
            chunker,
            datapack_size: pack(rng),
            treepack_size: pack(rng),
            datapack_growfactor: *rng.pick(&[None, Some(0), Some(32)]),
            treepack_growfactor: *rng.pick(&[None, Some(0), Some(32)]),
            extra_verify: *rng.pick(&[None, Some(true), Some(false)]),
        }
    }

    /// small chunks and small packs, so that small inputs produce many blobs and packs
    pub fn gen_small(rng: &mut Rng) -> Self {
        let mut c = Self::gen(rng);
        if rng.chance(3, 4) {
            let k = rng.range(12, 14);
            let avg = 1usize << k;
            c.chunker = if rng.chance(3, 4) {
                ChunkerCfg::Rabin { avg, min: 4096, max: avg * *rng.pick(&[1usize, 2, 4]) }
            } else {
                ChunkerCfg::Fixed { size: *rng.pick(&[4096usize, 5000, 8192]) }
            };
        }
        if rng.chance(3, 4) {
            c.datapack_size = Some(*rng.pick(&[1u64, 10_000, 30_000, 100_000]));
            c.datapack_growfactor = Some(0);
        }
        if rng.chance(1, 2) {
            c.treepack_size = Some(*rng.pick(&[1u64, 500, 5_000]));
            c.treepack_growfactor = Some(0);
        }
        c
    }

    pub fn to_opts(&self) -> ConfigOptions {
        let mut o = ConfigOptions::default().set_version(self.version);
        if let Some(c) = self.compression {
            o = o.set_compression(c);
        }
        match &self.chunker {
            ChunkerCfg::Default => {}
            ChunkerCfg::Rabin { avg, min, max } => {
                o = o
                    .set_chunker(Chunker::Rabin)
                    .set_chunk_size(ByteSize::b(*avg as u64))
                    .set_chunk_min_size(ByteSize::b(*min as u64))
                    .set_chunk_max_size(ByteSize::b(*max as u64));
            }
            ChunkerCfg::Fixed { size } => {
                o = o.set_chunker(Chunker::FixedSize).set_chunk_size(ByteSize::b(*size as u64));
            }
        }
        if let Some(s) = self.datapack_size {
            o = o.set_datapack_size(ByteSize::b(s));
        }
        if let Some(s) = self.treepack_size {
            o = o.set_treepack_size(ByteSize::b(s));
        }
        if let Some(f) = self.datapack_growfactor {
            o = o.set_datapack_growfactor(f);
        }
        if let Some(f) = self.treepack_growfactor {
            o = o.set_treepack_growfactor(f);
        }
        if let Some(e) = self.extra_verify {
            o = o.set_extra_verify(e);
        }
        o
    }

    pub fn sizes_of_interest(&self) -> Vec<usize> {
        let mut v = vec![];
        match &self.chunker {
            ChunkerCfg::Default => v.extend([512 * 1024, 1024 * 1024]),
            ChunkerCfg::Rabin { avg, min, max } => v.extend([*avg, *min, *max]),
            ChunkerCfg::Fixed { size } => v.push(*size),
        }
        if let Some(s) = self.datapack_size {
            if s > 1 && s < 2_000_000 {
                v.push(s as usize);
            }
        }
        v
    }

    pub fn describe(&self) -> serde_json::Value {
        serde_json::json!({
            "version": self.version, "compression": self.compression,
            "chunker": format!("{:?}", self.chunker),
            "datapack_size": self.datapack_size, "treepack_size": self.treepack_size,
            "growfactors": [self.datapack_growfactor, self.treepack_growfactor],
            "extra_verify": self.extra_verify,
        })
    }
}

pub type RepoOpen = Repository<OpenStatus>;
pub type RepoIds = Repository<IndexedIdsStatus>;
pub type RepoFull = Repository<IndexedFullStatus>;

pub fn repo_on(be: Arc<dyn WriteBackend>, hot: Option<Arc<dyn WriteBackend>>, cache_dir: Option<PathBuf>) -> RusticResult<Repository<()>> {
    let backends = RepositoryBackends::new(be, hot);
    let mut opts = RepositoryOptions::default();
    match cache_dir {
        None => opts.no_cache = true,
        Some(d) => opts.cache_dir = Some(d),
    }
    Repository::new(&opts, &backends)
}

/// a fixed irreducible polynomial of degree 53 (restic's test polynomial)
pub const FIXED_POLY: u64 = 0x3DA3358B4DC173;

pub fn repo_init(store: &Arc<SimStore>, actor: u32, key: &KeyMat, cfg: &RepoCfg) -> RusticResult<RepoOpen> {
    repo_init_on(repo_on(store.handle(actor), None, None)?, key, cfg)
}

pub fn repo_init_on(repo: Repository<()>, key: &KeyMat, cfg: &RepoCfg) -> RusticResult<RepoOpen> {
    repo.init_with_config(&key.creds(), &KeyOptions::default(), config_for(key, cfg)?)
}

/// init of a hot/cold pair: the config handed to the library carries `is_hot` (as `Repository::init` does)
pub fn repo_init_hotcold(repo: Repository<()>, key: &KeyMat, cfg: &RepoCfg) -> RusticResult<RepoOpen> {
    let mut config = config_for(key, cfg)?;
    config.is_hot = Some(true);
    repo.init_with_config(&key.creds(), &KeyOptions::default(), config)
}

/// The config file of a new repository: id and chunker polynomial come from the key seed (so they
/// do not depend on how much OS randomness some thread has consumed), everything else is applied
/// and validated by the library's own `ConfigOptions::apply`. (`Repository::init` itself — random
/// polynomial, version-2 start — is exercised by C18.)
pub fn config_for(key: &KeyMat, cfg: &RepoCfg) -> RusticResult<rustic_core::repofile::ConfigFile> {
    let mut r = Rng::new(u64::from_le_bytes(key.encrypt[..8].try_into().unwrap()) ^ 0x1d);
    let id = hex::encode(r.bytes(32));
    let poly = crate::gf2::random_poly(&mut r);
    let mut config: rustic_core::repofile::ConfigFile =
        serde_json::from_value(serde_json::json!({"version": cfg.version, "id": id, "chunker_polynomial": format!("{poly:x}")})).expect("config json");
    cfg.to_opts().apply(&mut config)?;
    Ok(config)
}

pub fn repo_open(store: &Arc<SimStore>, actor: u32, key: &KeyMat) -> RusticResult<RepoOpen> {
    repo_on(store.handle(actor), None, None)?.open(&key.creds())
}

pub fn snap_template(label: &str) -> RusticResult<SnapshotFile> {
    let opts = SnapshotOptions::default().host("simhost".to_string()).label(label.to_string()).command("rsim".to_string());
    SnapshotFile::from_options(&opts)
}

pub struct BackupResult {
    pub snap: SnapshotFile,
    pub source_log: Arc<std::sync::Mutex<SourceLog>>,
}

/// back up `model` through SimSource
#[allow(clippy::too_many_arguments)]
pub fn backup_model(
    repo: &RepoIds,
    model: &FsModel,
    sched: &Arc<Sched>,
    actor: u32,
    plan: &ReadPlan,
    seed: u64,
    opts: &BackupOptions,
    label: &str,
) -> RusticResult<BackupResult> {
    let src = SimSource::new(model.clone(), sched.clone(), actor, plan.clone(), seed);
    let log = src.log.clone();
    let snap = repo.archive(opts, &src, snap_template(label)?, &[PathBuf::from("/sim")])?;
    Ok(BackupResult { snap, source_log: log })
}
