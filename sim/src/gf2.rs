//! GF(2)[x] polynomial arithmetic: irreducibility test (for choosing chunker polynomials from
//! the seed) and a non-rolling reference Rabin fingerprint.

use crate::rng::Rng;

pub fn deg(p: u64) -> i32 {
    63 - p.leading_zeros() as i32
}

pub fn pmod(mut a: u64, m: u64) -> u64 {
    let dm = deg(m);
    while a != 0 && deg(a) >= dm {
        a ^= m << (deg(a) - dm);
    }
    a
}

pub fn mulmod(a: u64, b: u64, m: u64) -> u64 {
    // degrees < 64 throughout since deg(m) <= 53
    let mut res = 0u64;
    let mut a = pmod(a, m);
    let mut b = b;
    while b != 0 {
        if b & 1 == 1 {
            res ^= a;
        }
        b >>= 1;
        a <<= 1;
        if deg(a) >= deg(m) {
            a ^= m << (deg(a) - deg(m));
        }
    }
    pmod(res, m)
}

pub fn gcd(mut a: u64, mut b: u64) -> u64 {
    while b != 0 {
        let r = pmod(a, b);
        a = b;
        b = r;
    }
    a
}

/// x^(2^k) mod m
fn x_pow_2k(k: i32, m: u64) -> u64 {
    let mut r = pmod(2, m);
    for _ in 0..k {
        r = mulmod(r, r, m);
    }
    r
}

/// Ben-Or irreducibility test
pub fn irreducible(p: u64) -> bool {
    let d = deg(p);
    for i in 1..=d / 2 {
        let q = x_pow_2k(i, p) ^ 2; // x^(2^i) - x
        if gcd(p, pmod(q, p)) != 1 {
            return false;
        }
    }
    true
}

/// a random irreducible polynomial of degree 53 (the shape restic/rustic use)
pub fn random_poly(rng: &mut Rng) -> u64 {
    loop {
        let mut p = rng.next_u64();
        p &= (1 << 54) - 1;
        p |= (1 << 53) | 1;
        if irreducible(p) {
            return p;
        }
    }
}

/// Non-rolling Rabin fingerprint of `window` under `poly`, as the rolling implementation in
/// rustic_cdc computes it for a window that was slid in byte by byte from an empty state:
/// digest = (sum bytes * x^(8*(n-1-i))) * x^deg(poly)... — see `reference_digest` below for the
/// exact form validated against the implementation.
pub fn poly_of_bytes_mod(bytes: &[u8], poly: u64) -> u64 {
    let mut r = 0u64;
    for b in bytes {
        // r = (r * x^8 + b) mod poly
        r = mulmod(r, 1 << 8, poly) ^ u64::from(*b);
        r = pmod(r, poly);
    }
    r
}

#[cfg(test)]
mod tests {
    use super::*;
    #[test]
    fn known_poly() {
        assert!(irreducible(0x3DA3358B4DC173));
        assert!(!irreducible(0x3DA3358B4DC175 & !2 | 4));
    }
}
