//! StoreAudit: an independent decoder for everything the library stores.
//!
//! Own AES-256-CTR + Poly1305-AES call (via the `aes256ctr_poly1305aes` crate with the key the
//! simulator chose), own pack trailer / header-entry parser, own zstd call. JSON structures are
//! decoded with the public `repofile` serde types.

use std::collections::{BTreeMap, BTreeSet};

use aes256ctr_poly1305aes::Aes256CtrPoly1305Aes;
use aes256ctr_poly1305aes::aead::{Aead, AeadInPlace, KeyInit, generic_array::GenericArray};
use rustic_core::repofile::{BlobType, IndexFile, SnapshotFile, Tree};
use rustic_core::{FileType, Id};

use crate::rng::sha256;
use crate::store::{Files, ft_code};

pub fn id_hex(id: &Id) -> String {
    id.to_hex().as_str().to_string()
}
pub fn id_of_bytes(b: &[u8; 32]) -> Id {
    hex::encode(b).parse().expect("hex id")
}
pub fn hash_id(data: &[u8]) -> Id {
    id_of_bytes(&sha256(data))
}

pub fn decrypt(key: &[u8; 64], data: &[u8]) -> Result<Vec<u8>, String> {
    if data.len() < 32 {
        return Err(format!("too short to be an encrypted message ({} bytes)", data.len()));
    }
    let cipher = Aes256CtrPoly1305Aes::new(GenericArray::from_slice(key));
    cipher.decrypt(GenericArray::from_slice(&data[..16]), &data[16..]).map_err(|_| "MAC check failed".to_string())
}

pub fn encrypt(key: &[u8; 64], nonce: &[u8; 16], plain: &[u8]) -> Vec<u8> {
    let cipher = Aes256CtrPoly1305Aes::new(GenericArray::from_slice(key));
    let mut out = Vec::with_capacity(plain.len() + 32);
    out.extend_from_slice(nonce);
    out.extend_from_slice(plain);
    let tag = cipher.encrypt_in_place_detached(GenericArray::from_slice(nonce), &[], &mut out[16..]).expect("encrypt");
    out.extend_from_slice(&tag);
    out
}

/// decode an encrypted repository file (snapshot, index, config): JSON bytes
pub fn decode_file(key: &[u8; 64], data: &[u8]) -> Result<Vec<u8>, String> {
    let plain = decrypt(key, data)?;
    match plain.first() {
        Some(b'{' | b'[') => Ok(plain),
        Some(2) => zstd::decode_all(&plain[1..]).map_err(|e| format!("zstd: {e}")),
        _ => Err("unknown file format marker".into()),
    }
}

/// encode a repository file the way version 1 does (uncompressed); enough for crafting files
pub fn encode_file(key: &[u8; 64], nonce: &[u8; 16], json: &[u8]) -> Vec<u8> {
    encrypt(key, nonce, json)
}

#[derive(Clone, Debug, PartialEq, Eq)]
pub struct PackEntry {
    pub tpe: BlobType,
    pub id: Id,
    pub offset: u32,
    pub length: u32,
    pub raw_len: Option<u32>,
}

#[derive(Clone, Debug)]
pub struct PackInfo {
    pub entries: Vec<PackEntry>,
    pub header_len: u32,
    pub size: u32,
}

/// Parse a pack file: trailer length, header, entries tiling the body.
pub fn parse_pack(key: &[u8; 64], data: &[u8]) -> Result<PackInfo, String> {
    if data.len() < 4 + 32 {
        return Err(format!("pack too short ({} bytes)", data.len()));
    }
    let n = data.len();
    let hl = u32::from_le_bytes(data[n - 4..].try_into().unwrap()) as usize;
    if hl + 4 > n || hl < 32 {
        return Err(format!("header length {hl} out of range for pack of {n} bytes"));
    }
    let header = decrypt(key, &data[n - 4 - hl..n - 4]).map_err(|e| format!("header: {e}"))?;
    let mut entries = vec![];
    let mut p = 0usize;
    let mut offset = 0u32;
    while p < header.len() {
        let t = header[p];
        let (tpe, comp) = match t {
            0 => (BlobType::Data, false),
            1 => (BlobType::Tree, false),
            2 => (BlobType::Data, true),
            3 => (BlobType::Tree, true),
            _ => return Err(format!("unknown header entry type {t}")),
        };
        let need = if comp { 41 } else { 37 };
        if p + need > header.len() {
            return Err("truncated header entry".into());
        }
        let length = u32::from_le_bytes(header[p + 1..p + 5].try_into().unwrap());
        let (raw_len, idpos) = if comp { (Some(u32::from_le_bytes(header[p + 5..p + 9].try_into().unwrap())), p + 9) } else { (None, p + 5) };
        let idb: [u8; 32] = header[idpos..idpos + 32].try_into().unwrap();
        entries.push(PackEntry { tpe, id: id_of_bytes(&idb), offset, length, raw_len });
        offset = offset.checked_add(length).ok_or("offset overflow")?;
        p += need;
    }
    let body = (n - 4 - hl) as u32;
    if offset != body {
        return Err(format!("blobs cover {offset} bytes but body is {body} bytes"));
    }
    Ok(PackInfo { entries, header_len: hl as u32, size: n as u32 })
}

/// decode one blob of a pack: plaintext
pub fn decode_blob(key: &[u8; 64], pack: &[u8], e: &PackEntry) -> Result<Vec<u8>, String> {
    let (o, l) = (e.offset as usize, e.length as usize);
    if o + l > pack.len() {
        return Err("blob range outside pack".into());
    }
    let mut plain = decrypt(key, &pack[o..o + l])?;
    if let Some(raw) = e.raw_len {
        plain = zstd::decode_all(&plain[..]).map_err(|er| format!("zstd: {er}"))?;
        if plain.len() != raw as usize {
            return Err(format!("uncompressed length {} != recorded {}", plain.len(), raw));
        }
    }
    if hash_id(&plain) != e.id {
        return Err("blob hash does not match its id".into());
    }
    Ok(plain)
}

/// full verification of a pack: name = hash, header parses, every blob decodes, single blob type
pub fn verify_pack(key: &[u8; 64], id: &Id, data: &[u8]) -> Result<PackInfo, String> {
    if &hash_id(data) != id {
        return Err("pack id is not the hash of its bytes".into());
    }
    let info = parse_pack(key, data)?;
    let mut types = BTreeSet::new();
    for e in &info.entries {
        let _ = decode_blob(key, data, e).map_err(|er| format!("blob {}: {er}", id_hex(&e.id)))?;
        let _ = types.insert(e.tpe);
    }
    if types.len() > 1 {
        return Err("pack mixes blob types".into());
    }
    Ok(info)
}

#[derive(Clone, Debug)]
pub struct IndexEntryView {
    pub pack: Id,
    pub offset: u32,
    pub length: u32,
    pub raw_len: Option<u32>,
    pub marked: bool,
    pub index_file: Id,
}

/// Everything the store says, decoded independently.
#[derive(Default)]
pub struct StoreView {
    pub snapshots: BTreeMap<Id, SnapshotFile>,
    pub index_files: BTreeMap<Id, IndexFile>,
    /// (type, blob id) -> all index listings
    pub index: BTreeMap<(BlobType, Id), Vec<IndexEntryView>>,
    pub packs: BTreeMap<Id, PackInfo>,
    /// (type, blob id) -> packs physically containing it (by parsed header)
    pub physical: BTreeMap<(BlobType, Id), Vec<Id>>,
    pub errors: Vec<String>,
}

impl StoreView {
    pub fn build(key: &[u8; 64], files: &Files) -> Self {
        let mut v = Self::default();
        for ((t, id), data) in files {
            match *t {
                x if x == ft_code(FileType::Snapshot) => match decode_file(key, data).and_then(|j| serde_json::from_slice::<SnapshotFile>(&j).map_err(|e| e.to_string())) {
                    Ok(mut s) => {
                        if &hash_id(data) != id {
                            v.errors.push(format!("snapshot {} id != hash", id_hex(id)));
                        }
                        s.id = (*id).into();
                        let _ = v.snapshots.insert(*id, s);
                    }
                    Err(e) => v.errors.push(format!("snapshot {}: {e}", id_hex(id))),
                },
                x if x == ft_code(FileType::Index) => match decode_file(key, data).and_then(|j| serde_json::from_slice::<IndexFile>(&j).map_err(|e| e.to_string())) {
                    Ok(f) => {
                        if &hash_id(data) != id {
                            v.errors.push(format!("index {} id != hash", id_hex(id)));
                        }
                        for (marked, packs) in [(false, &f.packs), (true, &f.packs_to_delete)] {
                            for p in packs {
                                for b in &p.blobs {
                                    v.index.entry((b.tpe, *b.id)).or_default().push(IndexEntryView {
                                        pack: *p.id,
                                        offset: b.location.offset,
                                        length: b.location.length,
                                        raw_len: b.location.uncompressed_length.map(std::num::NonZeroU32::get),
                                        marked,
                                        index_file: *id,
                                    });
                                }
                            }
                        }
                        let _ = v.index_files.insert(*id, f);
                    }
                    Err(e) => v.errors.push(format!("index {}: {e}", id_hex(id))),
                },
                x if x == ft_code(FileType::Pack) => match verify_pack(key, id, data) {
                    Ok(info) => {
                        for e in &info.entries {
                            v.physical.entry((e.tpe, e.id)).or_default().push(*id);
                        }
                        let _ = v.packs.insert(*id, info);
                    }
                    Err(e) => v.errors.push(format!("pack {}: {e}", id_hex(id))),
                },
                _ => {}
            }
        }
        v
    }

    /// read a blob physically (from any stored pack that contains it)
    pub fn read_blob(&self, key: &[u8; 64], files: &Files, tpe: BlobType, id: &Id) -> Result<Vec<u8>, String> {
        let packs = self.physical.get(&(tpe, *id)).ok_or_else(|| format!("{tpe} blob {} is in no stored pack", id_hex(id)))?;
        let pid = packs[0];
        let data = files.get(&(ft_code(FileType::Pack), pid)).ok_or("pack vanished")?;
        let e = self.packs[&pid].entries.iter().find(|e| e.tpe == tpe && &e.id == id).ok_or("entry vanished")?;
        decode_blob(key, data, e)
    }

    /// all (type, id) reachable from a tree; Err lists the first blob that is physically missing
    pub fn reachable(&self, key: &[u8; 64], files: &Files, root: &Id) -> Result<BTreeSet<(BlobType, Id)>, String> {
        let mut seen = BTreeSet::new();
        let mut stack = vec![*root];
        while let Some(t) = stack.pop() {
            if !seen.insert((BlobType::Tree, t)) {
                continue;
            }
            let data = self.read_blob(key, files, BlobType::Tree, &t)?;
            let tree: Tree = serde_json::from_slice(&data).map_err(|e| format!("tree {} does not parse: {e}", id_hex(&t)))?;
            for n in tree.nodes {
                if let Some(st) = n.subtree {
                    stack.push(*st);
                }
                for c in n.content.unwrap_or_default() {
                    if !self.physical.contains_key(&(BlobType::Data, *c)) {
                        return Err(format!("data blob {} is in no stored pack", id_hex(&c)));
                    }
                    let _ = seen.insert((BlobType::Data, *c));
                }
            }
        }
        Ok(seen)
    }

    /// is (type,id) listed by some index file in a pack that is not marked for deletion, and does that pack exist?
    pub fn indexed_live(&self, tpe: BlobType, id: &Id) -> bool {
        self.index.get(&(tpe, *id)).is_some_and(|v| v.iter().any(|e| !e.marked && self.packs.contains_key(&e.pack)))
    }
}

/// Consistency between packs and index listings: every index entry of an existing pack equals the
/// parsed header entry; returns mismatch descriptions.
pub fn pack_index_mismatches(view: &StoreView) -> Vec<String> {
    let mut out = vec![];
    for (fid, f) in &view.index_files {
        for p in f.packs.iter().chain(f.packs_to_delete.iter()) {
            let Some(info) = view.packs.get(&*p.id) else { continue };
            let mut listed: Vec<PackEntry> = p
                .blobs
                .iter()
                .map(|b| PackEntry { tpe: b.tpe, id: *b.id, offset: b.location.offset, length: b.location.length, raw_len: b.location.uncompressed_length.map(std::num::NonZeroU32::get) })
                .collect();
            listed.sort_by_key(|e| e.offset);
            if listed != info.entries {
                out.push(format!("index {} lists pack {} differently from its header ({} vs {} blobs)", id_hex(fid), id_hex(&p.id), listed.len(), info.entries.len()));
            }
            if let Some(sz) = p.size {
                if sz != info.size {
                    out.push(format!("index {} records size {} for pack {} of {} bytes", id_hex(fid), sz, id_hex(&p.id), info.size));
                }
            }
        }
    }
    out
}
