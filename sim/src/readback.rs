//! ReadBack oracle: read a snapshot through the public API and compare with the FsModel.

use std::os::unix::ffi::OsStrExt;
use std::path::PathBuf;

use rustic_core::repofile::{Node, NodeType, SnapshotFile};
use rustic_core::{IndexedFull, LsOptions, Repository};

use crate::model::{FsModel, Kind, key_of, show_key};
use crate::rng::Rng;

#[derive(Debug, Clone, PartialEq, Eq)]
pub enum ReadBack {
    Equal,
    /// content/metadata differs from the model: (path, what)
    Differs(String, String),
    /// a read failed: (where, error text)
    Err(String, String),
}

impl ReadBack {
    pub fn is_equal(&self) -> bool {
        matches!(self, ReadBack::Equal)
    }
    pub fn is_err(&self) -> bool {
        matches!(self, ReadBack::Err(..))
    }
    pub fn short(&self) -> String {
        match self {
            ReadBack::Equal => "equal".into(),
            ReadBack::Differs(p, w) => format!("differs at `{p}`: {w}"),
            ReadBack::Err(w, e) => format!("error in {w}: {}", e.lines().next().unwrap_or("")),
        }
    }
}

#[derive(Clone, Debug)]
pub struct ReadBackOpts {
    /// compare metadata (mode, mtime, uid/gid, inode, links)
    pub meta: bool,
    /// number of ranged reads per file
    pub ranged: usize,
    /// restore into a tmpfs dir and compare (only for models without special files)
    pub restore: bool,
    /// compare inode numbers (false when the source was a real directory)
    pub inode: bool,
    /// compare only these mode bits (a real directory source stores Go-style modes with type bits)
    pub mode_mask: u32,
    /// files named `*.stream` are expected to carry size 0 in their node (SimSource convention; not for real directories)
    pub stream_sizes: bool,
}

impl Default for ReadBackOpts {
    fn default() -> Self {
        Self { meta: true, ranged: 3, restore: false, inode: true, mode_mask: u32::MAX, stream_sizes: true }
    }
}

pub fn list_snapshot<S: IndexedFull>(repo: &Repository<S>, snap: &SnapshotFile) -> Result<Vec<(PathBuf, Node)>, (String, String)> {
    let node = repo.node_from_snapshot_and_path(snap, "").map_err(|e| ("root node".to_string(), e.display_log()))?;
    let it = repo.ls(&node, &LsOptions::default()).map_err(|e| ("ls".to_string(), e.display_log()))?;
    let mut v = Vec::new();
    for item in it {
        v.push(item.map_err(|e| ("ls item".to_string(), e.display_log()))?);
    }
    Ok(v)
}

/// Compare the snapshot with the model; never panics on library errors, reports them.
pub fn read_back<S: IndexedFull>(
    repo: &Repository<S>,
    snap: &SnapshotFile,
    model: &FsModel,
    opts: &ReadBackOpts,
    rng: &mut Rng,
) -> ReadBack {
    let listed = match list_snapshot(repo, snap) {
        Ok(v) => v,
        Err((w, e)) => return ReadBack::Err(w, e),
    };
    let mut it = listed.iter();
    for (key, e) in &model.entries {
        let Some((path, node)) = it.next() else {
            return ReadBack::Differs(show_key(key), "missing in snapshot (listing ended)".into());
        };
        let got_key = key_of(path);
        if &got_key != key {
            return ReadBack::Differs(show_key(key), format!("listing has `{}` here", show_key(&got_key)));
        }
        if node.name().as_bytes() != key.last().unwrap().as_slice() {
            return ReadBack::Differs(show_key(key), "node name differs".into());
        }
        // the same entry looked up by its path (names with backslashes, quotes, control characters included)
        if let Some(ps) = path.to_str() {
            let plain = key.iter().all(|c| !c.is_empty() && c.as_slice() != b"." && c.as_slice() != b"..");
            if plain && std::path::Path::new(ps).components().count() == key.len() {
                match repo.node_from_snapshot_and_path(snap, ps) {
                    Ok(n) => {
                        if n.name != node.name || n.content != node.content || n.subtree != node.subtree {
                            return ReadBack::Differs(show_key(key), format!("lookup by path returns another node (`{}`)", n.name));
                        }
                    }
                    Err(err) => return ReadBack::Differs(show_key(key), format!("listed, but lookup by path fails: {}", crate::common::classify(&err.display_log()))),
                }
            }
        }
        // type
        let type_ok = match (&e.kind, &node.node_type) {
            (Kind::File(_), NodeType::File) | (Kind::Dir, NodeType::Dir) | (Kind::Fifo, NodeType::Fifo) => true,
            (Kind::Symlink(t), NodeType::Symlink { .. }) => node.node_type.to_link().as_os_str().as_bytes() == t.as_slice(),
            _ => false,
        };
        if !type_ok {
            return ReadBack::Differs(show_key(key), format!("type/link target differs: {:?}", node.node_type));
        }
        if opts.meta {
            // node modes are in Go's io/fs layout; symlink permission bits are not portable (not compared)
            if !matches!(e.kind, Kind::Symlink(_)) && node.meta.mode.map(|m| crate::model::perm_from_go(m) & opts.mode_mask) != Some(e.mode & 0o7777 & opts.mode_mask) {
                return ReadBack::Differs(show_key(key), format!("mode {:?} (go layout) != {:o}", node.meta.mode.map(|m| format!("{:o}", crate::model::perm_from_go(m))), e.mode));
            }
            let mt = node.meta.mtime.map(|t| (t.as_second(), t.subsec_nanosecond()));
            // model convention: NO_MTIME stands for "the source reports no modification time"
            let want = if e.mtime.0 == crate::model::NO_MTIME { None } else { Some(e.mtime) };
            if mt != want {
                return ReadBack::Differs(show_key(key), format!("mtime {:?} != {:?}", mt, e.mtime));
            }
            if node.meta.uid != Some(e.uid) || node.meta.gid != Some(e.gid) {
                return ReadBack::Differs(show_key(key), "uid/gid differ".into());
            }
            if !matches!(e.kind, Kind::Dir) && ((opts.inode && node.meta.inode != e.inode) || node.meta.links != e.links) {
                return ReadBack::Differs(show_key(key), "inode/links differ".into());
            }
        }
        if let Kind::File(bytes) = &e.kind {
            let want_size = if opts.stream_sizes && crate::model::is_stream(key.last().unwrap()) { 0 } else { bytes.len() as u64 };
            if node.meta.size != want_size {
                return ReadBack::Differs(show_key(key), format!("size {} != {}", node.meta.size, want_size));
            }
            // dump
            let mut out = Vec::with_capacity(bytes.len());
            if let Err(err) = repo.dump(node, &mut out) {
                return ReadBack::Err(format!("dump `{}`", show_key(key)), err.display_log());
            }
            if &out != &**bytes {
                return ReadBack::Differs(show_key(key), format!("dump content differs (got {} bytes, want {})", out.len(), bytes.len()));
            }
            // ranged reads
            if opts.ranged > 0 {
                let of = match repo.open_file(node) {
                    Ok(of) => of,
                    Err(err) => return ReadBack::Err(format!("open_file `{}`", show_key(key)), err.display_log()),
                };
                for i in 0..opts.ranged {
                    let len = bytes.len();
                    let (off, l) = match i {
                        0 => (0, len + 10),
                        1 => (len, 5),
                        _ => {
                            let off = rng.usize(len + 1);
                            (off, rng.usize(len - off + 2))
                        }
                    };
                    match repo.read_file_at(&of, off, l) {
                        Ok(b) => {
                            let end = (off + l).min(len);
                            let want = &bytes[off.min(len)..end];
                            if &b[..] != want {
                                return ReadBack::Differs(show_key(key), format!("read_file_at({off},{l}) differs"));
                            }
                        }
                        Err(err) => return ReadBack::Err(format!("read_file_at `{}`", show_key(key)), err.display_log()),
                    }
                }
            }
        }
    }
    if let Some((path, _)) = it.next() {
        return ReadBack::Differs(path.display().to_string(), "extra entry in snapshot".into());
    }
    ReadBack::Equal
}

/// Model-free complete read: list everything and dump every file; Err((where, error)).
pub fn read_complete<S: IndexedFull>(repo: &Repository<S>, snap: &SnapshotFile) -> Result<usize, (String, String)> {
    let listed = list_snapshot(repo, snap)?;
    let mut n = 0;
    for (path, node) in &listed {
        if node.is_file() {
            let mut out = Vec::new();
            repo.dump(node, &mut out).map_err(|e| (format!("dump `{}`", path.display()), e.display_log()))?;
            if out.len() as u64 != node.meta.size && !crate::model::is_stream(node.name().as_encoded_bytes()) {
                return Err((format!("dump `{}`", path.display()), format!("dumped {} bytes but node size is {}", out.len(), node.meta.size)));
            }
            n += 1;
        }
    }
    Ok(n)
}
