//! Per-run setup shared by all scenarios.

use std::collections::BTreeMap;
use std::sync::Mutex;

use rustic_core::RusticError;
use sha2::{Digest, Sha256};

use crate::interpose;

/// 2024-03-09T16:00:00Z
pub const BASE_TIME_S: i64 = 1_710_000_000;

/// Install the deterministic environment of one run: simulated clock, PRF getrandom, PRF nonces.
pub fn run_setup(subseed: u64, start_s: i64) {
    interpose::clock_set(start_s * 1_000_000_000);
    interpose::rand_deterministic(subseed);
    arm_nonce(subseed);
    let _ = rustic_core::verif::take_probes();
    // tuning knob, varied per scenario: the indexer saves an index file after this many blobs
    // (built-in: 50 000, which no scenario of affordable size reaches). A quarter of the scenarios use a
    // small value, so that commands write several index files and the flush happens in the middle of a run.
    let h = crate::rng::hash64(&[b"knob:indexer-max-count", &subseed.to_le_bytes()]);
    let knob = match h % 8 {
        0 => 1 + (h >> 8) as usize % 4,
        1 => 5 + (h >> 8) as usize % 60,
        _ => 0,
    };
    // second knob: how far apart two blobs of a pack may lie and how long a read may get for them to be fetched
    // in one partial read (built-in 256 KiB / 40 MiB: with simulation-sized packs everything coalesces,
    // so the "cannot coalesce" paths of restore and repacking would never run)
    let h2 = crate::rng::hash64(&[b"knob:pack-read-limits", &subseed.to_le_bytes()]);
    let limits = match h2 % 8 {
        0 => Some((0, 40 << 20)),                       // no holes
        1 => Some(((h2 >> 8) as u32 % 600, 40 << 20)),  // small holes only
        2 => Some((256 << 10, 4096 + (h2 >> 8) as u32 % 60_000)), // short reads
        _ => None,
    };
    rustic_core::verif::set_pack_read_limits(limits);
    KNOB_READ.store(usize::from(limits.is_some()), std::sync::atomic::Ordering::SeqCst);
    rustic_core::verif::set_indexer_max_count(knob);
    KNOB_INDEXER.store(knob, std::sync::atomic::Ordering::SeqCst);
}

pub static KNOB_INDEXER: std::sync::atomic::AtomicUsize = std::sync::atomic::AtomicUsize::new(0);
pub static KNOB_READ: std::sync::atomic::AtomicUsize = std::sync::atomic::AtomicUsize::new(0);

/// Epoch of the nonce PRF: the number of gate releases so far (scheduled mode) plus the number of
/// store operations performed while no scheduler is active (free mode).
pub static EPOCH: std::sync::atomic::AtomicU64 = std::sync::atomic::AtomicU64::new(0);

/// in-memory debug log (VERIF_DBG): printing would perturb the timing it is meant to show
pub static DBG: std::sync::Mutex<Vec<String>> = std::sync::Mutex::new(Vec::new());
pub fn dbg_on() -> bool {
    static ON: std::sync::OnceLock<bool> = std::sync::OnceLock::new();
    *ON.get_or_init(|| std::env::var("VERIF_DBG").is_ok())
}
pub fn dbg_push(s: String) {
    if dbg_on() {
        DBG.lock().unwrap().push(s);
    }
}
pub fn dbg_dump() {
    if dbg_on() {
        for l in DBG.lock().unwrap().iter() {
            eprintln!("DBG {l}");
        }
    }
}

pub fn bump_epoch() {
    let _ = EPOCH.fetch_add(1, std::sync::atomic::Ordering::SeqCst);
}

/// nonce = SHA256(seed ‖ SHA256(plaintext) ‖ epoch)[..16] — independent of which thread encrypts
/// and of the order in which concurrently running threads encrypt. Two encryptions of the same
/// plaintext within one scheduling step get the same nonce (harmless here: identical ciphertext);
/// encryptions in different steps differ, so e.g. a repacked pack never collides with the pack it
/// replaces.
pub fn arm_nonce(seed: u64) {
    EPOCH.store(0, std::sync::atomic::Ordering::SeqCst);
    rustic_core::verif::set_nonce_source(Some(Box::new(move |plain: &[u8], nonce: &mut [u8]| {
        let ph: [u8; 32] = Sha256::digest(plain).into();
        let mut h = Sha256::new();
        h.update(seed.to_le_bytes());
        h.update(ph);
        h.update(EPOCH.load(std::sync::atomic::Ordering::SeqCst).to_le_bytes());
        let d = h.finalize();
        if dbg_on() {
            dbg_push(format!("nonce epoch={} plain={:02x}{:02x}{:02x} len={} tid={}", EPOCH.load(std::sync::atomic::Ordering::SeqCst), ph[0], ph[1], ph[2], plain.len(), unsafe { libc::syscall(libc::SYS_gettid) }));
        }
        if std::env::var("VERIF_NONCE_TRACE").is_ok() {
            eprintln!("NONCE epoch={} plain={:02x}{:02x}{:02x} len={} thread={:?}", EPOCH.load(std::sync::atomic::Ordering::SeqCst), ph[0], ph[1], ph[2], plain.len(), std::thread::current().name());
        }
        let l = nonce.len().min(16);
        nonce[..l].copy_from_slice(&d[..l]);
    })));
}

pub fn disarm_nonce() {
    rustic_core::verif::set_nonce_source(None);
}

pub fn etext(e: &RusticError) -> String {
    e.display_log()
}

/// stable class of an error/panic message: hex ids and numbers are abstracted away
pub fn classify(msg: &str) -> String {
    let first = msg.lines().find(|l| !l.trim().is_empty()).unwrap_or("").trim();
    // names and ids in backticks are not part of the class
    let first = {
        let mut o = String::new();
        let mut inside = false;
        for c in first.chars() {
            if c == '`' {
                inside = !inside;
                if inside {
                    o.push_str("`_");
                } else {
                    o.push('`');
                }
            } else if !inside {
                o.push(c);
            }
        }
        o
    };
    let first = first.as_str();
    let mut out = String::new();
    let mut word = String::new();
    let flush = |w: &mut String, out: &mut String| {
        if w.is_empty() {
            return;
        }
        let is_hex = w.len() >= 8 && w.chars().all(|c| c.is_ascii_hexdigit());
        let is_num = w.chars().all(|c| c.is_ascii_digit());
        if is_hex {
            out.push_str("<id>");
        } else if is_num {
            out.push('N');
        } else {
            out.push_str(w);
        }
        w.clear();
    };
    for c in first.chars() {
        if c.is_ascii_alphanumeric() {
            word.push(c);
        } else {
            flush(&mut word, &mut out);
            out.push(c);
        }
    }
    flush(&mut word, &mut out);
    if out.len() > 160 {
        out.truncate(160);
    }
    out
}

pub fn probes_into(map: &mut BTreeMap<String, u64>) {
    for (k, v) in rustic_core::verif::take_probes() {
        *map.entry(k.to_string()).or_insert(0) += v;
    }
}

static PANICS: Mutex<Vec<String>> = Mutex::new(Vec::new());

/// record every panic (message @ location) of any thread; silent unless VERIF_VERBOSE is set
pub fn install_panic_hook() {
    let verbose = std::env::var("VERIF_VERBOSE").is_ok();
    std::panic::set_hook(Box::new(move |info| {
        let loc = info.location().map(|l| format!("{}:{}", l.file(), l.line())).unwrap_or_default();
        let msg = crate::sched::panic_text(info.payload());
        let thread = std::thread::current().name().unwrap_or("?").to_string();
        if verbose {
            eprintln!("panic in thread {thread}: {msg} @ {loc}");
        }
        PANICS.lock().unwrap().push(format!("{msg} @ {loc}"));
    }));
}

pub fn take_panics() -> Vec<String> {
    std::mem::take(&mut *PANICS.lock().unwrap())
}

/// strip the machine-specific prefix of a source location
pub fn short_loc(s: &str) -> String {
    s.replace("/repo/crates/", "")
}

/// the Error-level findings of a check run, as text
pub fn check_errors(res: &rustic_core::CheckResults) -> Vec<String> {
    res.0.iter().filter(|(l, _)| format!("{l:?}") == "Error").map(|(_, e)| e.to_string()).collect()
}
