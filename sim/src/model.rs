//! FsModel: the reference model of a source tree, and SimSource: a `ReadSource` over it.

use std::collections::BTreeMap;
use std::ffi::OsStr;
use std::io::Read;
use std::os::unix::ffi::OsStrExt;
use std::path::PathBuf;
use std::sync::{Arc, Mutex};

use rustic_core::repofile::{Metadata, Node, NodeType};
use rustic_core::{ErrorKind, ReadSource, ReadSourceEntry, ReadSourceOpen, RusticError, RusticResult};

use crate::rng::Rng;
use crate::sched::{GateKey, Role, Sched};

#[derive(Clone, Debug, PartialEq, Eq)]
pub enum Kind {
    File(Arc<Vec<u8>>),
    Dir,
    Symlink(Vec<u8>),
    Fifo,
}

#[derive(Clone, Debug, PartialEq, Eq)]
pub struct Entry {
    pub kind: Kind,
    pub mode: u32,
    /// seconds + nanos since epoch
    pub mtime: (i64, i32),
    pub ctime: (i64, i32),
    pub uid: u32,
    pub gid: u32,
    pub inode: u64,
    pub links: u64,
}

pub type PathKey = Vec<Vec<u8>>;

/// `mtime.0` value meaning "the source reports no modification time" (out of range for a timestamp,
/// so the node gets `mtime: None`)
pub const NO_MTIME: i64 = i64::MIN;

/// Ordered tree: key = path components (bytes). BTreeMap order on Vec<Vec<u8>> is exactly the
/// depth-first, byte-ordered order `TreeIterator` expects (a directory sorts directly before its
/// children, children before the directory's later siblings).
#[derive(Clone, Debug, Default, PartialEq, Eq)]
pub struct FsModel {
    pub entries: BTreeMap<PathKey, Entry>,
}

pub fn path_of(key: &PathKey) -> PathBuf {
    let mut p = PathBuf::new();
    for c in key {
        p.push(OsStr::from_bytes(c));
    }
    p
}

pub fn key_of(path: &std::path::Path) -> PathKey {
    path.components()
        .filter_map(|c| match c {
            std::path::Component::Normal(s) => Some(s.as_bytes().to_vec()),
            _ => None,
        })
        .collect()
}

pub fn show_key(key: &PathKey) -> String {
    key.iter().map(|c| String::from_utf8_lossy(c).to_string()).collect::<Vec<_>>().join("/")
}

impl FsModel {
    pub fn total_bytes(&self) -> usize {
        self.entries.values().map(|e| if let Kind::File(b) = &e.kind { b.len() } else { 0 }).sum()
    }
    pub fn files(&self) -> impl Iterator<Item = (&PathKey, &Arc<Vec<u8>>)> {
        self.entries.iter().filter_map(|(k, e)| if let Kind::File(b) = &e.kind { Some((k, b)) } else { None })
    }
    pub fn n_files(&self) -> usize {
        self.files().count()
    }
    pub fn is_dir(&self, key: &PathKey) -> bool {
        key.is_empty() || matches!(self.entries.get(key), Some(Entry { kind: Kind::Dir, .. }))
    }
    /// remove an entry and everything beneath it
    pub fn remove_subtree(&mut self, key: &PathKey) {
        self.entries.retain(|k, _| !(k.len() >= key.len() && k[..key.len()] == key[..]));
    }
    pub fn dirs(&self) -> Vec<PathKey> {
        let mut v = vec![vec![]];
        v.extend(self.entries.iter().filter(|(_, e)| e.kind == Kind::Dir).map(|(k, _)| k.clone()));
        v
    }
    /// compact description for evidence samples
    pub fn describe(&self) -> serde_json::Value {
        let v: Vec<String> = self
            .entries
            .iter()
            .map(|(k, e)| {
                let what = match &e.kind {
                    Kind::File(b) => format!("file[{}]", b.len()),
                    Kind::Dir => "dir".into(),
                    Kind::Symlink(t) => format!("symlink->{}", String::from_utf8_lossy(t)),
                    Kind::Fifo => "fifo".into(),
                };
                format!("{} {}", show_key(k), what)
            })
            .collect();
        serde_json::json!(v)
    }
}

// ---------------------------------------------------------------------------------------------
// generators

#[derive(Clone, Debug, serde::Serialize, serde::Deserialize)]
pub struct GenParams {
    pub max_entries: usize,
    pub max_file: usize,
    /// sizes of interest (chunk min/avg/max, pack size …)
    pub sizes_of_interest: Vec<usize>,
    pub weird_names: bool,
    pub special: bool,
    pub hardlinks: bool,
    /// contents equal to a serialized tree
    pub tree_colliding: bool,
    pub total_cap: usize,
}

impl Default for GenParams {
    fn default() -> Self {
        Self {
            max_entries: 14,
            max_file: 300_000,
            sizes_of_interest: vec![],
            weird_names: true,
            special: true,
            hardlinks: true,
            tree_colliding: true,
            total_cap: 1_500_000,
        }
    }
}

pub fn gen_name(rng: &mut Rng, weird: bool) -> Vec<u8> {
    // "data.txt" / "data-old" next to "data": byte order and path-component order differ ('.' and '-' sort below '/')
    const PLAIN: [&str; 15] = ["a", "b", "c", "d1", "e.txt", "f.bin", "g", "data", "x.log", "lib", "src", "z", "in.stream", "data.txt", "data-old"];
    if !weird || rng.chance(3, 4) {
        let mut n = PLAIN[rng.usize(PLAIN.len())].as_bytes().to_vec();
        if rng.chance(1, 2) {
            n.extend_from_slice(format!("{}", rng.below(50)).as_bytes());
        }
        return n;
    }
    match rng.usize(8) {
        0 => b"with space".to_vec(),
        1 => b"quote\"back\\slash".to_vec(),
        2 => vec![b'n', 0xff, 0xfe, b'x'],                  // invalid utf-8
        3 => "ünï©ødé-名前".as_bytes().to_vec(),
        4 => b"new\nline\ttab".to_vec(),
        5 => b"-dash".to_vec(),
        6 => vec![0xc3, 0x28, b'a'],                         // invalid 2-byte sequence
        _ => {
            let mut n = rng.bytes_range(1, 12);
            for b in &mut n {
                if *b == b'/' || *b == 0 {
                    *b = b'_';
                }
            }
            if n == b"." || n == b".." {
                n = b"dots".to_vec();
            }
            n
        }
    }
}

/// content classes
pub fn gen_content(rng: &mut Rng, p: &GenParams, budget: usize) -> Vec<u8> {
    let cap = p.max_file.min(budget);
    let size = match rng.weighted(&[2, 2, 3, 4, 3]) {
        0 => 0,
        1 => rng.range(1, 64) as usize,
        2 => rng.range(64, 5000) as usize,
        3 if !p.sizes_of_interest.is_empty() => {
            let s = *rng.pick(&p.sizes_of_interest) as i64;
            let m = *rng.pick(&[1i64, 1, 2, 3]);
            (s * m + rng.range(0, 4) as i64 - 2).max(0) as usize
        }
        _ => rng.range(0, cap.max(1) as u64) as usize,
    }
    .min(cap);
    match rng.weighted(&[3, 6, 2, 2]) {
        0 => vec![0u8; size],
        1 => rng.bytes(size),
        2 => {
            // periodic
            let period = rng.range(1, 700) as usize;
            let pat = rng.bytes(period);
            (0..size).map(|i| pat[i % period]).collect()
        }
        _ => {
            // low entropy text
            let words: [&[u8]; 5] = [b"lorem ", b"ipsum ", b"dolor ", b"sit ", b"amet\n"];
            let mut v = Vec::with_capacity(size + 8);
            while v.len() < size {
                v.extend_from_slice(words[rng.usize(5)]);
            }
            v.truncate(size);
            v
        }
    }
}

pub fn default_entry(rng: &mut Rng, kind: Kind, now_s: i64) -> Entry {
    let mode = match &kind {
        Kind::Dir => *rng.pick(&[0o755, 0o700, 0o775, 0o555 | 0o200, 0o755, 0o2775, 0o1777]),
        Kind::Symlink(_) => 0o777,
        _ => *rng.pick(&[0o644, 0o600, 0o755, 0o444, 0o640, 0o755, 0o644, 0o4755, 0o2755, 0o6711]),
    };
    let m = now_s - rng.range(0, 400 * 86400) as i64;
    let nanos = *rng.pick(&[0, 0, 1, 500_000_000, 999_999_999, 123_456_789]);
    Entry {
        kind,
        mode,
        mtime: (m, nanos),
        ctime: (m + rng.range(0, 1000) as i64, 0),
        uid: *rng.pick(&[0, 1000, 1001, 65534]),
        gid: *rng.pick(&[0, 100, 1000]),
        inode: 0,
        links: 1,
    }
}

pub fn gen_model(rng: &mut Rng, p: &GenParams, now_s: i64) -> FsModel {
    let mut m = FsModel::default();
    let n = rng.range(0, p.max_entries as u64) as usize;
    let mut dirs: Vec<PathKey> = vec![vec![]];
    let mut budget = p.total_cap;
    let mut next_inode = 1000u64;
    for _ in 0..n {
        let parent = if rng.chance(1, 3) { dirs.last().unwrap().clone() } else { rng.pick(&dirs).clone() };
        if parent.len() > 6 {
            continue;
        }
        let mut key = parent.clone();
        key.push(gen_name(rng, p.weird_names));
        if m.entries.contains_key(&key) {
            continue;
        }
        let kind = match rng.weighted(&[10, 5, if p.special { 2 } else { 0 }, if p.special { 1 } else { 0 }]) {
            0 => {
                let c = if p.tree_colliding && rng.chance(1, 12) {
                    b"{\"nodes\":[]}\n".to_vec()
                } else {
                    gen_content(rng, p, budget)
                };
                budget = budget.saturating_sub(c.len());
                Kind::File(Arc::new(c))
            }
            1 => {
                dirs.push(key.clone());
                Kind::Dir
            }
            2 => {
                let t = match rng.usize(5) {
                    0 => b"target".to_vec(),
                    1 => b"../up/and/away".to_vec(),
                    2 => b"/abs/olute".to_vec(),
                    3 => vec![b't', 0xff, 0xfe],
                    _ => gen_name(rng, true),
                };
                Kind::Symlink(t)
            }
            _ => Kind::Fifo,
        };
        let mut e = default_entry(rng, kind, now_s);
        e.inode = next_inode;
        next_inode += 1;
        m.entries.insert(key, e);
    }
    // hard links: a second name for an existing file, same inode, links = 2
    if p.hardlinks && rng.chance(1, 4) {
        let files: Vec<PathKey> = m.files().map(|(k, _)| k.clone()).collect();
        if let Some(k) = files.first() {
            let mut e = m.entries[k].clone();
            e.links = 2;
            let mut k2 = k.clone();
            let last = k2.last_mut().unwrap();
            last.extend_from_slice(b".hl");
            m.entries.insert(k.clone(), e.clone());
            m.entries.insert(k2, e);
        }
    }
    m
}

// ---------------------------------------------------------------------------------------------
// edit scripts

#[derive(Clone, Debug)]
pub struct EditStats {
    pub edits: Vec<String>,
}

/// apply 1..=k random edits; every content change also changes size or mtime (the premise of the
/// parent-based backup)
pub fn edit_model(rng: &mut Rng, m: &mut FsModel, p: &GenParams, now_s: i64, k: usize) -> EditStats {
    let mut stats = EditStats { edits: vec![] };
    let n = rng.range(1, k.max(1) as u64);
    let mut next_inode = 50_000 + rng.below(1_000_000);
    for _ in 0..n {
        // hard-linked names share one inode: leave them alone so the model stays consistent
        let files: Vec<PathKey> = m.entries.iter().filter(|(_, e)| matches!(e.kind, Kind::File(_)) && e.links == 1).map(|(k, _)| k.clone()).collect();
        let choice = rng.weighted(&[4, 3, 2, 2, 1, 1, 1]);
        match choice {
            0 if !files.is_empty() => {
                // modify content inside a file
                let k = rng.pick(&files).clone();
                let e = m.entries.get_mut(&k).unwrap();
                if let Kind::File(b) = &e.kind {
                    let mut v = (**b).clone();
                    let pos = if v.is_empty() { 0 } else { rng.usize(v.len() + 1) };
                    match rng.usize(4) {
                        0 => {
                            let ins = rng.bytes_range(1, 3000);
                            let _ = v.splice(pos..pos, ins);
                            stats.edits.push(format!("insert@{pos} {}", show_key(&k)));
                        }
                        1 if !v.is_empty() => {
                            let end = (pos + rng.range(1, 3000) as usize).min(v.len());
                            let _ = v.drain(pos.min(end)..end);
                            stats.edits.push(format!("delete@{pos} {}", show_key(&k)));
                        }
                        2 if !v.is_empty() => {
                            let end = (pos + rng.range(1, 500) as usize).min(v.len());
                            for b in &mut v[pos.min(end)..end] {
                                *b ^= 0x5a;
                            }
                            stats.edits.push(format!("overwrite@{pos} {}", show_key(&k)));
                        }
                        _ => {
                            let mut pre = rng.bytes_range(1, 2000);
                            pre.extend_from_slice(&v);
                            v = pre;
                            stats.edits.push(format!("prepend {}", show_key(&k)));
                        }
                    }
                    e.kind = Kind::File(Arc::new(v));
                    e.mtime = (now_s, rng.below(1_000_000_000) as i32);
                    e.ctime = e.mtime;
                }
            }
            1 => {
                // add file
                let dirs = m.dirs();
                let mut k = rng.pick(&dirs).clone();
                k.push(gen_name(rng, p.weird_names));
                if !m.entries.contains_key(&k) && k.len() < 8 {
                    let c = gen_content(rng, p, p.max_file);
                    let mut e = default_entry(rng, Kind::File(Arc::new(c)), now_s);
                    e.inode = next_inode;
                    next_inode += 1;
                    e.mtime = (now_s, 0);
                    e.ctime = e.mtime;
                    stats.edits.push(format!("add {}", show_key(&k)));
                    m.entries.insert(k, e);
                }
            }
            2 if !files.is_empty() => {
                let k = rng.pick(&files).clone();
                stats.edits.push(format!("remove {}", show_key(&k)));
                m.entries.remove(&k);
            }
            3 if !files.is_empty() => {
                // rename / move (same content, new name, new inode & ctime)
                let k = rng.pick(&files).clone();
                let dirs = m.dirs();
                let mut k2 = rng.pick(&dirs).clone();
                k2.push(gen_name(rng, p.weird_names));
                if !m.entries.contains_key(&k2) && k2.len() < 8 {
                    let mut e = m.entries.remove(&k).unwrap();
                    e.ctime = (now_s, 0);
                    stats.edits.push(format!("move {} -> {}", show_key(&k), show_key(&k2)));
                    m.entries.insert(k2, e);
                }
            }
            4 if !files.is_empty() => {
                // duplicate a file
                let k = rng.pick(&files).clone();
                let mut k2 = k.clone();
                k2.last_mut().unwrap().extend_from_slice(b".copy");
                if !m.entries.contains_key(&k2) {
                    let mut e = m.entries[&k].clone();
                    e.inode = next_inode;
                    next_inode += 1;
                    e.links = 1;
                    e.mtime = (now_s, 0);
                    e.ctime = e.mtime;
                    stats.edits.push(format!("dup {}", show_key(&k)));
                    m.entries.insert(k2, e);
                }
            }
            5 => {
                // add dir
                let dirs = m.dirs();
                let mut k = rng.pick(&dirs).clone();
                k.push(gen_name(rng, false));
                if !m.entries.contains_key(&k) && k.len() < 7 {
                    let mut e = default_entry(rng, Kind::Dir, now_s);
                    e.inode = next_inode;
                    next_inode += 1;
                    stats.edits.push(format!("mkdir {}", show_key(&k)));
                    m.entries.insert(k, e);
                }
            }
            _ if !files.is_empty() => {
                // touch
                let k = rng.pick(&files).clone();
                let e = m.entries.get_mut(&k).unwrap();
                e.mtime = (now_s, 7);
                e.ctime = e.mtime;
                stats.edits.push(format!("touch {}", show_key(&k)));
            }
            _ => {}
        }
    }
    stats
}

// ---------------------------------------------------------------------------------------------
// SimSource

#[derive(Clone, Debug, Default, serde::Serialize, serde::Deserialize)]
pub struct ReadPlan {
    /// maximum bytes handed out per read call (0 = unlimited); drawn per file from this list
    pub frag: Vec<usize>,
    /// inject ErrorKind::Interrupted before every n-th read (0 = never)
    pub eintr_every: usize,
    /// gate every n-th read call of a file (0 = only open is a gate)
    pub gate_reads_every: usize,
}

#[derive(Default, Debug)]
pub struct SourceLog {
    /// files opened (path), in open order
    pub opened: Vec<PathKey>,
    pub bytes_read: u64,
    pub eintr: u64,
    pub short_reads: u64,
}

pub struct SimSource {
    pub model: FsModel,
    pub sched: Arc<Sched>,
    pub actor: u32,
    pub plan: ReadPlan,
    pub seed: u64,
    pub log: Arc<Mutex<SourceLog>>,
    /// path prefix under which entries are reported (e.g. "/src")
    pub root: PathBuf,
}

impl SimSource {
    pub fn new(model: FsModel, sched: Arc<Sched>, actor: u32, plan: ReadPlan, seed: u64) -> Self {
        Self { model, sched, actor, plan, seed, log: Arc::default(), root: PathBuf::new() }
    }
}

pub fn is_stream(name: &[u8]) -> bool {
    name.ends_with(b".stream")
}

pub fn node_of(name: &[u8], e: &Entry) -> Node {
    let node_type = match &e.kind {
        Kind::File(_) => NodeType::File,
        Kind::Dir => NodeType::Dir,
        Kind::Symlink(t) => NodeType::from_link(std::path::Path::new(OsStr::from_bytes(t))),
        Kind::Fifo => NodeType::Fifo,
    };
    let ts = |t: (i64, i32)| jiff::Timestamp::new(t.0, t.1).ok();
    // files named `*.stream` stand for sources that cannot tell their size in advance (stdin, command
    // output): the node carries size 0 while the content is whatever the reader delivers
    let size = match &e.kind {
        Kind::File(_) if is_stream(name) => 0,
        Kind::File(b) => b.len() as u64,
        _ => 0,
    };
    let meta = Metadata {
        // node modes use Go's io/fs layout (restic compatibility), as LocalSource produces them
        mode: Some(mode_to_go(e.mode, &e.kind)),
        mtime: ts(e.mtime),
        atime: ts(e.mtime),
        ctime: ts(e.ctime),
        uid: Some(e.uid),
        gid: Some(e.gid),
        user: None,
        group: None,
        inode: e.inode,
        device_id: 1,
        size,
        links: if matches!(e.kind, Kind::Dir) { 0 } else { e.links },
        extended_attributes: vec![],
    };
    Node::new_node(OsStr::from_bytes(name), node_type, meta)
}

const GO_MODE_DIR: u32 = 1 << 31;
const GO_MODE_SYMLINK: u32 = 1 << 27;
const GO_MODE_FIFO: u32 = 1 << 25;
const GO_MODE_SETUID: u32 = 1 << 23;
const GO_MODE_SETGID: u32 = 1 << 22;
const GO_MODE_STICKY: u32 = 1 << 20;

/// POSIX permission + special bits and entry kind -> Go io/fs mode (own implementation, the
/// library's mapper is not used here)
pub fn mode_to_go(mode: u32, kind: &Kind) -> u32 {
    let mut g = mode & 0o777;
    g |= match kind {
        Kind::Dir => GO_MODE_DIR,
        Kind::Symlink(_) => GO_MODE_SYMLINK,
        Kind::Fifo => GO_MODE_FIFO,
        Kind::File(_) => 0,
    };
    if mode & 0o4000 != 0 {
        g |= GO_MODE_SETUID;
    }
    if mode & 0o2000 != 0 {
        g |= GO_MODE_SETGID;
    }
    if mode & 0o1000 != 0 {
        g |= GO_MODE_STICKY;
    }
    g
}

/// Go io/fs mode -> POSIX permission + special bits (0o7777)
pub fn perm_from_go(g: u32) -> u32 {
    let mut m = g & 0o777;
    if g & GO_MODE_SETUID != 0 {
        m |= 0o4000;
    }
    if g & GO_MODE_SETGID != 0 {
        m |= 0o2000;
    }
    if g & GO_MODE_STICKY != 0 {
        m |= 0o1000;
    }
    m
}

pub struct SimOpen {
    key: PathKey,
    data: Arc<Vec<u8>>,
    sched: Arc<Sched>,
    actor: u32,
    frag: usize,
    eintr_every: usize,
    gate_reads_every: usize,
    log: Arc<Mutex<SourceLog>>,
}

pub struct SimReader {
    o: SimOpen,
    pos: usize,
    calls: usize,
    pending_eintr: bool,
}

impl ReadSourceOpen for SimOpen {
    type Reader = SimReader;
    fn open(self) -> RusticResult<SimReader> {
        self.sched.gate(GateKey { actor: self.actor, role: Role::Source, desc: format!("open {}", show_key(&self.key)) });
        self.log.lock().unwrap().opened.push(self.key.clone());
        Ok(SimReader { o: self, pos: 0, calls: 0, pending_eintr: true })
    }
}

impl Read for SimReader {
    fn read(&mut self, buf: &mut [u8]) -> std::io::Result<usize> {
        self.calls += 1;
        // at most 6 read gates per file, so that 1-byte fragmentation does not explode the schedule
        if self.o.gate_reads_every > 0 && self.calls % self.o.gate_reads_every == 0 && self.calls / self.o.gate_reads_every <= 6 {
            self.o.sched.gate(GateKey {
                actor: self.o.actor,
                role: Role::Source,
                desc: format!("read#{} {}", self.calls, show_key(&self.o.key)),
            });
        }
        if self.o.eintr_every > 0 && self.calls % self.o.eintr_every == 0 && self.pending_eintr {
            self.pending_eintr = false;
            self.o.log.lock().unwrap().eintr += 1;
            return Err(std::io::Error::new(std::io::ErrorKind::Interrupted, "simulated EINTR"));
        }
        self.pending_eintr = true;
        let rest = &self.o.data[self.pos..];
        let mut n = rest.len().min(buf.len());
        if self.o.frag > 0 && n > self.o.frag {
            n = self.o.frag;
            self.o.log.lock().unwrap().short_reads += 1;
        }
        buf[..n].copy_from_slice(&rest[..n]);
        self.pos += n;
        self.o.log.lock().unwrap().bytes_read += n as u64;
        Ok(n)
    }
}

impl ReadSource for SimSource {
    type Open = SimOpen;
    type Iter = std::vec::IntoIter<RusticResult<ReadSourceEntry<SimOpen>>>;

    fn size(&self) -> RusticResult<Option<u64>> {
        Ok(Some(self.model.total_bytes() as u64))
    }

    fn entries(&self) -> Self::Iter {
        let mut v = Vec::new();
        for (i, (key, e)) in self.model.entries.iter().enumerate() {
            let name = key.last().unwrap();
            let node = node_of(name, e);
            let open = match &e.kind {
                Kind::File(b) => {
                    let frag = if self.plan.frag.is_empty() {
                        0
                    } else {
                        self.plan.frag[(crate::rng::hash64(&[&self.seed.to_le_bytes(), &(i as u64).to_le_bytes()]) as usize) % self.plan.frag.len()]
                    };
                    Some(SimOpen {
                        key: key.clone(),
                        data: b.clone(),
                        sched: self.sched.clone(),
                        actor: self.actor,
                        frag,
                        eintr_every: self.plan.eintr_every,
                        gate_reads_every: self.plan.gate_reads_every,
                        log: self.log.clone(),
                    })
                }
                _ => None,
            };
            v.push(Ok(ReadSourceEntry { path: self.root.join(path_of(key)), node, open }));
        }
        v.into_iter()
    }
}

#[allow(dead_code)]
pub fn source_err(msg: &str) -> Box<RusticError> {
    RusticError::new(ErrorKind::InputOutput, format!("simulated source error: {msg}"))
}
