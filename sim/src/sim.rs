//! Sim: a persistent simulated world (store, key, config, clock, known snapshots) and the
//! operations histories are made of. Every operation opens its own repository handle inside the
//! command thread, like separate invocations of a CLI would.

use std::collections::BTreeMap;
use std::sync::Arc;

use rustic_core::repofile::{SnapshotFile, SnapshotId};
use rustic_core::{BackupOptions, CheckOptions, PruneOptions, RusticResult};

use crate::audit::id_hex;
use crate::common::{self, classify, etext, short_loc};
use crate::harness::Report;
use crate::model::{FsModel, ReadPlan};
use crate::readback::{ReadBack, ReadBackOpts, read_back, read_complete};
use crate::store::Files;
use crate::rng::Rng;
use crate::sched::{ClockSteps, CpuPlan, Mode, Outcome, Policy, Sched, Stop, run_cmd};
use crate::store::SimStore;
use crate::world::{KeyMat, RepoCfg, backup_model, repo_init, repo_open};

/// open a repository handle on a (cold, optional hot) store pair
pub fn open_on(store: &Arc<SimStore>, hot: &Option<Arc<SimStore>>, actor: u32, key: &KeyMat) -> RusticResult<crate::world::RepoOpen> {
    crate::world::repo_on(store.handle(actor), hot.as_ref().map(|h| h.handle(actor)), None)?.open(&key.creds())
}

#[derive(Debug)]
pub enum Cmd<T> {
    Ok(T),
    /// the command returned an error (display_log text)
    Err(String),
    /// the command (or one of its threads) panicked: message @ location
    Panic(String),
    NoProgress,
    Harness(String),
}

impl<T> Cmd<T> {
    pub fn map_unit(self) -> Cmd<()> {
        match self {
            Cmd::Ok(_) => Cmd::Ok(()),
            Cmd::Err(e) => Cmd::Err(e),
            Cmd::Panic(p) => Cmd::Panic(p),
            Cmd::NoProgress => Cmd::NoProgress,
            Cmd::Harness(h) => Cmd::Harness(h),
        }
    }
    pub fn is_ok(&self) -> bool {
        matches!(self, Cmd::Ok(_))
    }
    pub fn class(&self) -> String {
        match self {
            Cmd::Ok(_) => "ok".into(),
            Cmd::Err(e) => format!("err:{}", classify(e)),
            Cmd::Panic(p) => format!("panic:{}", classify(&short_loc(p))),
            Cmd::NoProgress => "no-progress".into(),
            Cmd::Harness(h) => format!("harness:{h}"),
        }
    }
    pub fn detail(&self) -> String {
        match self {
            Cmd::Ok(_) => "ok".into(),
            Cmd::Err(e) => e.clone(),
            Cmd::Panic(p) => format!("panic: {p}"),
            Cmd::NoProgress => "command made no progress (deadlock or hang)".into(),
            Cmd::Harness(h) => h.clone(),
        }
    }
}

#[derive(Default, Debug)]
pub struct StateProbe {
    pub open_err: Option<String>,
    pub index_err: Option<String>,
    pub list_err: Option<String>,
    pub check_ran: bool,
    pub check_errors: Vec<String>,
    /// listed snapshot id -> (tree id, time)
    pub listed: BTreeMap<String, (String, i64)>,
    pub readback: BTreeMap<String, ReadBack>,
    /// what the snapshot string "latest" resolves to: Ok((snapshot id, tree id)) or the error text
    pub latest: Option<Result<(String, String), String>>,
    pub panic: Option<String>,
}

#[derive(Clone)]
pub struct SnapRec {
    pub snap: SnapshotFile,
    pub model: FsModel,
}

pub struct Sim {
    pub sched: Arc<Sched>,
    pub store: Arc<SimStore>,
    /// the hot store of a hot/cold pair (`store` is then the cold one)
    pub hot: Option<Arc<SimStore>>,
    pub key: KeyMat,
    pub cfg: RepoCfg,
    pub cpus: CpuPlan,
    pub rng: Rng,
    pub seed: u64,
    /// snapshots created by the simulator (hex id -> record); entries are removed by `forget`
    pub snaps: BTreeMap<String, SnapRec>,
    pub trace: Vec<(String, i64)>,
    pub gates: u64,
    pub sim_ns: i64,
    pub policies: BTreeMap<String, u64>,
    /// panics of detached library threads while the command itself returned normally
    pub bg_panics: Vec<String>,
    /// treat such background panics as a panic of the command (right for fault-free scenarios)
    pub strict_bg_panics: bool,
}

impl Sim {
    pub fn new(seed: u64, cfg: RepoCfg, cpus: &CpuPlan, name: &str) -> Self {
        let sched = Sched::new();
        let store = SimStore::new(name, sched.clone());
        Self {
            sched,
            store,
            hot: None,
            key: KeyMat::from_seed(seed),
            cfg,
            cpus: cpus.clone(),
            rng: Rng::new(seed ^ 0x5157),
            seed,
            snaps: BTreeMap::new(),
            trace: vec![],
            gates: 0,
            sim_ns: 0,
            policies: BTreeMap::new(),
            bg_panics: vec![],
            strict_bg_panics: true,
        }
    }

    /// a scheduled mode with a freshly drawn policy
    pub fn draw_mode(&mut self, scheduled: bool, actors: &[u32], jumps: bool) -> Mode {
        if scheduled {
            Mode::Sched { policy: Policy::draw(&mut self.rng, actors), clock: ClockSteps { jumps }, step_cap: 8000 }
        } else {
            Mode::Free
        }
    }

    /// run a command closure; panics anywhere in the process during the command are attributed to it
    pub fn run<T: Send + 'static>(&mut self, mode: &Mode, f: impl FnOnce() -> RusticResult<T> + Send + 'static) -> Cmd<T> {
        let _ = common::take_panics();
        let out: Outcome<RusticResult<T>> = run_cmd(&self.sched, mode, &mut self.rng, &self.cpus, f);
        *self.policies.entry(out.policy.to_string()).or_insert(0) += 1;
        self.gates += out.trace.len() as u64;
        self.sim_ns += out.sim_ns;
        self.trace.extend(out.trace.iter().cloned());
        let panics = common::take_panics();
        match (out.stop, out.result) {
            (_, Some(Err(p))) => Cmd::Panic(panics.first().cloned().unwrap_or(p)),
            (Stop::Done, Some(Ok(Ok(v)))) => {
                if let Some(p) = panics.first() {
                    // a detached library thread panicked although the command returned Ok
                    self.bg_panics.extend(panics.iter().cloned());
                    if self.strict_bg_panics { Cmd::Panic(p.clone()) } else { Cmd::Ok(v) }
                } else {
                    Cmd::Ok(v)
                }
            }
            (Stop::Done, Some(Ok(Err(e)))) => {
                self.bg_panics.extend(panics.iter().cloned());
                Cmd::Err(etext(&e))
            }
            (Stop::NoProgress, r) => {
                if let Some(p) = panics.first() {
                    Cmd::Panic(p.clone())
                } else if let Some(Ok(Err(e))) = r {
                    Cmd::Err(etext(&e))
                } else {
                    Cmd::NoProgress
                }
            }
            (stop, _) => Cmd::Harness(format!("scheduler stopped with {stop:?}")),
        }
    }

    pub fn init(&mut self) -> Cmd<()> {
        let (store, hot, key, cfg) = (self.store.clone(), self.hot.clone(), self.key.clone(), self.cfg.clone());
        self.run(&Mode::Free, move || {
            let repo = crate::world::repo_on(store.handle(1), hot.as_ref().map(|h| h.handle(1)), None)?;
            if hot.is_some() { crate::world::repo_init_hotcold(repo, &key, &cfg).map(|_| ()) } else { crate::world::repo_init_on(repo, &key, &cfg).map(|_| ()) }
        })
    }

    /// back up `model`; on success the snapshot is recorded in `self.snaps`
    pub fn backup(&mut self, mode: &Mode, model: &FsModel, actor: u32, opts: &BackupOptions, plan: &ReadPlan, label: &str) -> Cmd<SnapshotFile> {
        let (store, hot, key, sched, model2, plan2, opts2, seed, label2) =
            (self.store.clone(), self.hot.clone(), self.key.clone(), self.sched.clone(), model.clone(), plan.clone(), opts.clone(), self.seed, label.to_string());
        let r = self.run(mode, move || {
            let repo = open_on(&store, &hot, actor, &key)?.to_indexed_ids()?;
            backup_model(&repo, &model2, &sched, actor, &plan2, seed, &opts2, &label2).map(|b| b.snap)
        });
        if let Cmd::Ok(snap) = &r {
            if !snap.id.is_null() {
                let _ = self.snaps.insert(id_hex(&snap.id), SnapRec { snap: snap.clone(), model: model.clone() });
            }
        }
        r
    }

    pub fn forget(&mut self, mode: &Mode, actor: u32, ids: &[String]) -> Cmd<()> {
        let (store, hot, key) = (self.store.clone(), self.hot.clone(), self.key.clone());
        let sids: Vec<SnapshotId> = ids.iter().map(|h| h.parse::<rustic_core::Id>().expect("hex").into()).collect();
        let r = self.run(mode, move || {
            let repo = open_on(&store, &hot, actor, &key)?;
            repo.delete_snapshots(&sids)
        });
        if r.is_ok() {
            for h in ids {
                let _ = self.snaps.remove(h);
            }
        }
        r
    }

    pub fn prune(&mut self, mode: &Mode, actor: u32, opts: &PruneOptions) -> Cmd<()> {
        let (store, hot, key, opts2) = (self.store.clone(), self.hot.clone(), self.key.clone(), opts.clone());
        self.run(mode, move || {
            let repo = open_on(&store, &hot, actor, &key)?;
            let plan = repo.prune_plan(&opts2)?;
            repo.prune(&opts2, plan)
        })
    }

    /// Oracle: through a fresh handle (all gates open) every recorded snapshot that is still listed
    /// must read back equal to its model, and check(read_data) must be clean. Findings are
    /// (fingerprint suffix, detail).
    pub fn verify(&mut self, read_data: bool) -> Vec<(String, String)> {
        // the oracle reads through non-cold copies of the stores (its reads need no warm-up)
        let store = SimStore::from_files("verify", Sched::new(), self.store.files());
        let hot = self.hot.as_ref().map(|h| SimStore::from_files("verify-hot", Sched::new(), h.files()));
        let key = self.key.clone();
        let snaps: Vec<SnapRec> = self.snaps.values().cloned().collect();
        let mut rng = self.rng.fork("verify");
        let r = self.run(&Mode::Free, move || {
            let mut findings: Vec<(String, String)> = vec![];
            let repo = match open_on(&store, &hot, 90, &key).and_then(|r| r.to_indexed()) {
                Ok(r) => r,
                Err(e) => {
                    findings.push((format!("reopen-failed:{}", classify(&etext(&e))), etext(&e)));
                    return Ok(findings);
                }
            };
            let listed: Vec<String> = match repo.get_all_snapshots() {
                Ok(v) => v.iter().map(|s| id_hex(&s.id)).collect(),
                Err(e) => {
                    findings.push((format!("listing-snapshots-failed:{}", classify(&etext(&e))), etext(&e)));
                    return Ok(findings);
                }
            };
            for rec in &snaps {
                let h = id_hex(&rec.snap.id);
                if !listed.contains(&h) {
                    findings.push(("snapshot-vanished".into(), format!("snapshot {h} is no longer listed")));
                    continue;
                }
                match read_back(&repo, &rec.snap, &rec.model, &ReadBackOpts::default(), &mut rng) {
                    ReadBack::Equal => {}
                    rb => findings.push((format!("readback:{}", classify(&rb.short())), format!("snapshot {h}: {}", rb.short()))),
                }
            }
            match repo.check(CheckOptions::default().read_data(read_data)) {
                Ok(res) => {
                    let errs = common::check_errors(&res);
                    if std::env::var("VERIF_VERBOSE").is_ok() {
                        for (l, e) in &res.0 {
                            eprintln!("check: {l:?}: {e}");
                        }
                    }
                    if let Some(first) = errs.first() {
                        findings.push((format!("check-reports-error:{}", classify(first)), format!("check reports {} error(s): {}", errs.len(), errs.join(" | "))));
                    }
                }
                Err(e) => findings.push((format!("check-failed:{}", classify(&etext(&e))), etext(&e))),
            }
            Ok(findings)
        });
        match r {
            Cmd::Ok(f) => f,
            other => vec![(format!("verify-{}", other.class()), other.detail())],
        }
    }

    /// A Sim on a copy of the given file state: same key, config, known snapshots and rng state,
    /// but its own store, scheduler and op log.
    pub fn fork(&self, files: Files, name: &str) -> Self {
        let sched = Sched::new();
        let store = SimStore::from_files(name, sched.clone(), files);
        Self {
            sched,
            store,
            hot: None,
            key: self.key.clone(),
            cfg: self.cfg.clone(),
            cpus: self.cpus.clone(),
            rng: self.rng.clone(),
            seed: self.seed,
            snaps: self.snaps.clone(),
            trace: vec![],
            gates: 0,
            sim_ns: 0,
            policies: BTreeMap::new(),
            bg_panics: vec![],
            strict_bg_panics: self.strict_bg_panics,
        }
    }

    /// Crash/fault oracle on an arbitrary file state: a fresh handle must open and load the
    /// index; every listed snapshot must read completely; snapshots with a known model must
    /// equal it; known snapshots may be missing only if listed in `may_vanish`.
    pub fn state_oracle(&mut self, files: Files, expected: &BTreeMap<String, FsModel>, may_vanish: &[String], ignore: &[String]) -> Vec<(String, String)> {
        let key = self.key.clone();
        let sched = Sched::new();
        let store = SimStore::from_files("oracle", sched, files);
        let expected = expected.clone();
        let may_vanish = may_vanish.to_vec();
        let ignore = ignore.to_vec();
        let mut rng = self.rng.fork("oracle");
        let r = self.run(&Mode::Free, move || {
            let mut findings: Vec<(String, String)> = vec![];
            let repo = match repo_open(&store, 92, &key).and_then(|r| r.to_indexed()) {
                Ok(r) => r,
                Err(e) => {
                    findings.push(("cannot-open-or-load-index".to_string(), etext(&e)));
                    return Ok(findings);
                }
            };
            let snaps = match repo.get_all_snapshots() {
                Ok(v) => v,
                Err(e) => {
                    findings.push((format!("listing-snapshots-failed:{}", classify(&etext(&e))), etext(&e)));
                    return Ok(findings);
                }
            };
            let listed: Vec<String> = snaps.iter().map(|s| id_hex(&s.id)).collect();
            for h in expected.keys() {
                if !listed.contains(h) && !may_vanish.contains(h) {
                    findings.push(("snapshot-vanished".into(), format!("snapshot {h} existed before and is no longer listed")));
                }
            }
            for snap in &snaps {
                let h = id_hex(&snap.id);
                if ignore.contains(&h) {
                    continue;
                }
                if let Some(model) = expected.get(&h) {
                    match read_back(&repo, snap, model, &ReadBackOpts { ranged: 1, ..ReadBackOpts::default() }, &mut rng) {
                        ReadBack::Equal => {}
                        rb @ ReadBack::Err(..) => findings.push(("old-snapshot-unreadable".to_string(), format!("snapshot {h}: {}", rb.short()))),
                        rb => findings.push(("old-snapshot-differs-from-model".to_string(), format!("snapshot {h}: {}", rb.short()))),
                    }
                } else if let Err((w, e)) = read_complete(&repo, snap) {
                    findings.push(("new-snapshot-unreadable".to_string(), format!("snapshot {h}: {w}: {e}")));
                }
            }
            Ok(findings)
        });
        match r {
            Cmd::Ok(f) => f,
            other => vec![(format!("oracle-{}", other.class()), other.detail())],
        }
    }

    /// ids of listed snapshots that cannot be read completely in the given state
    pub fn unreadable_snapshots(&mut self, files: Files) -> Vec<String> {
        let key = self.key.clone();
        let store = SimStore::from_files("probe", Sched::new(), files);
        let r = self.run(&Mode::Free, move || {
            let repo = repo_open(&store, 93, &key)?;
            let ids: Vec<String> = repo.get_all_snapshots()?.iter().map(|s| id_hex(&s.id)).collect();
            let Ok(repo) = repo.to_indexed() else { return Ok(ids) };
            let snaps = repo.get_all_snapshots()?;
            Ok(snaps.iter().filter(|s| read_complete(&repo, s).is_err()).map(|s| id_hex(&s.id)).collect::<Vec<_>>())
        });
        match r {
            Cmd::Ok(v) => v,
            _ => vec![],
        }
    }

    /// A short fault-free history (free-running): backups of an evolving source, stale-index
    /// double backups (duplicate blobs), forgets and non-instant prunes (marked packs). Leaves at
    /// least two snapshots. Returns a description of the ops or the first failure.
    pub fn build_history(&mut self, rng: &mut Rng, gen: &crate::model::GenParams, model: &mut FsModel, steps: usize) -> Result<Vec<String>, (String, String)> {
        use crate::model::{ReadPlan, edit_model};
        let plan = ReadPlan { frag: vec![0, 4097], eintr_every: 0, gate_reads_every: 0 };
        let mut hist = vec![];
        for i in 0..steps {
            let choice = if i < 2 { 0 } else { rng.weighted(&[5, 2, 3, 2]) };
            match choice {
                0 => {
                    let now = crate::interpose::clock_now() / 1_000_000_000;
                    let _ = edit_model(rng, model, gen, now, 3);
                    match self.backup(&Mode::Free, &model.clone(), 1, &BackupOptions::default(), &plan, "hist") {
                        Cmd::Ok(_) => hist.push("backup".to_string()),
                        r => return Err((format!("history-backup-{}", r.class()), r.detail())),
                    }
                }
                1 => {
                    let now = crate::interpose::clock_now() / 1_000_000_000;
                    let ma = model.clone();
                    let _ = edit_model(rng, model, gen, now, 2);
                    let mb = model.clone();
                    let (store, key, sched, seed, plan2, ma2, mb2) = (self.store.clone(), self.key.clone(), self.sched.clone(), self.seed, plan.clone(), ma.clone(), mb.clone());
                    let r = self.run(&Mode::Free, move || {
                        let a = repo_open(&store, 1, &key)?.to_indexed_ids()?;
                        let b = repo_open(&store, 2, &key)?.to_indexed_ids()?;
                        let force = BackupOptions::default().parent_opts(rustic_core::ParentOptions::default().force(true));
                        let sa = backup_model(&a, &ma2, &sched, 1, &plan2, seed, &force, "hista")?.snap;
                        let sb = backup_model(&b, &mb2, &sched, 2, &plan2, seed, &force, "histb")?.snap;
                        Ok((sa, sb))
                    });
                    match r {
                        Cmd::Ok((sa, sb)) => {
                            let _ = self.snaps.insert(id_hex(&sa.id), SnapRec { snap: sa, model: ma });
                            let _ = self.snaps.insert(id_hex(&sb.id), SnapRec { snap: sb, model: mb });
                            hist.push("two stale-index backups".to_string());
                        }
                        r => return Err((format!("history-stale-backups-{}", r.class()), r.detail())),
                    }
                }
                2 => {
                    let ids: Vec<String> = self.snaps.keys().cloned().collect();
                    if ids.len() > 2 {
                        let victim = ids[rng.usize(ids.len())].clone();
                        match self.forget(&Mode::Free, 1, &[victim]) {
                            Cmd::Ok(()) => hist.push("forget 1".to_string()),
                            r => return Err((format!("history-forget-{}", r.class()), r.detail())),
                        }
                    }
                }
                _ => {
                    let o = PruneOptions::default()
                        .max_unused(rustic_core::LimitOption::Percentage(*rng.pick(&[0u64, 50])))
                        .max_repack(rustic_core::LimitOption::Unlimited)
                        .keep_delete(jiff::Span::new().hours(*rng.pick(&[0i64, 1])));
                    match self.prune(&Mode::Free, 1, &o) {
                        Cmd::Ok(()) => hist.push("prune (non-instant)".to_string()),
                        r => return Err((format!("history-prune-{}", r.class()), r.detail())),
                    }
                }
            }
            crate::interpose::clock_advance(61_000_000_000);
        }
        Ok(hist)
    }

    /// Everything a user can observe about a file state through fresh handles: can it be opened
    /// and indexed, which snapshots are listed (id -> tree id), how each known snapshot reads back,
    /// and what check(read_data) says. Panics are caught and reported.
    pub fn probe_state(&mut self, files: Files, expected: &BTreeMap<String, FsModel>) -> StateProbe {
        let key = self.key.clone();
        let store = SimStore::from_files("probe", Sched::new(), files);
        let expected = expected.clone();
        let mut rng = self.rng.fork("probe");
        let r = self.run(&Mode::Free, move || {
            let mut p = StateProbe::default();
            let repo = match repo_open(&store, 94, &key) {
                Ok(r) => r,
                Err(e) => {
                    p.open_err = Some(etext(&e));
                    return Ok(p);
                }
            };
            match repo.check(CheckOptions::default().read_data(true)) {
                Ok(res) => p.check_errors = common::check_errors(&res),
                Err(e) => p.check_errors = vec![format!("check failed: {}", etext(&e))],
            }
            p.check_ran = true;
            let snaps = match repo.get_all_snapshots() {
                Ok(v) => v,
                Err(e) => {
                    p.list_err = Some(etext(&e));
                    vec![]
                }
            };
            for sn in &snaps {
                let _ = p.listed.insert(id_hex(&sn.id), (id_hex(&sn.tree), sn.time.timestamp().as_second()));
            }
            p.latest = Some(repo.get_snapshot_from_str("latest", |_| true).map(|sn| (id_hex(&sn.id), id_hex(&sn.tree))).map_err(|e| etext(&e)));
            match repo.to_indexed() {
                Err(e) => p.index_err = Some(etext(&e)),
                Ok(repo) => {
                    for sn in &snaps {
                        let h = id_hex(&sn.id);
                        if let Some(m) = expected.get(&h) {
                            let rb = read_back(&repo, sn, m, &ReadBackOpts { ranged: 1, ..ReadBackOpts::default() }, &mut rng);
                            let _ = p.readback.insert(h, rb);
                        }
                    }
                }
            }
            Ok(p)
        });
        match r {
            Cmd::Ok(p) => p,
            Cmd::Panic(pn) => StateProbe { panic: Some(pn), ..StateProbe::default() },
            other => StateProbe { panic: Some(format!("probe did not complete: {}", other.detail())), ..StateProbe::default() },
        }
    }

    pub fn finish_report(&mut self, rep: &mut Report) {
        rep.gates += self.gates;
        rep.sim_ns += self.sim_ns;
        for (k, v) in &self.policies {
            *rep.policies.entry(k.clone()).or_insert(0) += v;
        }
        for (k, v) in self.store.fired() {
            *rep.fired.entry(k.to_string()).or_insert(0) += v;
        }
        rep.trace_hash = crate::harness::trace_hash(&self.trace);
        common::probes_into(&mut rep.probes);
        if common::KNOB_READ.load(std::sync::atomic::Ordering::SeqCst) != 0 {
            rep.fired.entry("knob:pack_read_coalescing_limits_small".to_string()).or_insert(1);
        }
        if common::KNOB_INDEXER.load(std::sync::atomic::Ordering::SeqCst) != 0 {
            rep.fired.entry("knob:indexer_flushes_after_few_blobs".to_string()).or_insert(1);
        }
    }
}
