//! libc symbol interposition: the simulated wall clock and deterministic OS randomness.
//!
//! The binary exports `clock_gettime` and `getrandom`; the dynamic linker resolves libc-internal
//! and Rust-std callers to these definitions (the binary is linked with -rdynamic so that
//! `dlsym`-based weak lookups in std find them too).
//!
//! * `CLOCK_REALTIME` returns the simulated clock while it is enabled; all other clocks
//!   (monotonic, cpu time) are passed to the kernel.
//! * `getrandom` returns a PRF of (seed, per-thread call counter) while deterministic mode is
//!   enabled, otherwise it is passed to the kernel.

use std::cell::Cell;
use std::sync::atomic::{AtomicBool, AtomicI64, AtomicU64, Ordering};

static CLOCK_ON: AtomicBool = AtomicBool::new(false);
static CLOCK_NS: AtomicI64 = AtomicI64::new(0);
static RAND_ON: AtomicBool = AtomicBool::new(false);
/// number of CPUs reported by sched_getaffinity (0 = pass through): decides the pool sizes of
/// pariter and rayon independently of where the threads really run
static FAKE_CPUS: AtomicU64 = AtomicU64::new(0);
/// shift CLOCK_MONOTONIC far into the future: absolute futex deadlines computed from it never
/// expire, which turns pariter's 100 µs polling loops into plain blocking waits
static MONO_SHIFT: AtomicBool = AtomicBool::new(false);
const MONO_SHIFT_S: i64 = 10 * 365 * 86400;
static RAND_SEED: AtomicU64 = AtomicU64::new(0);

thread_local! {
    static RAND_CTR: Cell<u64> = const { Cell::new(0) };
}

/// enable the simulated clock and set it (nanoseconds since the epoch)
pub fn clock_set(ns: i64) {
    CLOCK_NS.store(ns, Ordering::SeqCst);
    CLOCK_ON.store(true, Ordering::SeqCst);
}
pub fn clock_advance(ns: i64) -> i64 {
    CLOCK_NS.fetch_add(ns, Ordering::SeqCst) + ns
}
pub fn clock_now() -> i64 {
    CLOCK_NS.load(Ordering::SeqCst)
}
pub fn clock_off() {
    CLOCK_ON.store(false, Ordering::SeqCst);
}

pub fn fake_cpus(n: usize) {
    FAKE_CPUS.store(n as u64, Ordering::SeqCst);
}
pub fn mono_shift(on: bool) {
    MONO_SHIFT.store(on, Ordering::SeqCst);
}
/// the real monotonic clock in ns (not affected by the shift)
pub fn real_mono_ns() -> u64 {
    let mut ts = libc::timespec { tv_sec: 0, tv_nsec: 0 };
    unsafe {
        libc::syscall(libc::SYS_clock_gettime, libc::CLOCK_MONOTONIC as libc::c_long, &mut ts as *mut libc::timespec);
    }
    ts.tv_sec as u64 * 1_000_000_000 + ts.tv_nsec as u64
}

pub fn rand_deterministic(seed: u64) {
    RAND_SEED.store(seed, Ordering::SeqCst);
    RAND_ON.store(true, Ordering::SeqCst);
}
pub fn rand_real() {
    RAND_ON.store(false, Ordering::SeqCst);
}

#[unsafe(no_mangle)]
pub unsafe extern "C" fn clock_gettime(clk: libc::clockid_t, ts: *mut libc::timespec) -> libc::c_int {
    if clk == libc::CLOCK_REALTIME && CLOCK_ON.load(Ordering::Relaxed) {
        let ns = CLOCK_NS.load(Ordering::SeqCst);
        unsafe {
            (*ts).tv_sec = ns.div_euclid(1_000_000_000);
            (*ts).tv_nsec = ns.rem_euclid(1_000_000_000);
        }
        return 0;
    }
    let r = unsafe { libc::syscall(libc::SYS_clock_gettime, clk as libc::c_long, ts) as libc::c_int };
    if r == 0 && (clk == libc::CLOCK_MONOTONIC || clk == libc::CLOCK_BOOTTIME) && MONO_SHIFT.load(Ordering::Relaxed) {
        unsafe {
            (*ts).tv_sec += MONO_SHIFT_S;
        }
    }
    r
}

#[unsafe(no_mangle)]
pub unsafe extern "C" fn sched_getaffinity(pid: libc::pid_t, cpusetsize: libc::size_t, mask: *mut libc::cpu_set_t) -> libc::c_int {
    let k = FAKE_CPUS.load(Ordering::Relaxed) as usize;
    if k > 0 && pid == 0 && cpusetsize >= std::mem::size_of::<libc::cpu_set_t>() {
        unsafe {
            std::ptr::write_bytes(mask.cast::<u8>(), 0, cpusetsize);
            for c in 0..k {
                libc::CPU_SET(c, &mut *mask);
            }
        }
        return 0;
    }
    let r = unsafe { libc::syscall(libc::SYS_sched_getaffinity, pid as libc::c_long, cpusetsize, mask) };
    if r < 0 { -1 } else { 0 }
}

fn mix(mut z: u64) -> u64 {
    z = (z ^ (z >> 30)).wrapping_mul(0xBF58_476D_1CE4_E5B9);
    z = (z ^ (z >> 27)).wrapping_mul(0x94D0_49BB_1331_11EB);
    z ^ (z >> 31)
}

#[unsafe(no_mangle)]
pub unsafe extern "C" fn getrandom(
    buf: *mut libc::c_void,
    buflen: libc::size_t,
    flags: libc::c_uint,
) -> libc::ssize_t {
    if RAND_ON.load(Ordering::Relaxed) {
        let seed = RAND_SEED.load(Ordering::Relaxed);
        let ctr = RAND_CTR.with(|c| {
            let v = c.get();
            c.set(v + 1);
            v
        });
        let out = buf.cast::<u8>();
        let mut i = 0usize;
        let mut block = 0u64;
        while i < buflen {
            let word = mix(seed ^ mix(ctr.wrapping_mul(0x9E37_79B9_7F4A_7C15) ^ mix(block.wrapping_add(0x1234_5678_9ABC_DEF1))));
            let bytes = word.to_le_bytes();
            let mut j = 0;
            while j < 8 && i < buflen {
                unsafe { *out.add(i) = bytes[j] };
                i += 1;
                j += 1;
            }
            block += 1;
        }
        return buflen as libc::ssize_t;
    }
    unsafe { libc::syscall(libc::SYS_getrandom, buf, buflen, flags) as libc::ssize_t }
}
