//! C02 Forget and prune never lose data still referenced by a snapshot.

use std::collections::BTreeMap;

use bytesize::ByteSize;
use rustic_core::{BackupOptions, FileType, LimitOption, PruneOptions};
use serde::{Deserialize, Serialize};
use serde_json::{Value, json};

use crate::audit::{StoreView, encode_file, hash_id, id_hex};
use crate::common;
use crate::harness::{Env, Prop, Report, Tier};
use crate::interpose;
use crate::model::{FsModel, GenParams, ReadPlan, edit_model};
use crate::props::c01::build_model_min;
use crate::rng::{Rng, hash64};
use crate::sched::Mode;
use crate::sim::{Cmd, Sim, SnapRec};
use crate::store::{Fault, files_digest};
use crate::world::{RepoCfg, backup_model, repo_open};

pub struct C02;

#[derive(Clone, Debug, Serialize, Deserialize, PartialEq)]
pub enum Limit {
    Pct(u64),
    Size(u64),
    Unlimited,
}

impl Limit {
    fn to_opt(&self) -> LimitOption {
        match self {
            Limit::Pct(p) => LimitOption::Percentage(*p),
            Limit::Size(s) => LimitOption::Size(ByteSize::b(*s)),
            Limit::Unlimited => LimitOption::Unlimited,
        }
    }
    fn gen(rng: &mut Rng) -> Self {
        match rng.usize(7) {
            0 => Limit::Pct(0),
            1 => Limit::Pct(5),
            2 => Limit::Pct(50),
            3 => Limit::Pct(100),
            4 => Limit::Size(0),
            5 => Limit::Size(*rng.pick(&[1u64, 5000, 100_000])),
            _ => Limit::Unlimited,
        }
    }
}

#[derive(Clone, Debug, Serialize, Deserialize)]
pub struct PruneSpec {
    pub max_unused: Limit,
    pub max_repack: Limit,
    pub keep_pack_s: i64,
    pub keep_delete_s: i64,
    pub instant_delete: bool,
    pub fast_repack: bool,
    pub repack_all: bool,
    pub repack_uncompressed: bool,
    pub no_resize: bool,
    pub repack_cacheable_only: Option<bool>,
}

impl PruneSpec {
    pub fn gen(rng: &mut Rng, v2: bool) -> Self {
        Self {
            max_unused: Limit::gen(rng),
            max_repack: if rng.chance(1, 2) { Limit::Unlimited } else { Limit::gen(rng) },
            keep_pack_s: *rng.pick(&[0i64, 0, 0, 60, 3600]),
            keep_delete_s: *rng.pick(&[0i64, 0, 60, 3600, 23 * 3600, -60]),
            instant_delete: rng.chance(1, 3),
            fast_repack: rng.chance(1, 3),
            repack_all: rng.chance(1, 5),
            repack_uncompressed: v2 && rng.chance(1, 5),
            no_resize: rng.chance(1, 4),
            repack_cacheable_only: *rng.pick(&[None, None, Some(true), Some(false)]),
        }
    }
    pub fn to_opts(&self) -> PruneOptions {
        let span = |s: i64| jiff::Span::new().seconds(s);
        let mut o = PruneOptions::default()
            .max_unused(self.max_unused.to_opt())
            .max_repack(self.max_repack.to_opt())
            .keep_pack(span(self.keep_pack_s))
            .keep_delete(span(self.keep_delete_s))
            .instant_delete(self.instant_delete)
            .fast_repack(self.fast_repack)
            .repack_all(self.repack_all)
            .repack_uncompressed(self.repack_uncompressed)
            .no_resize(self.no_resize);
        o.repack_cacheable_only = self.repack_cacheable_only;
        o
    }
}

#[derive(Clone, Debug, Serialize, Deserialize)]
pub enum OpSpec {
    Backup { edit_seed: u64, scheduled: bool },
    /// two handles that loaded the index before either wrote: overlapping data stored twice
    StaleBackups { edit_seed: u64 },
    /// a backup that crashes after `k` mutation ops: unreferenced packs stay behind
    CrashedBackup { edit_seed: u64, k: usize },
    /// write an extra index file repeating one pack's entry
    DupIndexEntry { pick: u64 },
    Forget { pick: u64 },
    Prune { spec: PruneSpec, scheduled: bool },
    Advance { secs: i64 },
    /// put a forgotten snapshot's file back (the serial form of a late-finishing backup), prune, read back
    Resurrect { spec: PruneSpec },
}

#[derive(Clone, Debug, Serialize, Deserialize)]
pub struct Spec {
    pub pool: usize,
    pub subseed: u64,
    pub cfg: RepoCfg,
    pub gen: GenParams,
    pub model_seed: u64,
    pub ops: Vec<OpSpec>,
    pub start_s: i64,
}

fn gen_ops(rng: &mut Rng, n: usize, v2: bool, sched_share: u64) -> Vec<OpSpec> {
    let mut ops = vec![OpSpec::Backup { edit_seed: rng.next_u64(), scheduled: false }];
    // crafted pre-state
    match rng.usize(5) {
        0 => ops.push(OpSpec::StaleBackups { edit_seed: rng.next_u64() }),
        1 => ops.push(OpSpec::CrashedBackup { edit_seed: rng.next_u64(), k: rng.range(1, 3) as usize }),
        2 => {
            ops.push(OpSpec::Backup { edit_seed: rng.next_u64(), scheduled: false });
            ops.push(OpSpec::DupIndexEntry { pick: rng.next_u64() });
        }
        _ => {}
    }
    while ops.len() < n {
        let op = match rng.weighted(&[5, 4, 6, 3, 2, 1, 1]) {
            0 => OpSpec::Backup { edit_seed: rng.next_u64(), scheduled: rng.chance(sched_share, 10) },
            1 => OpSpec::Forget { pick: rng.next_u64() },
            2 => OpSpec::Prune { spec: PruneSpec::gen(rng, v2), scheduled: rng.chance(sched_share, 10) },
            3 => OpSpec::Advance { secs: *rng.pick(&[1i64, 59, 60, 61, 3599, 3600, 3601, 23 * 3600 - 1, 23 * 3600 + 1, 86_400 * 30]) },
            4 => OpSpec::Resurrect { spec: PruneSpec::gen(rng, v2) },
            5 => OpSpec::StaleBackups { edit_seed: rng.next_u64() },
            _ => OpSpec::CrashedBackup { edit_seed: rng.next_u64(), k: rng.range(1, 4) as usize },
        };
        ops.push(op);
    }
    // histories end with a prune so that the last state is checked
    ops.push(OpSpec::Prune { spec: PruneSpec::gen(rng, v2), scheduled: false });
    ops
}

impl Prop for C02 {
    fn id(&self) -> &'static str {
        "C02"
    }
    fn scheduled(&self) -> bool {
        true
    }
    fn runs(&self, tier: Tier) -> u64 {
        match tier {
            Tier::Quick => 2200,
            Tier::Thorough => 30000,
        }
    }
    fn rule(&self) -> &'static str {
        "one run = a history (<= 9 ops quick, <= 20 thorough) over {backup of an edited source, two stale-index backups (duplicate blobs), crashed backup (unreferenced packs), duplicated index entry, \
         forget a subset, prune with options drawn from the full option grid, clock advance across keep-delete/keep-pack boundaries, resurrect a forgotten snapshot file then prune} on a repository with a drawn \
         configuration (tiny packs, tree/data id collisions in the content); after every prune: every remaining snapshot reads back equal to its model, check(read_data) is clean, the independent store audit \
         finds every referenced blob in an unmarked existing pack, and every pack whose mark is younger than the prune's keep-delete still exists. \
         evaluations = prune/resurrect oracle evaluations; non-trivial = at least one forget followed by a prune that changed the store; distinct = hash(history, model, config)"
    }
    fn assumptions(&self) -> Vec<&'static str> {
        vec![
            "the documented-unsafe early_delete_index option is never set",
            "the keep-delete guarantee is asserted with the simulated clock value at the end of the prune (the clock only moves forward inside a scheduled prune)",
        ]
    }

    fn generate(&self, subseed: u64, tier: Tier) -> Value {
        let mut rng = Rng::new(subseed);
        let mut cfg = RepoCfg::gen_small(&mut rng);
        if cfg.compression.is_some_and(|c| c > 3) {
            cfg.compression = Some(1);
        }
        let mut genp = GenParams::default();
        genp.max_entries = 7;
        genp.max_file = 40_000;
        genp.total_cap = 100_000;
        genp.special = false;
        genp.sizes_of_interest = vec![4096];
        let n = if tier == Tier::Quick { rng.range(4, 8) } else { rng.range(5, 18) } as usize;
        let ops = gen_ops(&mut rng, n, cfg.version == 2, 3);
        let spec = Spec { pool: *rng.pick(&[1usize, 2, 3]), subseed, cfg, gen: genp, model_seed: rng.next_u64(), ops, start_s: common::BASE_TIME_S + rng.range(0, 400 * 86400) as i64 };
        serde_json::to_value(spec).unwrap()
    }

    fn shrink(&self, spec: &Value) -> Vec<Value> {
        let s: Spec = serde_json::from_value(spec.clone()).unwrap();
        let mut out = vec![];
        for i in (0..s.ops.len()).rev() {
            let mut c = s.clone();
            let _ = c.ops.remove(i);
            out.push(serde_json::to_value(c).unwrap());
        }
        for i in 0..s.ops.len() {
            let mut c = s.clone();
            let changed = match &mut c.ops[i] {
                OpSpec::Backup { scheduled, .. } | OpSpec::Prune { scheduled, .. } if *scheduled => {
                    *scheduled = false;
                    true
                }
                _ => false,
            };
            if changed {
                out.push(serde_json::to_value(c).unwrap());
            }
        }
        out
    }

    fn exec(&self, spec: &Value, env: &Env) -> Report {
        let s: Spec = serde_json::from_value(spec.clone()).expect("spec");
        let mut rep = Report::default();
        common::run_setup(s.subseed, s.start_s);
        let mut rng = Rng::new(s.subseed ^ 0xc02);
        let mut sim = Sim::new(s.subseed, s.cfg.clone(), &env.cpus, "c02");
        if let Cmd::Err(e) = sim.init() {
            rep.sample = json!({"skipped": "configuration refused by init", "error": e});
            rep.evaluations = 1;
            return rep;
        }
        let plan = ReadPlan { frag: vec![0, 4097], eintr_every: 0, gate_reads_every: 0 };
        let mut model = build_model_min(&s.gen, s.model_seed, &[], s.start_s, 2);
        let mut forgotten: Vec<(SnapRec, bytes::Bytes)> = vec![];
        let mut evaluations = 0u64;
        let mut history = vec![];
        let mut interesting = false;
        let mut forgot_since_prune = false;
        // pack -> simulated time (s) at the start of the prune after which it was first seen marked
        let mut marked_at: BTreeMap<String, i64> = BTreeMap::new();

        macro_rules! fail {
            ($fp:expr, $d:expr) => {{
                rep.violation($fp, $d);
                sim.finish_report(&mut rep);
                rep.trace = sim.trace.clone();
                rep.evaluations = evaluations.max(1);
                rep.sample = json!({"history": history, "config": s.cfg.describe()});
                return rep;
            }};
        }

        for (oi, op) in s.ops.iter().enumerate() {
            match op {
                OpSpec::Backup { edit_seed, scheduled } => {
                    let now = interpose::clock_now() / 1_000_000_000;
                    let _ = edit_model(&mut Rng::new(*edit_seed), &mut model, &s.gen, now, 3);
                    let mode = sim.draw_mode(*scheduled, &[0, 1], rng.chance(1, 10));
                    history.push(format!("backup{}", if *scheduled { "(scheduled)" } else { "" }));
                    match sim.backup(&mode, &model.clone(), 1, &BackupOptions::default(), &plan, "c02") {
                        Cmd::Ok(_) => {}
                        r => fail!(format!("C02/op{oi}-backup-{}", r.class()), r.detail()),
                    }
                    interpose::clock_advance(1_000_000_000);
                }
                OpSpec::StaleBackups { edit_seed } => {
                    let now = interpose::clock_now() / 1_000_000_000;
                    let ma = model.clone();
                    let _ = edit_model(&mut Rng::new(*edit_seed), &mut model, &s.gen, now, 2);
                    let mb = model.clone();
                    let (store, key, sched, seed, plan2) = (sim.store.clone(), sim.key.clone(), sim.sched.clone(), sim.seed, plan.clone());
                    let (ma2, mb2) = (ma.clone(), mb.clone());
                    history.push("two backups through handles with stale indexes".into());
                    let r = sim.run(&Mode::Free, move || {
                        let a = repo_open(&store, 1, &key)?.to_indexed_ids()?;
                        let b = repo_open(&store, 2, &key)?.to_indexed_ids()?;
                        let sa = backup_model(&a, &ma2, &sched, 1, &plan2, seed, &BackupOptions::default().parent_opts(rustic_core::ParentOptions::default().force(true)), "c02a")?.snap;
                        let sb = backup_model(&b, &mb2, &sched, 2, &plan2, seed, &BackupOptions::default().parent_opts(rustic_core::ParentOptions::default().force(true)), "c02b")?.snap;
                        Ok((sa, sb))
                    });
                    match r {
                        Cmd::Ok((sa, sb)) => {
                            let _ = sim.snaps.insert(id_hex(&sa.id), SnapRec { snap: sa, model: ma });
                            let _ = sim.snaps.insert(id_hex(&sb.id), SnapRec { snap: sb, model: mb });
                            rep.fire("duplicate_blobs_crafted", 1);
                        }
                        r => fail!(format!("C02/op{oi}-stale-backups-{}", r.class()), r.detail()),
                    }
                    interpose::clock_advance(1_000_000_000);
                }
                OpSpec::CrashedBackup { edit_seed, k } => {
                    let now = interpose::clock_now() / 1_000_000_000;
                    let mut m = model.clone();
                    let _ = edit_model(&mut Rng::new(*edit_seed), &mut m, &s.gen, now, 3);
                    sim.store.set_faults(vec![Fault::CrashAt { actor: 3, k: *k }]);
                    history.push(format!("backup crashing at its mutation op {k}"));
                    let snaps_before = sim.snaps.clone();
                    let r = sim.backup(&Mode::Free, &m, 3, &BackupOptions::default(), &plan, "c02");
                    sim.store.set_faults(vec![]);
                    if let Cmd::Panic(p) = &r {
                        fail!(format!("C02/op{oi}-crashed-backup-panic:{}", common::classify(&common::short_loc(p))), p.clone());
                    }
                    if r.is_ok() {
                        // fewer than k mutation ops: it simply completed
                        model = m;
                    } else {
                        sim.snaps = snaps_before;
                    }
                }
                OpSpec::DupIndexEntry { pick } => {
                    let files = sim.store.files();
                    let key = sim.key.aead_key();
                    let view = StoreView::build(&key, &files);
                    let cands: Vec<_> = view.index_files.values().flat_map(|f| f.packs.iter()).cloned().collect();
                    if !cands.is_empty() {
                        let p = cands[(*pick as usize) % cands.len()].clone();
                        let json = serde_json::to_vec(&json!({"packs": [p]})).unwrap();
                        let mut nonce = [0u8; 16];
                        nonce.copy_from_slice(&Rng::new(*pick).bytes(16));
                        let data = encode_file(&key, &nonce, &json);
                        let id = hash_id(&data);
                        sim.store.put_raw(FileType::Index, &id, data.into());
                        rep.fire("index_edit_duplicate_entry", 1);
                        history.push("extra index file repeating one pack".into());
                    }
                }
                OpSpec::Forget { pick } => {
                    let ids: Vec<String> = sim.snaps.keys().cloned().collect();
                    if ids.len() < 2 {
                        continue;
                    }
                    // a non-empty proper subset
                    let mut chosen: Vec<String> = ids.iter().enumerate().filter(|(i, _)| (pick >> (i % 60)) & 1 == 1).map(|(_, h)| h.clone()).collect();
                    if chosen.is_empty() {
                        chosen.push(ids[(*pick as usize) % ids.len()].clone());
                    }
                    if chosen.len() == ids.len() {
                        let _ = chosen.pop();
                    }
                    for h in &chosen {
                        if let (Some(rec), Some(bytes)) = (sim.snaps.get(h), sim.store.get(FileType::Snapshot, &h.parse().unwrap())) {
                            forgotten.push((rec.clone(), bytes));
                        }
                    }
                    history.push(format!("forget {} of {}", chosen.len(), ids.len()));
                    match sim.forget(&Mode::Free, 1, &chosen) {
                        Cmd::Ok(()) => forgot_since_prune = true,
                        r => fail!(format!("C02/op{oi}-forget-{}", r.class()), r.detail()),
                    }
                }
                OpSpec::Advance { secs } => {
                    interpose::clock_advance(*secs * 1_000_000_000);
                    history.push(format!("clock +{secs}s"));
                }
                OpSpec::Prune { .. } | OpSpec::Resurrect { .. } => {
                    let (pspec, scheduled, resurrect) = match op {
                        OpSpec::Prune { spec, scheduled } => (spec, *scheduled, false),
                        OpSpec::Resurrect { spec } => (spec, false, true),
                        _ => unreachable!(),
                    };
                    let key = sim.key.aead_key();
                    if resurrect {
                        // only a snapshot all of whose blobs are still physically present can come back
                        let files = sim.store.files();
                        let view = StoreView::build(&key, &files);
                        let Some(pos) = forgotten.iter().position(|(rec, _)| view.reachable(&key, &files, &rec.snap.tree).is_ok()) else { continue };
                        let (rec, bytes) = forgotten.remove(pos);
                        sim.store.put_raw(FileType::Snapshot, &rec.snap.id, bytes);
                        let _ = sim.snaps.insert(id_hex(&rec.snap.id), rec);
                        rep.fire("snapshot_resurrected", 1);
                        history.push("forgotten snapshot file re-added".into());
                    }
                    // marks before this prune: pack -> time of the mark (seconds)
                    let before = sim.store.files();
                    let view_before = StoreView::build(&key, &before);
                    // (the mark times are the simulator's own observations, not the times the index records)
                    let _ = &view_before;
                    let marks: BTreeMap<String, i64> = marked_at.clone();
                    let prune_start = interpose::clock_now() / 1_000_000_000;
                    let digest_before = files_digest(&before);
                    let mode = sim.draw_mode(scheduled, &[0, 1], false);
                    history.push(format!("prune{} {:?}", if scheduled { "(scheduled)" } else { "" }, pspec));
                    match sim.prune(&mode, 1, &pspec.to_opts()) {
                        Cmd::Ok(()) => {}
                        Cmd::Err(e) => {
                            // an option combination may be refused; that must not have changed anything… (C18 checks panics)
                            history.push(format!("  -> Err: {}", common::classify(&e)));
                            continue;
                        }
                        r => fail!(format!("C02/op{oi}-prune-{}", r.class()), r.detail()),
                    }
                    let after = sim.store.files();
                    let changed = files_digest(&after) != digest_before;
                    if changed && forgot_since_prune {
                        interesting = true;
                    }
                    forgot_since_prune = false;
                    rep.states.push(files_digest(&after));
                    evaluations += 1;
                    // (1) keep-delete: young marks keep their pack
                    let now_end = interpose::clock_now() / 1_000_000_000;
                    // (instant_delete is documented to remove everything already marked, whatever its age)
                    for (pid, t) in &marks {
                        if !pspec.instant_delete && t.saturating_add(pspec.keep_delete_s) > now_end + 1 {
                            let id: rustic_core::Id = pid.parse().unwrap();
                            if !after.contains_key(&(crate::store::ft_code(FileType::Pack), id)) && before.contains_key(&(crate::store::ft_code(FileType::Pack), id)) {
                                fail!(
                                    "C02/marked-pack-deleted-before-keep-delete",
                                    format!("pack {pid} was marked at {t}, prune at {now_end} with keep_delete {}s removed it", pspec.keep_delete_s)
                                );
                            }
                        }
                    }
                    // (2) independent audit: every referenced blob physically present and indexed live
                    let view = StoreView::build(&key, &after);
                    // update the observed marks: newly marked packs got their mark during this prune
                    let now_marked: std::collections::BTreeSet<String> = view.index_files.values().flat_map(|f| f.packs_to_delete.iter().map(|p| id_hex(&p.id))).collect();
                    marked_at.retain(|p, _| now_marked.contains(p));
                    for p in &now_marked {
                        let _ = marked_at.entry(p.clone()).or_insert(prune_start);
                    }
                    if let Some(e) = view.errors.first() {
                        fail!("C02/stored-file-does-not-decode", e.clone());
                    }
                    for (h, rec) in &sim.snaps {
                        match view.reachable(&key, &after, &rec.snap.tree) {
                            Err(e) => fail!("C02/referenced-blob-lost-by-prune", format!("after op {oi} ({:?}): snapshot {h}: {e}", pspec)),
                            Ok(set) => {
                                for (t, id) in set {
                                    if !view.indexed_live(t, &id) {
                                        fail!(
                                            if resurrect { "C02/needed-pack-not-brought-back" } else { "C02/referenced-blob-only-in-marked-or-missing-pack" },
                                            format!("after op {oi}: {t} blob {} of snapshot {h} is not listed in an unmarked existing pack", id_hex(&id))
                                        );
                                    }
                                }
                            }
                        }
                    }
                    // (3) through the library: read back + check
                    if let Some((fp, d)) = sim.verify(true).into_iter().next() {
                        fail!(format!("C02/{fp}"), format!("after op {oi} ({:?}): {d}", pspec));
                    }
                }
            }
        }
        sim.finish_report(&mut rep);
        rep.evaluations = evaluations.max(1);
        if interesting {
            rep.nontrivial.push(hash64(&[format!("{:?}{:?}", s.ops, s.cfg).as_bytes(), &s.model_seed.to_le_bytes()]));
        }
        rep.sample = json!({"history": history, "config": s.cfg.describe(), "snapshots_left": sim.snaps.len(), "model": model.describe()});
        rep
    }
}

#[allow(dead_code)]
fn _unused(_: &FsModel) {}
