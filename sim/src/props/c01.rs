//! C01 Backup followed by restore reproduces the source exactly.

use std::sync::Arc;

use rustic_core::{BackupOptions, CheckOptions};
use serde::{Deserialize, Serialize};
use serde_json::{Value, json};

use crate::common::{self, classify, etext, short_loc};
use crate::harness::{Env, Prop, Report, Tier, trace_hash};
use crate::model::{FsModel, GenParams, ReadPlan, edit_model, gen_model};
use crate::readback::{ReadBackOpts, read_back};
use crate::restore_check::restore_and_compare;
use crate::rng::{Rng, hash64};
use crate::sched::{ClockSteps, Mode, Policy, Sched, Stop, run_cmd};
use crate::store::{SimStore, files_digest};
use crate::world::{KeyMat, RepoCfg, backup_model, repo_init, repo_open};

pub struct C01;

#[derive(Clone, Debug, Serialize, Deserialize)]
pub struct Spec {
    pub pool: usize,
    pub subseed: u64,
    pub sched: bool,
    pub force_fifo: bool,
    pub cfg: RepoCfg,
    pub gen: GenParams,
    pub model_seed: u64,
    /// entries (by index in generation order of the BTreeMap) removed by the minimiser
    pub drop: Vec<usize>,
    pub two_snapshots: bool,
    pub plan: ReadPlan,
    pub restore: bool,
    /// back up a real directory on tmpfs through LocalSource (free mode only) instead of SimSource
    #[serde(default)]
    pub local_source: bool,
    pub start_s: i64,
}

/// like `build_model`, but picks the first seed >= `seed` whose model has at least `min_files`
/// non-empty files (the minimiser's `drop` list is applied afterwards)
pub fn build_model_min(spec_gen: &GenParams, seed: u64, drop: &[usize], now_s: i64, min_files: usize) -> FsModel {
    for d in 0..200u64 {
        let m = gen_model(&mut Rng::new(seed.wrapping_add(d)), spec_gen, now_s);
        if m.files().filter(|(_, b)| !b.is_empty()).count() >= min_files {
            return build_model(spec_gen, seed.wrapping_add(d), drop, now_s);
        }
    }
    build_model(spec_gen, seed, drop, now_s)
}

pub fn build_model(spec_gen: &GenParams, seed: u64, drop: &[usize], now_s: i64) -> FsModel {
    let mut m = gen_model(&mut Rng::new(seed), spec_gen, now_s);
    if !drop.is_empty() {
        let keys: Vec<_> = m.entries.keys().cloned().collect();
        for d in drop {
            if let Some(k) = keys.get(*d) {
                m.remove_subtree(k);
            }
        }
    }
    m
}

impl Prop for C01 {
    fn id(&self) -> &'static str {
        "C01"
    }
    fn scheduled(&self) -> bool {
        true
    }
    fn runs(&self, tier: Tier) -> u64 {
        match tier {
            Tier::Quick => 3200,
            Tier::Thorough => 40000,
        }
    }
    fn rule(&self) -> &'static str {
        "one run = generated source tree x accepted repository configuration x (seeded schedule | free threads) x read fragmentation; \
         backup through Repository::archive on a SimStore, reopen, read back via ls/dump/read_file_at (and restore to tmpfs for a subset) and compare with the model; \
         check(read_data). non-trivial = at least one file with content and >= 10 gates or >= 2 packs; distinct = distinct (model, config, gate trace) hash"
    }
    fn assumptions(&self) -> Vec<&'static str> {
        vec![
            "SimStore behaves like a real backend (cross-checked against LocalBackend/OpenDAL in C20)",
            "SimSource delivers entries in the order LocalSource does (depth-first, byte order)",
            "configurations are drawn from the grid the library is meant to support (min chunk >= 4096); accepted-but-broken parameters are C18/C06 territory",
        ]
    }

    fn generate(&self, subseed: u64, tier: Tier) -> Value {
        let mut rng = Rng::new(subseed);
        let sched = rng.chance(2, 3);
        let pool = if sched { *rng.pick(&[1usize, 1, 2, 2, 3]) } else { 2 };
        let cfg = if rng.chance(2, 3) { RepoCfg::gen_small(&mut rng) } else { RepoCfg::gen(&mut rng) };
        let mut genp = GenParams::default();
        genp.sizes_of_interest = cfg.sizes_of_interest();
        if sched {
            // keep scheduled runs short: few hundred gates
            genp.max_entries = 9;
            genp.max_file = 120_000;
            genp.total_cap = 400_000;
        } else if tier == Tier::Thorough {
            genp.max_entries = 30;
            genp.total_cap = 4_000_000;
            genp.max_file = 2_500_000;
        }
        let plan = ReadPlan {
            frag: match rng.usize(4) {
                0 => vec![],
                1 => vec![1, 7, 4096, 0],
                2 => vec![513, 4095, 4097, 65_536],
                _ => vec![0, 100_000],
            },
            eintr_every: *rng.pick(&[0usize, 0, 2, 5]),
            gate_reads_every: if sched { *rng.pick(&[0usize, 0, 3, 16]) } else { 0 },
        };
        let spec = Spec {
            pool,
            subseed,
            sched,
            force_fifo: false,
            cfg,
            gen: genp,
            model_seed: rng.next_u64(),
            drop: vec![],
            two_snapshots: rng.chance(1, 3),
            plan,
            restore: rng.chance(1, 4),
            local_source: !sched && rng.chance(1, 3),
            start_s: common::BASE_TIME_S + rng.range(0, 400 * 86400) as i64,
        };
        serde_json::to_value(spec).unwrap()
    }

    fn shrink(&self, spec: &Value) -> Vec<Value> {
        let s: Spec = serde_json::from_value(spec.clone()).unwrap();
        let mut out = vec![];
        let push = |out: &mut Vec<Value>, s: Spec| out.push(serde_json::to_value(s).unwrap());
        if s.two_snapshots {
            let mut c = s.clone();
            c.two_snapshots = false;
            push(&mut out, c);
        }
        let n = gen_model(&mut Rng::new(s.model_seed), &s.gen, s.start_s).entries.len();
        for i in 0..n {
            if !s.drop.contains(&i) {
                let mut c = s.clone();
                c.drop.push(i);
                push(&mut out, c);
            }
        }
        if !s.plan.frag.is_empty() || s.plan.eintr_every != 0 {
            let mut c = s.clone();
            c.plan.frag.clear();
            c.plan.eintr_every = 0;
            push(&mut out, c);
        }
        if s.sched && !s.force_fifo {
            let mut c = s.clone();
            c.force_fifo = true;
            push(&mut out, c);
        }
        if s.restore {
            let mut c = s.clone();
            c.restore = false;
            push(&mut out, c);
        }
        if s.local_source {
            let mut c = s.clone();
            c.local_source = false;
            push(&mut out, c);
        }
        out
    }

    fn exec(&self, spec: &Value, env: &Env) -> Report {
        let s: Spec = serde_json::from_value(spec.clone()).expect("spec");
        let mut rep = Report::default();
        let mut rng = Rng::new(s.subseed ^ 0xc01);
        common::run_setup(s.subseed, s.start_s);
        let _ = common::take_panics();
        let key = KeyMat::from_seed(s.subseed);
        let sched = Sched::new();
        let store = SimStore::new("c01", sched.clone());

        let repo = match repo_init(&store, 1, &key, &s.cfg) {
            Ok(r) => r,
            Err(e) => {
                rep.sample = json!({"skipped": "configuration refused by init", "error": classify(&etext(&e))});
                rep.evaluations = 1;
                return rep;
            }
        };
        let mut repo = match repo.to_indexed_ids() {
            Ok(r) => r,
            Err(e) => {
                rep.violation("C01/index-load-failed-on-fresh-repo", etext(&e));
                return rep;
            }
        };

        let m1 = build_model(&s.gen, s.model_seed, &s.drop, s.start_s);
        let mut models = vec![m1.clone()];
        if s.two_snapshots {
            let mut m2 = m1.clone();
            let _ = edit_model(&mut rng, &mut m2, &s.gen, s.start_s + 3600, 4);
            models.push(m2);
        }

        let mut snaps = vec![];
        let mut full_trace: Vec<(String, i64)> = vec![];
        for (bi, model) in models.iter().enumerate() {
            let mode = if s.sched {
                let policy = if s.force_fifo { Policy::Fifo } else { Policy::draw(&mut rng, &[1]) };
                Mode::Sched { policy, clock: ClockSteps { jumps: rng.chance(1, 6) }, step_cap: 6000 }
            } else {
                Mode::Free
            };
            let (model2, sched2, plan2, seed2) = (model.clone(), sched.clone(), s.plan.clone(), s.subseed);
            let src_dir = if s.local_source {
                let d = crate::restore_check::fresh_dir(&env.tmp, "c01-src");
                if let Err(e) = crate::restore_check::materialize(model, &d) {
                    rep.harness_errors.push(format!("cannot materialise the source on tmpfs: {e}"));
                    return rep;
                }
                rep.fire("real_directory_source(LocalSource)", 1);
                Some(d)
            } else {
                None
            };
            let src_dir2 = src_dir.clone();
            let out = run_cmd(&sched, &mode, &mut rng, &env.cpus, move || {
                let r = match &src_dir2 {
                    None => backup_model(&repo, &model2, &sched2, 1, &plan2, seed2, &BackupOptions::default(), "c01"),
                    Some(d) => crate::world::snap_template("c01").and_then(|t| {
                        repo.backup(&BackupOptions::default().as_path(std::path::PathBuf::from("/")), &rustic_core::PathList::from_iter([d.clone()]), t)
                            .map(|snap| crate::world::BackupResult { snap, source_log: Default::default() })
                    }),
                };
                (repo, r)
            });
            if let Some(d) = &src_dir {
                crate::restore_check::make_removable(d);
                let _ = std::fs::remove_dir_all(d);
            }
            *rep.policies.entry(out.policy.to_string()).or_insert(0) += 1;
            rep.gates += out.trace.len() as u64;
            rep.sim_ns += out.sim_ns;
            full_trace.extend(out.trace.iter().cloned());
            let panics = common::take_panics();
            match (out.stop, out.result) {
                (Stop::Done, Some(Ok((r, Ok(b))))) => {
                    repo = r;
                    snaps.push(b.snap);
                    if bi + 1 < models.len() {
                        // re-read the index before the next backup
                        repo = match repo.to_indexed_ids() {
                            Ok(r) => r,
                            Err(e) => {
                                rep.violation("C01/index-reload-failed", etext(&e));
                                rep.trace = full_trace;
                                return rep;
                            }
                        };
                    }
                }
                (Stop::Done, Some(Ok((_, Err(e))))) => {
                    rep.violation(format!("C01/backup-error:{}", classify(&etext(&e))), etext(&e));
                    rep.trace = full_trace;
                    return rep;
                }
                (Stop::Done, Some(Err(p))) | (_, Some(Err(p))) => {
                    let loc = panics.first().cloned().unwrap_or(p);
                    rep.violation(format!("C01/panic:{}", classify(&short_loc(&loc))), loc);
                    rep.trace = full_trace;
                    return rep;
                }
                (Stop::NoProgress, _) => {
                    rep.violation("C01/no-progress(backup)", "backup did not finish: no gate parked, command not done");
                    rep.trace = full_trace;
                    return rep;
                }
                (stop, _) => {
                    rep.harness_errors.push(format!("scheduler stopped with {stop:?}"));
                    rep.trace = full_trace;
                    return rep;
                }
            }
            if !panics.is_empty() {
                rep.violation(format!("C01/panic-in-worker:{}", classify(&short_loc(&panics[0]))), panics[0].clone());
            }
            rep.states.push(files_digest(&store.files()));
        }
        rep.trace_hash = trace_hash(&full_trace);

        // read back through a fresh handle, all gates open
        let n_packs = store.list_ids(rustic_core::FileType::Pack).len();
        let ro = match repo_open(&store, 9, &key).and_then(|r| r.to_indexed()) {
            Ok(r) => r,
            Err(e) => {
                rep.violation(format!("C01/reopen-failed:{}", classify(&etext(&e))), etext(&e));
                rep.trace = full_trace;
                return rep;
            }
        };
        for (snap, model) in snaps.iter().zip(models.iter()) {
            let rb = read_back(&ro, snap, model, &ReadBackOpts { inode: !s.local_source, mode_mask: u32::MAX, stream_sizes: !s.local_source, ..ReadBackOpts::default() }, &mut rng);
            if !rb.is_equal() {
                rep.violation(format!("C01/readback:{}", classify(&rb.short())), rb.short());
            }
            if s.restore && rb.is_equal() {
                if let Err(e) = restore_and_compare(&ro, snap, model, &env.tmp, &mut rng) {
                    rep.violation(format!("C01/restore:{}", classify(&e)), e);
                }
            }
        }
        match ro.check(CheckOptions::default().read_data(true)) {
            Ok(res) => {
                let errs = common::check_errors(&res);
                if let Some(first) = errs.first() {
                    rep.violation(format!("C01/check-reports-error:{}", classify(first)), errs.join(" | "));
                }
            }
            Err(e) => rep.violation(format!("C01/check-failed:{}", classify(&etext(&e))), etext(&e)),
        }
        common::probes_into(&mut rep.probes);
        rep.evaluations = snaps.len() as u64;
        let nontrivial = models[0].total_bytes() > 0 && (rep.gates >= 10 || n_packs >= 2);
        if nontrivial {
            rep.nontrivial.push(hash64(&[&s.model_seed.to_le_bytes(), format!("{:?}{:?}", s.cfg, s.drop).as_bytes(), &rep.trace_hash.to_le_bytes()]));
        }
        rep.sample = json!({
            "config": s.cfg.describe(), "model": models[0].describe(), "snapshots": snaps.len(),
            "mode": if s.sched { "scheduled" } else { "free" }, "pool": s.pool,
            "read_plan": format!("{:?}", s.plan), "packs": n_packs, "restore_checked": s.restore,
            "first_gates": full_trace.iter().take(12).map(|t| t.0.clone()).collect::<Vec<_>>(),
        });
        if !rep.violations.is_empty() || std::env::var("VERIF_KEEP_TRACE").is_ok() {
            rep.trace = full_trace;
        }
        let _ = Arc::strong_count(&store);
        rep
    }
}
