//! C06 Chunking is a lossless, bounded, content-defined partition.
//!
//! One run = one accepted chunker parameter set (polynomial, rabin avg/min/max or fixed size) x
//! several byte streams x several reader behaviours, all through the crate-private chunk iterator
//! (`rustic_core::verif::chunk_iter`, hook H3). A subset of the runs additionally archives the
//! same streams through `Repository::archive` and reads the chunk list back from the file nodes.
//!
//! The oracle never re-implements the chunker: it *verifies* every chunk list the library returns
//! against the statement (concatenation, bounds, first fingerprint zero at or after `min`, same
//! list for every read fragmentation, restart/suffix locality), with the fingerprint computed by a
//! non-rolling table evaluation of the GF(2) polynomial remainder of each 64-byte window.

use std::collections::BTreeSet;
use std::io::Read;
use std::sync::Arc;

use rustic_core::repofile::{BlobType, ConfigFile};
use rustic_core::{BackupOptions, KeyOptions};
use serde::{Deserialize, Serialize};
use serde_json::{Value, json};

use crate::audit::id_hex;
use crate::common::{self, classify, etext, short_loc};
use crate::gf2;
use crate::harness::{Env, Prop, Report, Tier};
use crate::model::{FsModel, Kind, PathKey, ReadPlan, default_entry, key_of};
use crate::readback::list_snapshot;
use crate::rng::{Rng, hash64, sha256};
use crate::sched::Mode;
use crate::sim::{Cmd, Sim};
use crate::world::{ChunkerCfg, FIXED_POLY, KeyMat, RepoCfg, backup_model, config_for, repo_on, repo_open};

pub struct C06;

/// window of the rolling hash (`Rabin64::new_with_polynom(6, ..)`)
const WIN: usize = 64;
/// read-ahead buffer of the rabin chunker (only used to aim generators and to name parameter classes)
const BUF: usize = 4096;

// ---------------------------------------------------------------------------------------------
// spec

#[derive(Clone, Debug, PartialEq, Eq, Serialize, Deserialize)]
pub enum StreamKind {
    Random,
    Zeros,
    Const(u8),
    /// random pattern of this period
    Periodic(usize),
    Text,
    /// zeros with random islands
    Islands,
    /// a fingerprint zero (cut candidate) forced every n bytes
    Dense(usize),
    /// cut candidates placed at chosen distances from the previous ideal cut (min-1, min, min+1,
    /// min+63, min+64, max-1, ...)
    Targeted,
}

#[derive(Clone, Debug, PartialEq, Eq, Serialize, Deserialize)]
pub struct StreamSpec {
    pub kind: StreamKind,
    pub len: usize,
    pub seed: u64,
}

#[derive(Clone, Debug, PartialEq, Eq, Serialize, Deserialize)]
pub enum Frag {
    /// every read fills the caller's buffer as far as data is left (what `Cursor` does)
    Whole,
    /// at most n bytes per read
    Cap(usize),
    /// 1..=n bytes per read, seeded
    Seeded(usize),
}

#[derive(Clone, Debug, PartialEq, Eq, Serialize, Deserialize)]
pub enum Hint {
    Zero,
    Exact,
    Half,
    One,
    Plus1,
    Double,
    Max,
}

#[derive(Clone, Debug, PartialEq, Eq, Serialize, Deserialize)]
pub enum ErrAt {
    Start,
    End,
    /// offset = x mod (len + 1)
    Mod(u64),
    /// offset = min(x, len)
    Abs(usize),
}

#[derive(Clone, Debug, PartialEq, Eq, Serialize, Deserialize)]
pub struct ReaderSpec {
    pub frag: Frag,
    /// after every n-th productive read, `eintr_burst` reads fail with ErrorKind::Interrupted (0 = never)
    pub eintr_every: usize,
    pub eintr_burst: usize,
    /// a sticky hard read error at this offset
    pub err: Option<ErrAt>,
    pub hint: Hint,
    pub seed: u64,
}

impl ReaderSpec {
    fn plain(frag: Frag, hint: Hint) -> Self {
        Self { frag, eintr_every: 0, eintr_burst: 0, err: None, hint, seed: 0 }
    }
    fn label(&self) -> String {
        let mut s = match &self.frag {
            Frag::Whole => "whole".to_string(),
            Frag::Cap(n) => format!("cap{n}"),
            Frag::Seeded(n) => format!("seeded<= {n}"),
        };
        if self.eintr_every > 0 {
            s.push_str(&format!("+eintr{}x{}", self.eintr_every, self.eintr_burst));
        }
        if let Some(e) = &self.err {
            s.push_str(&format!("+err@{e:?}"));
        }
        s.push_str(&format!("+hint{:?}", self.hint));
        s
    }
}

#[derive(Clone, Debug, Serialize, Deserialize)]
pub struct Spec {
    pub pool: usize,
    pub subseed: u64,
    pub start_s: i64,
    /// chunker polynomial (goes into the config file as hex)
    pub poly: u64,
    pub chunker: ChunkerCfg,
    pub version: u32,
    pub compression: Option<i32>,
    pub streams: Vec<StreamSpec>,
    pub readers: Vec<ReaderSpec>,
    /// suffix-locality pairs (A.S / B.S) to evaluate
    pub pairs: usize,
    /// restart checks per stream (chunk the tail that starts at a cut)
    pub restarts: usize,
    /// archive the streams (<= 3 of them) end to end with this read cap (0 = whole) and EINTR period
    pub e2e: Option<(usize, usize)>,
}

// ---------------------------------------------------------------------------------------------
// reference fingerprint: F(window) = (sum w[j] * x^(8*(63-j))) mod P, evaluated per window from
// position tables (no state is carried from one window to the next)

pub struct Fp {
    t: Vec<[u64; 256]>,
    pub poly: u64,
    pub mask: u64,
    /// number of trailing bytes that have to be chosen to force the masked bits to zero
    pub patch: usize,
}

impl Fp {
    pub fn new(poly: u64, avg: usize) -> Self {
        assert!(gf2::deg(poly) >= 24 && gf2::deg(poly) <= 55, "polynomial degree out of the supported range");
        let mut t: Vec<[u64; 256]> = Vec::with_capacity(WIN);
        let mut cur = [0u64; 256];
        for (b, c) in cur.iter_mut().enumerate() {
            *c = gf2::pmod(b as u64, poly);
        }
        t.push(cur);
        for j in 1..WIN {
            let mut nxt = [0u64; 256];
            for b in 0..256 {
                nxt[b] = gf2::pmod(t[j - 1][b] << 8, poly);
            }
            t.push(nxt);
        }
        let mask = (avg as u64).wrapping_sub(1);
        let bits = 64 - mask.leading_zeros() as usize;
        Self { t, poly, mask, patch: bits.div_ceil(8) }
    }

    #[inline]
    pub fn f(&self, w: &[u8]) -> u64 {
        debug_assert_eq!(w.len(), WIN);
        let mut h = 0u64;
        for j in 0..WIN {
            h ^= self.t[WIN - 1 - j][w[j] as usize];
        }
        h
    }

    /// z[i] = the window ending before position i (bytes[i-64..i)) has its masked fingerprint bits zero
    pub fn zeros(&self, b: &[u8]) -> Vec<bool> {
        let mut z = vec![false; b.len() + 1];
        for i in WIN..=b.len() {
            z[i] = self.f(&b[i - WIN..i]) & self.mask == 0;
        }
        z
    }

    /// choose the last `patch` bytes of the window ending before `t` so that position t is a cut candidate
    pub fn force_candidate(&self, b: &mut [u8], t: usize) {
        if t < WIN || t > b.len() || self.patch == 0 || self.patch > 3 {
            return;
        }
        for k in 0..self.patch {
            b[t - 1 - k] = 0;
        }
        let v = self.f(&b[t - WIN..t]) & self.mask;
        for k in 0..self.patch {
            b[t - 1 - k] = (v >> (8 * k)) as u8;
        }
    }
}

// ---------------------------------------------------------------------------------------------
// streams

fn chunk_bounds(c: &ChunkerCfg) -> (usize, usize, usize) {
    match c {
        ChunkerCfg::Rabin { avg, min, max } => (*avg, *min, *max),
        ChunkerCfg::Fixed { size } => (*size, *size, *size),
        ChunkerCfg::Default => (1 << 20, 512 << 10, 8 << 20),
    }
}

pub fn make_stream(sp: &StreamSpec, fp: Option<&Fp>, chunker: &ChunkerCfg) -> Vec<u8> {
    let mut rng = Rng::new(sp.seed);
    let n = sp.len;
    let (_, min, max) = chunk_bounds(chunker);
    match &sp.kind {
        StreamKind::Random => rng.bytes(n),
        StreamKind::Zeros => vec![0u8; n],
        StreamKind::Const(c) => vec![*c; n],
        StreamKind::Periodic(p) => {
            let pat = rng.bytes((*p).max(1));
            (0..n).map(|i| pat[i % pat.len()]).collect()
        }
        StreamKind::Text => {
            let words: [&[u8]; 6] = [b"lorem ", b"ipsum ", b"dolor ", b"sit ", b"amet\n", b"consectetur "];
            let mut v = Vec::with_capacity(n + 16);
            while v.len() < n {
                v.extend_from_slice(words[rng.usize(6)]);
            }
            v.truncate(n);
            v
        }
        StreamKind::Islands => {
            let mut v = vec![0u8; n];
            let mut p = 0usize;
            while p < n {
                p += rng.range(0, (2 * min.max(64)) as u64) as usize;
                let l = rng.range(1, 300) as usize;
                let isl = rng.bytes(l);
                for (k, b) in isl.iter().enumerate() {
                    if p + k < n {
                        v[p + k] = *b;
                    }
                }
                p += l;
            }
            v
        }
        StreamKind::Dense(gap) => {
            let mut v = rng.bytes(n);
            if let Some(fp) = fp {
                let gap = (*gap).max(fp.patch).max(1);
                let mut t = WIN;
                while t <= n {
                    fp.force_candidate(&mut v, t);
                    t += gap;
                }
            }
            v
        }
        StreamKind::Targeted => {
            let mut v = rng.bytes(n);
            let Some(fp) = fp else { return v };
            let lo = min.max(WIN);
            let mut start = 0usize;
            while start < n {
                // where the next cut is aimed at, relative to the previous one
                let span = (max - min.min(max)) as u64;
                let target = match rng.usize(12) {
                    0 => min,
                    1 => min + 1,
                    2 => min + WIN - 1,
                    3 => min + WIN,
                    4 => min + WIN + 1,
                    5 => max.saturating_sub(1),
                    6 => max, // no candidate: cut at max
                    7 => min + rng.range(0, span.min(70)) as usize,
                    8 => min + rng.range(0, span.min(2 * BUF as u64)) as usize,
                    _ => min + rng.range(0, span) as usize,
                };
                // a decoy just before min (must be ignored)
                if rng.chance(1, 3) && min > fp.patch + 1 {
                    fp.force_candidate(&mut v, start + min - 1);
                }
                if target < max && target >= lo && target >= fp.patch && start + target <= n {
                    fp.force_candidate(&mut v, start + target);
                }
                // the ideal cut after `start`
                let end = (start + max).min(n);
                let mut cut = end;
                let mut i = start + lo;
                while i < end {
                    if i >= WIN && fp.f(&v[i - WIN..i]) & fp.mask == 0 {
                        cut = i;
                        break;
                    }
                    i += 1;
                }
                if cut <= start {
                    break;
                }
                start = cut;
            }
            v
        }
    }
}

// ---------------------------------------------------------------------------------------------
// readers

#[derive(Default, Debug, Clone)]
pub struct RStats {
    pub reads: u64,
    pub eintr: u64,
    pub short_reads: u64,
    pub err_delivered: bool,
    pub budget_exceeded: bool,
}

pub struct FragReader<'a> {
    data: &'a [u8],
    pos: usize,
    frag: Frag,
    rng: Rng,
    eintr_every: usize,
    eintr_burst: usize,
    productive: usize,
    intr_left: usize,
    err_at: Option<usize>,
    budget: u64,
    pub st: RStats,
}

impl<'a> FragReader<'a> {
    pub fn new(data: &'a [u8], r: &ReaderSpec) -> Self {
        let len = data.len();
        let err_at = r.err.as_ref().map(|e| match e {
            ErrAt::Start => 0,
            ErrAt::End => len,
            ErrAt::Mod(x) => (*x % (len as u64 + 1)) as usize,
            ErrAt::Abs(a) => (*a).min(len),
        });
        Self {
            data,
            pos: 0,
            frag: r.frag.clone(),
            rng: Rng::new(r.seed ^ 0x7265_6164),
            eintr_every: r.eintr_every,
            eintr_burst: r.eintr_burst,
            productive: 0,
            // a burst right at the first read as well
            intr_left: if r.eintr_every > 0 && r.seed & 1 == 1 { r.eintr_burst } else { 0 },
            err_at,
            budget: (len as u64 + 4) * (2 + r.eintr_burst as u64) + 10_000,
            st: RStats::default(),
        }
    }
}

impl Read for FragReader<'_> {
    fn read(&mut self, buf: &mut [u8]) -> std::io::Result<usize> {
        self.st.reads += 1;
        if self.st.reads > self.budget {
            self.st.budget_exceeded = true;
            return Err(std::io::Error::other("rsim: read budget exceeded (the chunker does not stop reading)"));
        }
        if self.intr_left > 0 {
            self.intr_left -= 1;
            self.st.eintr += 1;
            return Err(std::io::Error::new(std::io::ErrorKind::Interrupted, "simulated EINTR"));
        }
        if let Some(e) = self.err_at {
            if self.pos >= e {
                self.st.err_delivered = true;
                return Err(std::io::Error::other("simulated read error"));
            }
        }
        let mut rest = self.data.len() - self.pos;
        if let Some(e) = self.err_at {
            rest = rest.min(e - self.pos);
        }
        let mut n = rest.min(buf.len());
        let cap = match &self.frag {
            Frag::Whole => usize::MAX,
            Frag::Cap(c) => (*c).max(1),
            Frag::Seeded(m) => 1 + self.rng.usize((*m).max(1)),
        };
        if n > cap {
            n = cap;
            self.st.short_reads += 1;
        }
        buf[..n].copy_from_slice(&self.data[self.pos..self.pos + n]);
        self.pos += n;
        self.productive += 1;
        if self.eintr_every > 0 && self.productive % self.eintr_every == 0 {
            self.intr_left = self.eintr_burst;
        }
        Ok(n)
    }
}

fn hint_of(h: &Hint, len: usize) -> usize {
    match h {
        Hint::Zero => 0,
        Hint::Exact => len,
        Hint::Half => len / 2,
        Hint::One => 1,
        Hint::Plus1 => len + 1,
        Hint::Double => 2 * len + BUF,
        Hint::Max => usize::MAX,
    }
}

// ---------------------------------------------------------------------------------------------
// running the chunker

#[derive(Debug, Clone)]
pub enum Outcome {
    /// the iterator could not be created
    Refused(String),
    /// the iterator ended; lengths of the chunks; first chunk whose bytes differ from the stream at its offset
    List { lens: Vec<usize>, bad_content: Option<usize> },
    /// an item was an error (the archiver stops there); number of chunks before it
    Err { chunks: usize, text: String },
    Panic(String),
    /// more chunks than bytes, or the reader's read budget ran out
    Runaway(String),
}

pub fn run_case(config: &ConfigFile, data: &[u8], r: &ReaderSpec) -> (Outcome, RStats) {
    let _ = common::take_panics();
    let mut reader = FragReader::new(data, r);
    let hint = hint_of(&r.hint, data.len());
    let res = std::panic::catch_unwind(std::panic::AssertUnwindSafe(|| {
        let it = match rustic_core::verif::chunk_iter(config, &mut reader, hint) {
            Ok(it) => it,
            Err(e) => return Outcome::Refused(etext(&e)),
        };
        let mut lens = vec![];
        let mut off = 0usize;
        let mut bad = None;
        for item in it {
            match item {
                Ok(c) => {
                    if bad.is_none() && (off + c.len() > data.len() || data[off..off + c.len()] != c[..]) {
                        bad = Some(lens.len());
                    }
                    off = off.saturating_add(c.len());
                    lens.push(c.len());
                    if lens.len() > data.len() + 16 {
                        return Outcome::Runaway(format!("{} chunks for a stream of {} bytes", lens.len(), data.len()));
                    }
                }
                Err(e) => return Outcome::Err { chunks: lens.len(), text: etext(&e) },
            }
        }
        if bad.is_none() && off != data.len() {
            bad = Some(lens.len());
        }
        Outcome::List { lens, bad_content: bad }
    }));
    let st = reader.st.clone();
    let out = match res {
        Ok(o) => {
            if st.budget_exceeded {
                Outcome::Runaway("read budget exceeded".into())
            } else {
                o
            }
        }
        Err(p) => {
            let panics = common::take_panics();
            Outcome::Panic(panics.first().cloned().unwrap_or_else(|| crate::sched::panic_text(&*p)))
        }
    };
    (out, st)
}

// ---------------------------------------------------------------------------------------------
// oracle for one chunk list

fn param_class(c: &ChunkerCfg) -> &'static str {
    match c {
        ChunkerCfg::Fixed { size: 0 } => "fixed-size-zero",
        ChunkerCfg::Fixed { .. } => "fixed",
        ChunkerCfg::Default => "rabin:min>=4096",
        ChunkerCfg::Rabin { min, .. } if *min < WIN => "rabin:min<64",
        ChunkerCfg::Rabin { min, .. } if *min < BUF => "rabin:min<4096",
        ChunkerCfg::Rabin { .. } => "rabin:min>=4096",
    }
}

fn kind_of(c: &ChunkerCfg) -> &'static str {
    match c {
        ChunkerCfg::Fixed { .. } => "fixed",
        _ => "rabin",
    }
}

/// (fingerprint, detail) of everything in `lens` that contradicts the statement
/// what the rolling hash holds if, after the first `min` bytes of a chunk, it is filled with a zero
/// followed by bytes[min-64 .. min-1) and then slides over bytes[min ..) — i.e. the byte at
/// min-1 never enters the window. Diagnostic only (names the cause in the detail text).
fn hole_fingerprint(fp: &Fp, data: &[u8], pos: usize, min: usize, l: usize) -> Option<u64> {
    if min < WIN || l < min || pos + l > data.len() {
        return None;
    }
    let mut seq: Vec<u8> = Vec::with_capacity(WIN + l - min);
    seq.push(0);
    seq.extend_from_slice(&data[pos + min - WIN..pos + min - 1]);
    seq.extend_from_slice(&data[pos + min..pos + l]);
    Some(fp.f(&seq[seq.len() - WIN..]))
}

fn verify_list(chunker: &ChunkerCfg, data: &[u8], lens: &[usize], z: Option<&[bool]>, fpr: Option<&Fp>) -> Vec<(String, String)> {
    let len = data.len();
    let mut out: Vec<(String, String)> = vec![];
    let mut push = |fp: String, d: String| {
        if !out.iter().any(|(f, _)| *f == fp) {
            out.push((fp, d));
        }
    };
    let n = lens.len();
    match chunker {
        ChunkerCfg::Fixed { size } => {
            for (i, l) in lens.iter().enumerate() {
                let last = i + 1 == n;
                if (!last && l != size) || (last && *l > *size) {
                    push("C06/fixed-chunk-wrong-size".into(), format!("chunk {i} of {n} has {l} bytes, chunk size is {size}, stream has {len} bytes"));
                }
            }
        }
        _ => {
            let (_, min, max) = chunk_bounds(chunker);
            let lo = min.max(WIN);
            let zone = |l: usize| if l < min + WIN { "within-64-after-min" } else { "beyond-64-after-min" };
            let mut pos = 0usize;
            for (i, l) in lens.iter().copied().enumerate() {
                let last = i + 1 == n;
                if l > max {
                    push("C06/chunk-above-max:rabin".into(), format!("chunk {i} of {n} at offset {pos} has {l} bytes, max is {max}"));
                }
                if !last && l < min {
                    push("C06/chunk-below-min:rabin".into(), format!("chunk {i} of {n} at offset {pos} has {l} bytes, min is {min}"));
                }
                if let Some(z) = z {
                    // no fingerprint zero at an allowed length before the cut
                    let end = l.min(max);
                    let mut c = lo;
                    while c < end && pos + c < z.len() {
                        if z[pos + c] {
                            let diag = fpr.and_then(|f| hole_fingerprint(f, data, pos, min, c).map(|h| (h & f.mask == 0, f))).map_or(String::new(), |(hz, _)| {
                                format!(" [diagnosis: with the byte at min-1 missing from the window the masked fingerprint there is {}]", if hz { "zero as well" } else { "non-zero" })
                            });
                            push(
                                format!("C06/cut-not-at-first-fingerprint-zero:{}", zone(c)),
                                format!("chunk {i} of {n} at offset {pos} has {l} bytes, but the window ending at length {c} (>= min {min}) already has fingerprint & (avg-1) == 0{diag}"),
                            );
                            break;
                        }
                        c += 1;
                    }
                    // a cut below max is at a fingerprint zero (lengths below 64 have no full window: not judged)
                    if !last && l < max && l >= WIN && l >= min && pos + l < z.len() && !z[pos + l] {
                        let diag = fpr.and_then(|f| hole_fingerprint(f, data, pos, min, l).map(|h| h & f.mask == 0)).map_or(String::new(), |hz| {
                            format!(" [diagnosis: with the byte at min-1 missing from the window the masked fingerprint there is {}]", if hz { "zero" } else { "non-zero as well" })
                        });
                        push(
                            format!("C06/cut-not-at-first-fingerprint-zero:{}", zone(l)),
                            format!("chunk {i} of {n} at offset {pos} was cut at length {l} (min {min}, max {max}) where the fingerprint of the last 64 bytes is not zero in its low bits{diag}"),
                        );
                    }
                }
                pos += l;
            }
        }
    }
    out
}

/// the chunk list the statement prescribes (only defined for min >= 64): used as a control of
/// `verify_list`, never compared with the library's output
fn ideal_list(min: usize, max: usize, len: usize, z: &[bool]) -> Vec<usize> {
    let mut lens = vec![];
    let mut pos = 0usize;
    while pos < len {
        let end = (pos + max).min(len);
        let mut cut = end;
        let mut i = pos + min;
        while i < end {
            if z[i] {
                cut = i;
                break;
            }
            i += 1;
        }
        lens.push(cut - pos);
        pos = cut;
    }
    lens
}

fn cuts_of(lens: &[usize]) -> Vec<usize> {
    let mut v = Vec::with_capacity(lens.len());
    let mut p = 0;
    for l in lens {
        p += l;
        v.push(p);
    }
    v
}

fn show_lens(lens: &[usize]) -> String {
    let v: Vec<String> = lens.iter().take(12).map(usize::to_string).collect();
    format!("[{}{}] ({} chunks)", v.join(","), if lens.len() > 12 { ",.." } else { "" }, lens.len())
}

// ---------------------------------------------------------------------------------------------
// generator helpers

fn gen_chunker(rng: &mut Rng) -> ChunkerCfg {
    if rng.chance(1, 5) {
        let size = match rng.usize(12) {
            0 => *rng.pick(&[1usize, 2, 3]),
            1 => *rng.pick(&[7usize, 64, 100, 127]),
            2 => *rng.pick(&[4095usize, 4096, 4097]),
            3 => *rng.pick(&[65_536usize, 65_537, 10_007]),
            4 => *rng.pick(&[1_000_003usize, 1 << 20, (1 << 20) + 1]),
            5 => *rng.pick(&[2usize << 20, 2_097_143]),
            6 if rng.chance(1, 2) => 0,
            7 | 8 => rng.range(1, 5000) as usize,
            _ => rng.range(1, 2 << 20) as usize,
        };
        return ChunkerCfg::Fixed { size };
    }
    if rng.chance(1, 200) {
        // refused or not, this must not reach the chunker: `chunk_size - 1` in the parameter check
        return ChunkerCfg::Rabin { avg: 0, min: 0, max: *rng.pick(&[0usize, 1, 4096]) };
    }
    // rabin: avg = 2^k
    // avg < 4096 implies min < 4096, which ConfigOptions::apply refuses: kept rare (refusal is C18's subject)
    let k = match rng.weighted(&[1, 2, 3, 64, 22, 8]) {
        0 => rng.range(0, 5),
        1 => rng.range(6, 8),
        2 => rng.range(9, 11),
        3 => rng.range(12, 15),
        4 => rng.range(16, 18),
        _ => rng.range(19, 20),
    };
    let avg = 1usize << k;
    let min = if avg >= BUF && rng.chance(9, 10) {
        // the range the library is meant for
        let lo = BUF as u64;
        let (r1, r2) = (rng.range(lo, avg as u64) as usize, rng.range(lo, avg as u64) as usize);
        *rng.pick(&[BUF, BUF + 1, BUF + WIN - 1, BUF + WIN, BUF + WIN + 1, BUF.max(avg / 2), BUF.max(avg / 2 + 1), BUF.max(avg - 1), avg, BUF.max(avg / 4), r1, r2])
    } else {
        match rng.usize(10) {
            0 => 0,
            1 => 1,
            2 => WIN - 1,
            3 => WIN,
            4 => WIN + 1,
            5 => avg / 2,
            6 => avg,
            7 => *rng.pick(&[512usize, BUF - 2, BUF - 1, BUF]),
            _ => rng.range(0, avg as u64) as usize,
        }
    }
    .min(avg);
    let max = match rng.usize(8) {
        0 => avg,
        1 => avg + 1,
        2 => 2 * avg,
        3 => 4 * avg,
        4 => 8 * avg,
        5 => *rng.pick(&[BUF - 1, BUF, BUF + 1]),
        _ => rng.range(avg as u64, 8 * avg as u64) as usize,
    }
    .clamp(avg, 8 * avg);
    ChunkerCfg::Rabin { avg, min, max }
}

fn gen_streams(rng: &mut Rng, chunker: &ChunkerCfg, tier: Tier) -> Vec<StreamSpec> {
    let (avg, min, max) = chunk_bounds(chunker);
    let rabin = !matches!(chunker, ChunkerCfg::Fixed { .. });
    let quick = tier == Tier::Quick;
    // enough for a few decisions even with the largest min sizes
    let budget: usize = (if quick { 900_000 } else { 4_000_000 }).max((3 * min).min(if quick { 2_600_000 } else { 12_000_000 }));
    // at most this many chunks per stream (tiny chunk sizes)
    let small_unit = if rabin { min.max(avg / 2).max(1) } else { avg.max(1) };
    let chunk_cap = 30_000usize.saturating_mul(small_unit);
    let long = (4 * max + 5).min((budget / 2).max(min + min / 2 + BUF).min(budget)).min(chunk_cap).max(200);
    let edge = |rng: &mut Rng| -> usize {
        let v = [
            0,
            1,
            WIN - 1,
            WIN,
            WIN + 1,
            min.saturating_sub(1),
            min,
            min + 1,
            min + WIN - 1,
            min + WIN,
            min + WIN + 1,
            max.saturating_sub(1),
            max,
            max + 1,
            BUF - 1,
            BUF,
            BUF + 1,
            min + BUF,
            max + min,
            2 * max,
            2 * max + 1,
            3 * max + 17,
            4 * max,
        ];
        (*rng.pick(&v)).min(long)
    };
    let kind = |rng: &mut Rng| -> StreamKind {
        if rabin {
            match rng.weighted(&[30, 4, 8, 10, 6, 8, 16, 18]) {
                0 => StreamKind::Random,
                1 => StreamKind::Zeros,
                2 => StreamKind::Const(*rng.pick(&[1u8, 0x55, 0xff, 0x80, 7])),
                3 => StreamKind::Periodic(*rng.pick(&[1usize, 2, 3, 63, 64, 65, 100, 4096, 5000])),
                4 => StreamKind::Text,
                5 => StreamKind::Islands,
                6 => StreamKind::Dense(*rng.pick(&[1usize, 3, 8, 17, 64, 100, 1000])),
                _ => StreamKind::Targeted,
            }
        } else {
            match rng.weighted(&[50, 10, 10, 15, 15]) {
                0 => StreamKind::Random,
                1 => StreamKind::Zeros,
                2 => StreamKind::Const(0xaa),
                3 => StreamKind::Periodic(*rng.pick(&[1usize, 7, 4096])),
                _ => StreamKind::Text,
            }
        }
    };
    let mut v = vec![];
    let mut left = budget;
    // one long stream of several chunks, one adversarial one
    let l0 = (long / 2 + rng.usize(long / 2 + 1)).min(left);
    v.push(StreamSpec { kind: StreamKind::Random, len: l0, seed: rng.next_u64() });
    left = left.saturating_sub(l0);
    if rabin {
        let l1 = (long / 3 + rng.usize(long / 3 + 1)).min(left);
        v.push(StreamSpec { kind: if rng.chance(1, 2) { StreamKind::Targeted } else { StreamKind::Dense(*rng.pick(&[1usize, 3, 8, 64])) }, len: l1, seed: rng.next_u64() });
        left = left.saturating_sub(l1);
    }
    let n = rng.range(5, 11) as usize;
    for _ in 0..n {
        let len = match rng.usize(3) {
            0 => edge(rng),
            1 => rng.range(0, long as u64) as usize,
            _ => (edge(rng) + rng.usize(3)).saturating_sub(1).min(long),
        };
        if len > left {
            continue;
        }
        left -= len;
        v.push(StreamSpec { kind: kind(rng), len, seed: rng.next_u64() });
    }
    v
}

fn gen_readers(rng: &mut Rng, chunker: &ChunkerCfg) -> Vec<ReaderSpec> {
    let (_, min, _) = chunk_bounds(chunker);
    let hint = |rng: &mut Rng| match rng.weighted(&[4, 4, 1, 1, 1, 1, 1]) {
        0 => Hint::Exact,
        1 => Hint::Zero,
        2 => Hint::Half,
        3 => Hint::One,
        4 => Hint::Plus1,
        5 => Hint::Double,
        _ => Hint::Max,
    };
    let frag_sizes = [2usize, 7, WIN - 1, WIN, WIN + 1, 512, BUF - 1, BUF, BUF + 1, 10_000, min.max(1), min + 1, min + 2, (min / 2).max(1)];
    let mut v = vec![
        // the fragmentation-free baseline (what a Cursor does)
        ReaderSpec::plain(Frag::Whole, Hint::Exact),
        ReaderSpec::plain(Frag::Cap(1), hint(rng)),
        ReaderSpec::plain(Frag::Whole, hint(rng)),
    ];
    v.push(ReaderSpec::plain(Frag::Cap(*rng.pick(&frag_sizes)), hint(rng)));
    v.push(ReaderSpec { seed: rng.next_u64(), ..ReaderSpec::plain(Frag::Seeded(*rng.pick(&frag_sizes)), hint(rng)) });
    // short reads that never leave more than min bytes in the read-ahead buffer
    v.push(ReaderSpec { seed: rng.next_u64(), ..ReaderSpec::plain(Frag::Seeded((min + 1).min(BUF).max(1)), hint(rng)) });
    // EINTR
    v.push(ReaderSpec { eintr_every: rng.range(1, 3) as usize, eintr_burst: rng.range(1, 3) as usize, seed: rng.next_u64(), ..ReaderSpec::plain(Frag::Whole, hint(rng)) });
    v.push(ReaderSpec {
        eintr_every: rng.range(1, 40) as usize,
        eintr_burst: rng.range(1, 4) as usize,
        seed: rng.next_u64(),
        ..ReaderSpec::plain(if rng.chance(1, 2) { Frag::Seeded(*rng.pick(&frag_sizes)) } else { Frag::Cap((min + 1).min(BUF).max(1)) }, hint(rng))
    });
    // hard errors
    let err = |rng: &mut Rng| match rng.usize(6) {
        0 => ErrAt::Start,
        1 => ErrAt::End,
        2 => ErrAt::Abs(*rng.pick(&[min.saturating_sub(1), min, min + 1, BUF, min + BUF, 1])),
        _ => ErrAt::Mod(rng.next_u64()),
    };
    v.push(ReaderSpec { err: Some(err(rng)), seed: rng.next_u64(), ..ReaderSpec::plain(Frag::Whole, hint(rng)) });
    v.push(ReaderSpec {
        err: Some(err(rng)),
        eintr_every: *rng.pick(&[0usize, 0, 5]),
        eintr_burst: 1,
        seed: rng.next_u64(),
        ..ReaderSpec::plain(Frag::Seeded((min + 1).min(BUF).max(1)), hint(rng))
    });
    v
}

// ---------------------------------------------------------------------------------------------

type E2eFile = (PathKey, u64, Vec<(String, Option<usize>)>);

impl Prop for C06 {
    fn id(&self) -> &'static str {
        "C06"
    }
    fn scheduled(&self) -> bool {
        // only the end-to-end subset runs library threads; they run FIFO-serialised (Mode::Free)
        true
    }
    fn runs(&self, tier: Tier) -> u64 {
        match tier {
            Tier::Quick => 4500,
            Tier::Thorough => 30000,
        }
    }
    fn rule(&self) -> &'static str {
        "one run = one chunker parameter set accepted by ConfigOptions::apply (polynomial: seeded irreducible degree-53 or restic's fixed one; rabin avg 2^k, k in 0..=20 (mostly 12..=20: smaller averages force min < 4096, which is refused), min in 4096..=avg incl. 4096+63..65, avg/2, avg-1, avg and rarely 0/1/63/64/65/<4096 (refused), max in avg..=8*avg, library default; \
         fixed size 0..=2 MiB incl. 1, primes, 4095/4096/4097; rarely rabin avg 0, whose parameter-check panic is only counted) x 3-14 seeded streams (lengths 0, 1, 63..65, min-1..min+65, max-1..max+1, 4095..4097, 2*max, up to 4*max+5 under a byte budget; kinds random, zeros, constant, periodic, text, zero-with-islands, \
         boundary-dense = fingerprint zero forced every 1..1000 bytes by solving for the window's last bytes, targeted = fingerprint zeros placed at min-1/min/min+1/min+63..65/max-1 from the previous ideal cut) x 10 reader behaviours through verif::chunk_iter \
         (whole reads = Cursor baseline, 1-byte reads, capped reads, seeded short reads, Interrupted bursts every n-th read incl. at the first read and at refills/EOF probes, sticky hard error at a seeded offset; size hint 0/exact/half/1/+1/double/usize::MAX). \
         Checked per returned list: concatenation == stream, min <= len <= max for all but the last chunk (fixed: == size), every cut below max is at a position whose last 64 bytes have reference fingerprint & (avg-1) == 0 and no earlier length in [max(min,64), cut) has it \
         (reference = non-rolling table evaluation of the GF(2) remainder, cross-checked against gf2::poly_of_bytes_mod), all lists of one (stream, params) identical over reader behaviours, hard read error => an Err item, never a list that ends normally; \
         chunking the tail that starts at a cut reproduces the remaining cuts; A.S and B.S agree on all cuts inside S after their first common cut; panics are caught and reported with the parameter class; a quarter of the runs archive up to 3 of the streams through \
         Repository::archive on a SimStore and compare the file nodes' content ids (SHA-256 of the hook's chunks) and the index lengths. evaluations = (stream, params, reader) cases + restart + pair + end-to-end file checks; \
         non-trivial = a case whose stream was split into >= 2 chunks or whose injected read error was delivered; distinct = hash(params, stream spec, reader spec)"
    }
    fn assumptions(&self) -> Vec<&'static str> {
        vec![
            "the window of the rolling hash is 64 bytes (Rabin64::new_with_polynom(6, ..) in chunker.rs); cut decisions at chunk lengths below 64 are not judged",
            "polynomials are irreducible of degree 53 as produced by random_poly (the library's own random_poly is crate-private; the same construction is used with the simulator's generator)",
            "an Err as the very first item of a reader without injected error counts as a refusal of the parameters, not as a violation",
            "overflow checks are on for rustic_core (dev profile): arithmetic underflow shows up as a panic, not as a wrapped value",
        ]
    }

    fn generate(&self, subseed: u64, tier: Tier) -> Value {
        let mut rng = Rng::new(subseed);
        let chunker = if rng.chance(1, 40) { ChunkerCfg::Default } else { gen_chunker(&mut rng) };
        let poly = if rng.chance(1, 5) { FIXED_POLY } else { gf2::random_poly(&mut rng) };
        let streams = if matches!(chunker, ChunkerCfg::Default) {
            // needs streams longer than 512 KiB to take a single decision: two of them
            let cap = if tier == Tier::Quick { 1_300_000 } else { 9_000_000 };
            vec![
                StreamSpec { kind: StreamKind::Random, len: rng.range(600_000, cap) as usize, seed: rng.next_u64() },
                StreamSpec { kind: StreamKind::Targeted, len: rng.range(530_000, cap) as usize, seed: rng.next_u64() },
                StreamSpec { kind: StreamKind::Random, len: *rng.pick(&[0usize, 1, 524_287, 524_288, 524_289]), seed: rng.next_u64() },
            ]
        } else {
            gen_streams(&mut rng, &chunker, tier)
        };
        let readers = gen_readers(&mut rng, &chunker);
        let e2e = rng.chance(1, 4).then(|| (*rng.pick(&[0usize, 0, 1, 100, BUF, BUF + 1, 100_000]), *rng.pick(&[0usize, 0, 3])));
        let version = if rng.chance(1, 4) { 1 } else { 2 };
        let spec = Spec {
            pool: *rng.pick(&[1usize, 2]),
            subseed,
            start_s: common::BASE_TIME_S + rng.range(0, 400 * 86400) as i64,
            poly,
            chunker,
            version,
            compression: if version == 1 { None } else { *rng.pick(&[None, Some(0), Some(1)]) },
            streams,
            readers,
            pairs: 3,
            restarts: 2,
            e2e,
        };
        serde_json::to_value(spec).unwrap()
    }

    fn shrink(&self, spec: &Value) -> Vec<Value> {
        let s: Spec = serde_json::from_value(spec.clone()).unwrap();
        let mut out = vec![];
        let push = |out: &mut Vec<Value>, s: Spec| out.push(serde_json::to_value(s).unwrap());
        // a single stream, nothing else
        if s.streams.len() > 1 {
            for i in 0..s.streams.len() {
                let mut c = s.clone();
                c.streams = vec![s.streams[i].clone()];
                push(&mut out, c);
            }
        }
        if s.e2e.is_some() {
            let mut c = s.clone();
            c.e2e = None;
            push(&mut out, c);
        }
        if s.pairs > 0 {
            let mut c = s.clone();
            c.pairs = 0;
            push(&mut out, c);
        }
        if s.restarts > 0 {
            let mut c = s.clone();
            c.restarts = 0;
            push(&mut out, c);
        }
        // a single reader, or the baseline plus one reader
        if s.readers.len() > 1 {
            for j in 0..s.readers.len() {
                let mut c = s.clone();
                c.readers = vec![s.readers[j].clone()];
                push(&mut out, c);
            }
        }
        if s.readers.len() > 2 {
            for j in 1..s.readers.len() {
                let mut c = s.clone();
                c.readers = vec![s.readers[0].clone(), s.readers[j].clone()];
                push(&mut out, c);
            }
        }
        // shorter streams
        if s.streams.len() == 1 {
            let l = s.streams[0].len;
            for nl in [l / 2, l - l / 4, l - l / 8, l - l / 16] {
                if nl < l {
                    let mut c = s.clone();
                    c.streams[0].len = nl;
                    push(&mut out, c);
                }
            }
            for r in 0..s.readers.len() {
                if s.readers[r].hint != Hint::Exact || s.readers[r].eintr_every != 0 {
                    let mut c = s.clone();
                    c.readers[r].hint = Hint::Exact;
                    c.readers[r].eintr_every = 0;
                    push(&mut out, c);
                }
            }
        }
        out
    }

    fn exec(&self, spec: &Value, env: &Env) -> Report {
        let s: Spec = serde_json::from_value(spec.clone()).expect("spec");
        let mut rep = Report::default();
        common::run_setup(s.subseed, s.start_s);
        let _ = common::take_panics();
        let key = KeyMat::from_seed(s.subseed);
        let cfg = RepoCfg { version: s.version, compression: s.compression, chunker: s.chunker.clone(), ..RepoCfg::default() };
        let pclass = param_class(&s.chunker);
        let kind = kind_of(&s.chunker);
        rep.evaluations = 1;

        // the config file, validated by the library's own ConfigOptions::apply
        let made = std::panic::catch_unwind(std::panic::AssertUnwindSafe(|| config_for(&key, &cfg)));
        let mut config = match made {
            Ok(Ok(c)) => c,
            Ok(Err(e)) => {
                rep.fire("parameters-refused-by-apply", 1);
                rep.sample = json!({"skipped": "parameters refused by ConfigOptions::apply", "chunker": format!("{:?}", s.chunker), "error": classify(&etext(&e))});
                rep.trace_hash = hash64(&[b"refused"]);
                return rep;
            }
            Err(_) => {
                // a panic of the parameter check is C18's business; recorded, not judged here
                let p = common::take_panics();
                rep.fire("parameter-check-panicked", 1);
                rep.sample = json!({"skipped": "ConfigOptions::apply panicked", "chunker": format!("{:?}", s.chunker), "panic": p.first().map(|x| short_loc(x))});
                rep.trace_hash = hash64(&[b"apply-panic"]);
                return rep;
            }
        };
        config.chunker_polynomial = format!("{:x}", s.poly);

        let (avg, min, max) = chunk_bounds(&s.chunker);
        let fp = (kind == "rabin").then(|| Fp::new(s.poly, avg));
        if let Some(fp) = &fp {
            // the table evaluation agrees with the bit-by-bit remainder
            let mut r = Rng::new(s.subseed ^ 0xf1);
            for _ in 0..3 {
                let w = r.bytes(WIN);
                if fp.f(&w) != gf2::poly_of_bytes_mod(&w, s.poly) {
                    rep.harness_errors.push("reference fingerprint tables disagree with gf2::poly_of_bytes_mod".into());
                    return rep;
                }
            }
        }

        let mut digest: Vec<u64> = vec![];
        let mut evaluations = 0u64;
        let params_tag = format!("{:?}/{:x}", s.chunker, s.poly);
        let viol = |rep: &mut Report, fp: String, detail: String| {
            if !rep.violations.iter().any(|v| v.fingerprint == fp) {
                rep.violation(fp, detail);
            }
        };
        let mut samples = vec![];
        // per stream: data and the list every reader agreed on (for pairs, restarts and e2e)
        let mut agreed: Vec<(Vec<u8>, Option<(usize, Vec<usize>)>)> = vec![];

        for (si, sp) in s.streams.iter().enumerate() {
            let data = make_stream(sp, fp.as_ref(), &s.chunker);
            let mut z: Option<Vec<bool>> = None;
            let mut reference: Option<(usize, Vec<usize>)> = None;
            let mut verified: BTreeSet<u64> = BTreeSet::new();
            for (ri, r) in s.readers.iter().enumerate() {
                let (out, st) = run_case(&config, &data, r);
                evaluations += 1;
                rep.fire("interrupted_reads", st.eintr);
                rep.fire("short_reads", st.short_reads);
                rep.fire("hard_read_error_delivered", u64::from(st.err_delivered));
                let ctx = format!("params {params_tag}, stream #{si} {:?} of {} bytes (seed {}), reader #{ri} {}", sp.kind, sp.len, sp.seed, r.label());
                let case_hash = hash64(&[params_tag.as_bytes(), format!("{sp:?}").as_bytes(), format!("{r:?}").as_bytes()]);
                match &out {
                    Outcome::Refused(t) => {
                        rep.fire("refused-at-iterator-creation", 1);
                        digest.push(hash64(&[b"refused", classify(t).as_bytes()]));
                    }
                    Outcome::Panic(p) => {
                        rep.fire("panic", 1);
                        digest.push(hash64(&[b"panic", classify(&short_loc(p)).as_bytes()]));
                        viol(&mut rep, format!("C06/panic:{}:{pclass}", classify(&short_loc(p))), format!("{}; {ctx}", short_loc(p)));
                    }
                    Outcome::Runaway(w) => {
                        digest.push(hash64(&[b"runaway"]));
                        viol(&mut rep, format!("C06/does-not-terminate:{kind}"), format!("{w}; {ctx}"));
                    }
                    Outcome::Err { chunks, text } => {
                        digest.push(hash64(&[b"err", &(*chunks as u64).to_le_bytes(), classify(text).as_bytes()]));
                        if st.err_delivered {
                            rep.fire("hard_read_error=>Err", 1);
                            rep.nontrivial.push(case_hash);
                        } else if *chunks == 0 && reference.is_none() {
                            rep.fire("error-as-first-item-without-injected-error(counted as refusal)", 1);
                        } else {
                            viol(&mut rep, format!("C06/error-without-read-error:{kind}"), format!("after {chunks} chunks: {}; {ctx}", text.lines().next().unwrap_or("")));
                        }
                    }
                    Outcome::List { lens, bad_content } => {
                        let lh = hash64(&[&lens.iter().flat_map(|l| (*l as u64).to_le_bytes()).collect::<Vec<u8>>()]);
                        digest.push(lh);
                        if st.err_delivered {
                            viol(
                                &mut rep,
                                format!("C06/read-error-swallowed:{kind}"),
                                format!("the reader failed with a hard error but the iterator ended normally with {}; {ctx}", show_lens(lens)),
                            );
                            continue;
                        }
                        if lens.len() >= 2 {
                            rep.nontrivial.push(case_hash);
                        }
                        rep.fire("empty_chunk_returned", lens.iter().filter(|l| **l == 0).count() as u64);
                        if let Some(i) = bad_content {
                            let fpr = if pclass == "fixed-size-zero" { "C06/lossy:fixed-size-zero".to_string() } else { format!("C06/lossy:{kind}") };
                            viol(
                                &mut rep,
                                fpr,
                                format!("concatenation of the chunks is not the stream: first difference in chunk {i}; chunks {} cover {} of {} bytes; {ctx}", show_lens(lens), lens.iter().sum::<usize>(), data.len()),
                            );
                        }
                        if verified.insert(lh) {
                            if z.is_none() {
                                z = fp.as_ref().map(|f| f.zeros(&data));
                                // control: the list the statement prescribes passes the oracle
                                if let (Some(z), true) = (&z, min >= WIN && max >= 1) {
                                    let ideal = ideal_list(min, max, data.len(), z);
                                    let bad = verify_list(&s.chunker, &data, &ideal, Some(z), None);
                                    if !bad.is_empty() || ideal.iter().sum::<usize>() != data.len() {
                                        rep.harness_errors.push(format!("control failed: the ideal chunk list does not pass verify_list: {bad:?}; params {params_tag}, stream #{si}"));
                                    }
                                }
                            }
                            for (f, d) in verify_list(&s.chunker, &data, lens, z.as_deref(), fp.as_ref()) {
                                viol(&mut rep, f, format!("{d}; {ctx}"));
                            }
                        }
                        match &reference {
                            None => reference = Some((ri, lens.clone())),
                            Some((r0, l0)) => {
                                if l0 != lens {
                                    viol(
                                        &mut rep,
                                        format!("C06/chunk-list-depends-on-read-fragmentation:{kind}"),
                                        format!("reader #{r0} {} gives {}, this reader gives {}; {ctx}", s.readers[*r0].label(), show_lens(l0), show_lens(lens)),
                                    );
                                }
                            }
                        }
                    }
                }
                if samples.len() < 4 && ri == 0 {
                    samples.push(json!({"stream": format!("{:?} x {}", sp.kind, sp.len), "baseline": match &out { Outcome::List { lens, .. } => show_lens(lens), o => format!("{o:?}").chars().take(120).collect() }}));
                }
            }

            // restart locality: the tail that starts at a cut is cut like the rest of the stream
            if let Some((r0, lens)) = &reference {
                let cuts = cuts_of(lens);
                let mut rr = Rng::new(sp.seed ^ 0x7e57);
                for _ in 0..s.restarts {
                    if lens.len() < 3 {
                        break;
                    }
                    let i = rr.usize(lens.len() - 1);
                    let c = cuts[i];
                    let (out, _) = run_case(&config, &data[c..], &ReaderSpec { err: None, ..s.readers[*r0].clone() });
                    evaluations += 1;
                    if let Outcome::List { lens: tail, .. } = &out {
                        digest.push(hash64(&[b"restart", &(tail.len() as u64).to_le_bytes()]));
                        if tail[..] != lens[i + 1..] {
                            viol(
                                &mut rep,
                                format!("C06/cuts-depend-on-bytes-before-previous-cut:{kind}"),
                                format!(
                                    "chunking the tail that starts at cut {c} gives {}, the whole stream continues with {}; params {params_tag}, stream #{si} {:?} of {} bytes (seed {}), reader {}",
                                    show_lens(tail),
                                    show_lens(&lens[i + 1..]),
                                    sp.kind,
                                    sp.len,
                                    sp.seed,
                                    s.readers[*r0].label()
                                ),
                            );
                        }
                    } else {
                        rep.fire("restart-check-without-list", 1);
                    }
                }
            }
            agreed.push((data, reference));
        }

        // suffix locality: A.S and B.S agree on the cuts inside S after their first common cut
        let mut pr = Rng::new(s.subseed ^ 0x5ff1);
        for _ in 0..s.pairs {
            let cands: Vec<usize> = agreed.iter().enumerate().filter(|(_, (d, r))| d.len() > 2 * min.max(1) && r.as_ref().is_some_and(|x| x.1.len() >= 3)).map(|(i, _)| i).collect();
            if cands.is_empty() {
                break;
            }
            let si = *pr.pick(&cands);
            let (sdata, reference) = &agreed[si];
            let r0 = reference.as_ref().unwrap().0;
            let reader = ReaderSpec { err: None, ..s.readers[r0].clone() };
            let unit = max.max(1);
            let la = pr.range(1, (2 * unit).min(200_000) as u64) as usize;
            let lb = if kind == "fixed" && pr.chance(1, 2) {
                // same phase: a common cut exists
                la + unit * pr.range(0, 2) as usize
            } else {
                pr.range(0, (2 * unit).min(200_000) as u64) as usize
            };
            let mut a = pr.bytes(la);
            let mut b = pr.bytes(lb);
            a.extend_from_slice(sdata);
            b.extend_from_slice(sdata);
            let (oa, _) = run_case(&config, &a, &reader);
            let (ob, _) = run_case(&config, &b, &reader);
            evaluations += 2;
            if let (Outcome::List { lens: xa, .. }, Outcome::List { lens: xb, .. }) = (&oa, &ob) {
                // cuts in coordinates of S (the end of the stream is a cut of both: excluded)
                let ca: Vec<usize> = cuts_of(xa).into_iter().filter(|c| *c >= la && *c < a.len()).map(|c| c - la).collect();
                let cb: Vec<usize> = cuts_of(xb).into_iter().filter(|c| *c >= lb && *c < b.len()).map(|c| c - lb).collect();
                let sb: BTreeSet<usize> = cb.iter().copied().collect();
                digest.push(hash64(&[b"pair", &(ca.len() as u64).to_le_bytes(), &(cb.len() as u64).to_le_bytes()]));
                if let Some(first) = ca.iter().copied().find(|c| sb.contains(c)) {
                    let ta: Vec<usize> = ca.iter().copied().filter(|c| *c >= first).collect();
                    let tb: Vec<usize> = cb.iter().copied().filter(|c| *c >= first).collect();
                    if ta.len() >= 2 {
                        rep.nontrivial.push(hash64(&[params_tag.as_bytes(), b"pair", &(la as u64).to_le_bytes(), &(lb as u64).to_le_bytes(), &s.streams[si].seed.to_le_bytes()]));
                    }
                    rep.fire("suffix-pairs-with-common-cut", 1);
                    if ta != tb {
                        let d = ta.iter().zip(tb.iter()).position(|(x, y)| x != y).unwrap_or(ta.len().min(tb.len()));
                        viol(
                            &mut rep,
                            format!("C06/suffix-cuts-differ-after-common-cut:{kind}"),
                            format!(
                                "A.S (|A|={la}) and B.S (|B|={lb}) share the cut at offset {first} of S but differ afterwards: cut #{d} after it is {:?} vs {:?}; params {params_tag}, S = stream #{si} {:?} of {} bytes (seed {}), reader {}",
                                ta.get(d),
                                tb.get(d),
                                s.streams[si].kind,
                                s.streams[si].len,
                                s.streams[si].seed,
                                reader.label()
                            ),
                        );
                    }
                } else {
                    rep.fire("suffix-pairs-without-common-cut", 1);
                }
            } else {
                rep.fire("suffix-pair-without-list", 1);
            }
        }

        // end to end: archive the streams and read the chunk lists back from the file nodes
        if let Some((cap, eintr)) = s.e2e {
            let mut sim = Sim::new(s.subseed, cfg.clone(), &env.cpus, "c06");
            let mut model = FsModel::default();
            let mut mr = Rng::new(s.subseed ^ 0xe2e);
            let mut files: Vec<(PathKey, usize)> = vec![];
            for (i, (data, _)) in agreed.iter().enumerate() {
                if files.len() >= 3 || data.len() > 400_000 {
                    continue;
                }
                let key_p: PathKey = vec![format!("f{i}").into_bytes()];
                let mut e = default_entry(&mut mr, Kind::File(Arc::new(data.clone())), s.start_s);
                e.inode = 1000 + i as u64;
                let _ = model.entries.insert(key_p.clone(), e);
                files.push((key_p, i));
            }
            // what the hook gives for the reader behaviour the source will show
            let reader = ReaderSpec { eintr_every: eintr, eintr_burst: usize::from(eintr > 0), ..ReaderSpec::plain(if cap == 0 { Frag::Whole } else { Frag::Cap(cap) }, Hint::Exact) };
            let mut expect: Vec<Option<Vec<(String, usize)>>> = vec![];
            for (_, i) in &files {
                let data = &agreed[*i].0;
                let (out, _) = run_case(&config, data, &reader);
                expect.push(match out {
                    Outcome::List { lens, bad_content: None } => {
                        let mut off = 0;
                        Some(
                            lens.iter()
                                .map(|l| {
                                    let id = hex::encode(sha256(&data[off..off + l]));
                                    off += l;
                                    (id, *l)
                                })
                                .collect(),
                        )
                    }
                    _ => None,
                });
            }
            let plan = ReadPlan { frag: if cap == 0 { vec![] } else { vec![cap] }, eintr_every: eintr, gate_reads_every: 0 };
            let (store, keym, sched, model2, config2, seed) = (sim.store.clone(), sim.key.clone(), sim.sched.clone(), model.clone(), config.clone(), s.subseed);
            let r: Cmd<Result<Vec<E2eFile>, String>> = sim.run(&Mode::Free, move || {
                let repo = repo_on(store.handle(1), None, None)?.init_with_config(&keym.creds(), &KeyOptions::default(), config2)?;
                let repo = repo.to_indexed_ids()?;
                let snap = backup_model(&repo, &model2, &sched, 1, &plan, seed, &BackupOptions::default(), "c06")?.snap;
                let ro = repo_open(&store, 9, &keym)?.to_indexed()?;
                let listed = match list_snapshot(&ro, &snap) {
                    Ok(v) => v,
                    Err((w, e)) => return Ok(Err(format!("{w}: {e}"))),
                };
                let mut v: Vec<E2eFile> = vec![];
                for (path, node) in &listed {
                    if !node.is_file() {
                        continue;
                    }
                    let mut content = vec![];
                    for id in node.content.clone().unwrap_or_default() {
                        let got = ro.verif_index_get(BlobType::Data, &id);
                        content.push((id_hex(&id), got.map(|(_, _, length, raw)| raw.map_or((length as usize).saturating_sub(32), |x| x as usize))));
                    }
                    v.push((key_of(path), node.meta.size, content));
                }
                Ok(Ok(v))
            });
            let hook_ok = expect.iter().all(Option::is_some);
            let ctx = format!("params {params_tag}, read cap {cap}, EINTR every {eintr}, files {:?}", files.iter().map(|(_, i)| format!("{:?} x {}", s.streams[*i].kind, s.streams[*i].len)).collect::<Vec<_>>());
            match r {
                Cmd::Ok(Ok(got)) => {
                    for ((key_p, i), exp) in files.iter().zip(expect.iter()) {
                        evaluations += 1;
                        let Some((_, size, content)) = got.iter().find(|g| &g.0 == key_p) else {
                            viol(&mut rep, "C06/e2e-file-missing-in-snapshot".into(), format!("file f{i} is not listed; {ctx}"));
                            continue;
                        };
                        digest.push(hash64(&[b"e2e", &(content.len() as u64).to_le_bytes()]));
                        let fdata = &agreed[*i].0;
                        let data_len = fdata.len();
                        // independent of the hook: the blobs named by the node, in order, are the stream
                        let mut off = 0usize;
                        let mut lossless = true;
                        for (id, l) in content {
                            match l {
                                Some(l) if off + l <= data_len && &hex::encode(sha256(&fdata[off..off + l])) == id => off += l,
                                _ => {
                                    lossless = false;
                                    break;
                                }
                            }
                        }
                        if !lossless || off != data_len {
                            viol(
                                &mut rep,
                                format!("C06/e2e-lossy:{pclass}"),
                                format!("file f{i} ({data_len} bytes, node size {size}): the {} blobs named by the node (lengths from the index) reproduce only the first {off} bytes of the stream; {ctx}", content.len()),
                            );
                            continue;
                        }
                        let Some(exp) = exp else {
                            rep.fire("e2e-archive-succeeded-where-hook-did-not", 1);
                            continue;
                        };
                        let ids_got: Vec<&String> = content.iter().map(|c| &c.0).collect();
                        let ids_exp: Vec<&String> = exp.iter().map(|c| &c.0).collect();
                        if ids_got != ids_exp || *size != data_len as u64 {
                            viol(
                                &mut rep,
                                "C06/e2e-chunk-list-differs-from-hook".into(),
                                format!("file f{i} ({data_len} bytes): node size {size}, {} content ids, the chunk iterator gives {} chunks {}; {ctx}", ids_got.len(), ids_exp.len(), show_lens(&exp.iter().map(|c| c.1).collect::<Vec<_>>())),
                            );
                        } else if let Some(k) = content.iter().zip(exp.iter()).position(|(g, e)| g.1 != Some(e.1)) {
                            viol(
                                &mut rep,
                                "C06/e2e-index-length-differs-from-chunk".into(),
                                format!("file f{i}: content id #{k} has index length {:?}, the chunk has {} bytes; {ctx}", content[k].1, exp[k].1),
                            );
                        } else if exp.len() >= 2 {
                            rep.nontrivial.push(hash64(&[params_tag.as_bytes(), b"e2e", &s.streams[*i].seed.to_le_bytes(), &(cap as u64).to_le_bytes()]));
                        }
                    }
                }
                other => {
                    evaluations += 1;
                    let (class, detail) = match &other {
                        Cmd::Ok(Err(e)) => (format!("listing:{}", classify(e)), e.clone()),
                        o => (o.class(), o.detail()),
                    };
                    digest.push(hash64(&[b"e2e-fail", class.as_bytes()]));
                    if hook_ok {
                        viol(&mut rep, format!("C06/e2e-archive-failed:{class}"), format!("{}; the chunk iterator alone handles every file; {ctx}", short_loc(&detail)));
                    } else {
                        // same failure as through the hook (reported there)
                        rep.fire("e2e-archive-failed-like-the-hook", 1);
                    }
                }
            }
            sim.finish_report(&mut rep);
        }

        rep.evaluations = evaluations.max(1);
        rep.nontrivial.sort_unstable();
        rep.nontrivial.dedup();
        rep.trace_hash = hash64(&[&digest.iter().flat_map(|d| d.to_le_bytes()).collect::<Vec<u8>>()]);
        rep.sample = json!({
            "chunker": format!("{:?}", s.chunker), "class": pclass, "polynomial": format!("{:x}", s.poly),
            "streams": s.streams.iter().map(|x| format!("{:?} x {}", x.kind, x.len)).collect::<Vec<_>>(),
            "readers": s.readers.iter().map(ReaderSpec::label).collect::<Vec<_>>(),
            "baselines": samples, "e2e": s.e2e, "pairs": s.pairs, "restarts": s.restarts,
        });
        rep
    }
}
