//! C07 Identical content is stored once; unchanged data adds nothing.

use std::collections::{BTreeMap, BTreeSet};
use std::sync::Arc;

use rustic_core::repofile::{BlobType, ConfigFile};
use rustic_core::{BackupOptions, FileType, Id, ParentOptions};
use serde::{Deserialize, Serialize};
use serde_json::{Value, json};

use crate::audit::{StoreView, decode_file, hash_id, id_hex, parse_pack};
use crate::common;
use crate::harness::{Env, Prop, Report, Tier};
use crate::interpose;
use crate::model::{FsModel, GenParams, Kind, PathKey, ReadPlan, default_entry, edit_model, show_key};
use crate::props::c01::build_model_min;
use crate::rng::{Rng, hash64};
use crate::sim::{Cmd, Sim};
use crate::store::{OpKind, files_digest};
use crate::world::{ChunkerCfg, RepoCfg};

pub struct C07;

#[derive(Clone, Debug, Serialize, Deserialize)]
pub struct Spec {
    pub pool: usize,
    pub subseed: u64,
    pub cfg: RepoCfg,
    pub gen: GenParams,
    pub model_seed: u64,
    pub steps: usize,
    pub scheduled: bool,
    pub start_s: i64,
}

/// chunk ids of `data` under the repository config, through the library's own chunk iterator
fn chunk_ids(config: &ConfigFile, data: &[u8]) -> Result<Vec<(Id, usize)>, String> {
    let it = rustic_core::verif::chunk_iter(config, std::io::Cursor::new(data.to_vec()), data.len()).map_err(|e| e.display_log())?;
    let mut v = vec![];
    for c in it {
        let c = c.map_err(|e| e.display_log())?;
        v.push((hash_id(&c), c.len()));
    }
    Ok(v)
}

impl Prop for C07 {
    fn id(&self) -> &'static str {
        "C07"
    }
    fn scheduled(&self) -> bool {
        true
    }
    fn runs(&self, tier: Tier) -> u64 {
        match tier {
            Tier::Quick => 2400,
            Tier::Thorough => 20000,
        }
    }
    fn rule(&self) -> &'static str {
        "one run = backup(M0), then 3-6 steps of {unchanged re-backup | edit script (insert/delete/overwrite/prepend 1..10000 bytes inside files of 20-60 average chunks, duplicate a file, move/rename, add, remove, tree-colliding content) then backup}, with and without parent, every backup through a fresh handle (index reloaded), optionally under a seeded schedule. \
         Oracles per backup: I = typed blobs indexed in unmarked packs before the run; N = data chunks of the current source by the library's chunk iterator on the model bytes; the data blobs in packs written by the run (parsed independently from the op log) must be exactly N \\ I as a set (multiplicity > 1 inside one run is counted, not flagged), \
         no tree blob already in I is written again; unchanged re-backup: zero pack writes, same tree id, data_added = 0; for an insert/delete inside a random-content file with >= 16 chunks behind the edit (Rabin, max >= 4*avg) at least one later chunk is re-used. \
         evaluations = backups checked; non-trivial = a step that uploaded some but not all chunks of an edited file; distinct = hash(history, config)"
    }
    fn assumptions(&self) -> Vec<&'static str> {
        vec![
            "the expected chunk set is computed with the library's own chunk iterator (C06 checks the chunker itself)",
            "the 'some later chunk is re-used' clause is asserted only for random content, Rabin chunker, max >= 4*avg, >= 16 chunks behind the edit (with max = 2*avg a third of the cuts are forced and a run of 13 non-resynchronising chunks has probability ~0.4%: observed, not a defect)",
        ]
    }

    fn generate(&self, subseed: u64, _tier: Tier) -> Value {
        let mut rng = Rng::new(subseed);
        let mut cfg = RepoCfg::gen_small(&mut rng);
        if cfg.compression.is_some_and(|c| c > 3) {
            cfg.compression = Some(1);
        }
        // mostly content-defined chunking with small average so that files have many chunks
        if rng.chance(3, 4) {
            cfg.chunker = ChunkerCfg::Rabin { avg: 4096, min: 4096, max: 4096 * *rng.pick(&[2usize, 4, 8]) };
        }
        let mut genp = GenParams::default();
        genp.max_entries = 6;
        genp.max_file = 250_000;
        genp.total_cap = 600_000;
        genp.special = false;
        genp.sizes_of_interest = vec![4096 * 30, 4096 * 50];
        let spec = Spec { pool: *rng.pick(&[1usize, 2, 3]), subseed, cfg, gen: genp, model_seed: rng.next_u64(), steps: rng.range(3, 6) as usize, scheduled: rng.chance(1, 4), start_s: common::BASE_TIME_S + rng.range(0, 400 * 86400) as i64 };
        serde_json::to_value(spec).unwrap()
    }

    fn shrink(&self, spec: &Value) -> Vec<Value> {
        let s: Spec = serde_json::from_value(spec.clone()).unwrap();
        let mut out = vec![];
        if s.steps > 1 {
            let mut c = s.clone();
            c.steps -= 1;
            out.push(serde_json::to_value(c).unwrap());
        }
        if s.scheduled {
            let mut c = s.clone();
            c.scheduled = false;
            out.push(serde_json::to_value(c).unwrap());
        }
        out
    }

    #[allow(clippy::too_many_lines)]
    fn exec(&self, spec: &Value, env: &Env) -> Report {
        let s: Spec = serde_json::from_value(spec.clone()).expect("spec");
        let mut rep = Report::default();
        common::run_setup(s.subseed, s.start_s);
        let mut rng = Rng::new(s.subseed ^ 0xc07);
        let mut sim = Sim::new(s.subseed, s.cfg.clone(), &env.cpus, "c07");
        if let Cmd::Err(e) = sim.init() {
            rep.sample = json!({"skipped": "configuration refused by init", "error": e});
            rep.evaluations = 1;
            return rep;
        }
        let key = sim.key.aead_key();
        let config: ConfigFile = match sim.store.get(FileType::Config, &Id::default()).and_then(|b| decode_file(&key, &b).ok()).and_then(|j| serde_json::from_slice(&j).ok()) {
            Some(c) => c,
            None => {
                rep.harness_errors.push("cannot decode stored config".into());
                return rep;
            }
        };
        let plan = ReadPlan { frag: vec![0, 4097, 1000], eintr_every: 0, gate_reads_every: 0 };
        let mut model = build_model_min(&s.gen, s.model_seed, &[], s.start_s, 2);
        // one big random file so that insert/delete steps have something to cut
        let nbig = 4096 * rng.range(20, 60) as usize;
        let big = rng.bytes(nbig);
        let mut e = default_entry(&mut rng, Kind::File(Arc::new(big)), s.start_s);
        e.inode = 77;
        let big_key: PathKey = vec![b"big.bin".to_vec()];
        let _ = model.entries.insert(big_key.clone(), e);

        let mut hist = vec![];
        let mut evaluations = 0u64;
        let mut prev_tree: Option<String> = None;
        let mut interesting = false;
        for step in 0..=s.steps {
            // ---------- choose the step
            let unchanged = step > 0 && rng.chance(1, 4);
            let mut edit_info: Option<(usize, usize)> = None; // (offset of the edit in big.bin, old chunk count behind it)
            let old_big_chunks = match &model.entries.get(&big_key).map(|e| &e.kind) {
                Some(Kind::File(b)) => chunk_ids(&config, b).unwrap_or_default(),
                _ => vec![],
            };
            if step > 0 && !unchanged {
                let now = interpose::clock_now() / 1_000_000_000;
                if rng.chance(1, 2) && model.entries.contains_key(&big_key) {
                    // insert or delete inside the big file
                    if let Some(en) = model.entries.get_mut(&big_key) {
                        if let Kind::File(b) = &en.kind {
                            let mut v = (**b).clone();
                            let pos = rng.usize(v.len() / 2 + 1);
                            if rng.chance(1, 2) {
                                let ins = rng.bytes_range(1, 10_000);
                                let _ = v.splice(pos..pos, ins);
                                hist.push(format!("insert into big.bin @{pos}"));
                            } else {
                                let end = (pos + rng.range(1, 10_000) as usize).min(v.len());
                                let _ = v.drain(pos..end);
                                hist.push(format!("delete from big.bin @{pos}"));
                            }
                            let behind = {
                                let mut off = 0;
                                old_big_chunks.iter().filter(|(_, l)| { let st = off; off += l; st > pos + 10_000 }).count()
                            };
                            edit_info = Some((pos, behind));
                            en.kind = Kind::File(Arc::new(v));
                            en.mtime = (now, 5);
                            en.ctime = en.mtime;
                        }
                    }
                } else {
                    let st = edit_model(&mut rng, &mut model, &s.gen, now, 3);
                    hist.push(format!("edits {:?}", st.edits));
                }
            } else if unchanged {
                hist.push("unchanged".into());
            }
            // ---------- state before
            let before = sim.store.files();
            let view_before = StoreView::build(&key, &before);
            let indexed = |t: BlobType, id: &Id| view_before.indexed_live(t, id);
            // expected new data chunks
            let mut expected_new: BTreeSet<Id> = BTreeSet::new();
            let mut all_chunks: BTreeSet<Id> = BTreeSet::new();
            for (k, bytes) in model.files() {
                match chunk_ids(&config, bytes) {
                    Ok(ids) => {
                        for (id, _) in ids {
                            let _ = all_chunks.insert(id);
                            if !indexed(BlobType::Data, &id) {
                                let _ = expected_new.insert(id);
                            }
                        }
                    }
                    Err(e) => {
                        rep.harness_errors.push(format!("reference chunking of {} failed: {e}", show_key(k)));
                        return rep;
                    }
                }
            }
            // ---------- the backup
            let force = rng.chance(1, 3);
            let opts = if force { BackupOptions::default().parent_opts(ParentOptions::default().force(true)) } else { BackupOptions::default() };
            let mode = sim.draw_mode(s.scheduled && step > 0, &[0, 1], false);
            let log_start = sim.store.log_len();
            let snap = match sim.backup(&mode, &model.clone(), 1, &opts, &plan, "c07") {
                Cmd::Ok(sn) => sn,
                r => {
                    rep.violation(format!("C07/backup-{}", r.class()), r.detail());
                    break;
                }
            };
            evaluations += 1;
            hist.push(format!("backup{}", if force { "(force)" } else { "" }));
            let log = sim.store.log_from(log_start);
            let mut written_data: BTreeMap<Id, usize> = BTreeMap::new();
            let mut written_trees: BTreeMap<Id, usize> = BTreeMap::new();
            let mut pack_writes = 0;
            for op in &log {
                if op.tpe == FileType::Pack && matches!(op.kind, OpKind::Write | OpKind::Overwrite) && op.ok {
                    pack_writes += 1;
                    if let Some(info) = op.data.as_ref().and_then(|d| parse_pack(&key, d).ok()) {
                        for en in info.entries {
                            *(if en.tpe == BlobType::Data { &mut written_data } else { &mut written_trees }).entry(en.id).or_insert(0) += 1;
                        }
                    }
                }
            }
            let tree_hex = id_hex(&snap.tree);
            // (1) unchanged re-backup adds nothing
            if unchanged {
                if pack_writes > 0 {
                    rep.violation("C07/unchanged-backup-wrote-packs", format!("step {step}: {pack_writes} pack(s) written for an unchanged source"));
                }
                if prev_tree.as_ref() != Some(&tree_hex) {
                    rep.violation("C07/unchanged-backup-changed-tree-id", format!("step {step}: tree {tree_hex} != previous {prev_tree:?}"));
                }
                if let Some(sum) = &snap.summary {
                    if sum.data_added != 0 {
                        rep.violation("C07/unchanged-backup-reports-data-added", format!("step {step}: summary.data_added = {}", sum.data_added));
                    }
                }
            }
            // (2) uploaded data blobs == new chunks \ indexed
            let got: BTreeSet<Id> = written_data.keys().copied().collect();
            if let Some(missing) = expected_new.difference(&got).next() {
                rep.violation("C07/new-chunk-not-uploaded", format!("step {step}: chunk {} is new but is in no pack written by this backup", id_hex(missing)));
            }
            if let Some(extra) = got.difference(&expected_new).next() {
                let why = if indexed(BlobType::Data, extra) { "was already indexed" } else if all_chunks.contains(extra) { "unexpected" } else { "is not a chunk of the source" };
                rep.violation(
                    if indexed(BlobType::Data, extra) { "C07/already-indexed-chunk-uploaded-again" } else { "C07/unexpected-data-blob-uploaded" },
                    format!("step {step}: data blob {} {why}", id_hex(extra)),
                );
            }
            if let Some((t, _)) = written_trees.iter().find(|(t, _)| indexed(BlobType::Tree, t)) {
                rep.violation("C07/already-indexed-tree-uploaded-again", format!("step {step}: tree blob {}", id_hex(t)));
            }
            let dup_in_run: usize = written_data.values().chain(written_trees.values()).filter(|c| **c > 1).count();
            rep.fire("new_blob_stored_more_than_once_within_one_run", dup_in_run as u64);
            // (3) locality of an insert/delete
            if let Some((pos, behind)) = edit_info {
                let random_rabin = matches!(s.cfg.chunker, ChunkerCfg::Rabin { avg, max, .. } if max >= 4 * avg);
                if let Some(Kind::File(b)) = model.entries.get(&big_key).map(|e| &e.kind) {
                    let new_chunks = chunk_ids(&config, b).unwrap_or_default();
                    let uploaded_of_big = new_chunks.iter().filter(|(id, _)| got.contains(id)).count();
                    if uploaded_of_big > 0 && uploaded_of_big < new_chunks.len() {
                        interesting = true;
                    }
                    rep.fire("edit_steps", 1);
                    if random_rabin && behind >= 16 && uploaded_of_big == new_chunks.len() {
                        rep.violation("C07/edit-reuploaded-every-chunk", format!("step {step}: edit at {pos} with {behind} old chunks behind it: all {} chunks of the file were uploaded again", new_chunks.len()));
                    }
                }
            }
            prev_tree = Some(tree_hex);
            rep.states.push(files_digest(&sim.store.files()));
            if !rep.violations.is_empty() {
                break;
            }
            interpose::clock_advance(61_000_000_000);
        }
        // (4) everything reads back (typed identity of equal-bytes tree/data blobs included)
        if rep.violations.is_empty() {
            for (fp, d) in sim.verify(true) {
                rep.violation(format!("C07/{fp}"), d);
            }
        }
        sim.finish_report(&mut rep);
        rep.evaluations = evaluations.max(1);
        if interesting {
            rep.nontrivial.push(hash64(&[format!("{hist:?}{:?}", s.cfg).as_bytes()]));
        }
        rep.sample = json!({"history": hist, "config": s.cfg.describe(), "mode": if s.scheduled { "scheduled" } else { "free" }});
        if !rep.violations.is_empty() {
            rep.trace = sim.trace.clone();
        }
        let _: Option<FsModel> = None;
        rep
    }
}
