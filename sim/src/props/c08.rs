//! C08 Pack files, their headers and the index always agree; index is rebuildable.

use std::collections::BTreeMap;

use rustic_core::repofile::{IndexFile, SnapshotFile};
use rustic_core::{ConfigOptions, FileType, Id, KeyOptions, LimitOption, PruneOptions, RepairIndexOptions, RewriteOptions, RewriteTreesOptions, last_modified_node};
use serde::{Deserialize, Serialize};
use serde_json::{Value, json};

use crate::audit::{PackEntry, PackInfo, decode_file, id_hex, verify_pack};
use crate::common;
use crate::harness::{Env, Prop, Report, Tier};
use crate::model::GenParams;
use crate::props::c01::build_model_min;
use crate::rng::{Rng, hash64};
use crate::sched::{Mode, Sched};
use crate::sim::{Cmd, Sim};
use crate::store::{Op, OpKind, SimStore, files_digest, ft_code};
use crate::world::{KeyMat, RepoCfg, config_for, repo_on, repo_open, snap_template};

pub struct C08;

#[derive(Clone, Debug, Serialize, Deserialize)]
pub struct Spec {
    pub pool: usize,
    pub subseed: u64,
    pub cfg: RepoCfg,
    pub gen: GenParams,
    pub model_seed: u64,
    pub steps: usize,
    pub scheduled_tail: bool,
    pub start_s: i64,
}

/// check every pack and index file ever written according to the op log
fn audit_writes(key: &[u8; 64], log: &[Op], rep: &mut Report, world: &str) -> (usize, usize) {
    let mut packs: BTreeMap<Id, PackInfo> = BTreeMap::new();
    let (mut np, mut ni) = (0, 0);
    for op in log {
        if !matches!(op.kind, OpKind::Write | OpKind::Overwrite) || !op.ok {
            continue;
        }
        let Some(data) = &op.data else { continue };
        match op.tpe {
            FileType::Pack => {
                np += 1;
                match verify_pack(key, &op.id, data) {
                    Ok(info) => {
                        let _ = packs.insert(op.id, info);
                    }
                    Err(e) => rep.violation("C08/written-pack-is-not-self-describing", format!("{world}: pack {} as written: {e}", id_hex(&op.id))),
                }
            }
            FileType::Index => {
                ni += 1;
                let idx: IndexFile = match decode_file(key, data).and_then(|j| serde_json::from_slice(&j).map_err(|e| e.to_string())) {
                    Ok(i) => i,
                    Err(e) => {
                        rep.violation("C08/written-index-does-not-decode", format!("{world}: index {}: {e}", id_hex(&op.id)));
                        continue;
                    }
                };
                for p in idx.packs.iter().chain(idx.packs_to_delete.iter()) {
                    // only packs written in this world (and whose blob list the index claims to know)
                    let Some(info) = packs.get(&*p.id) else { continue };
                    if p.blobs.is_empty() {
                        continue; // an unindexed pack marked for deletion carries no blob list
                    }
                    let mut listed: Vec<PackEntry> = p
                        .blobs
                        .iter()
                        .map(|b| PackEntry { tpe: b.tpe, id: *b.id, offset: b.location.offset, length: b.location.length, raw_len: b.location.uncompressed_length.map(std::num::NonZeroU32::get) })
                        .collect();
                    listed.sort_by_key(|e| e.offset);
                    if listed != info.entries {
                        rep.violation(
                            "C08/index-entry-disagrees-with-pack-header",
                            format!("{world}: index {} lists pack {} with {} blobs, its header has {}", id_hex(&op.id), id_hex(&p.id), listed.len(), info.entries.len()),
                        );
                    }
                    if p.pack_size() != info.size {
                        rep.violation("C08/index-pack-size-wrong", format!("{world}: index {} gives size {} for pack {} of {} bytes", id_hex(&op.id), p.pack_size(), id_hex(&p.id), info.size));
                    }
                }
            }
            _ => {}
        }
    }
    (np, ni)
}

impl Prop for C08 {
    fn id(&self) -> &'static str {
        "C08"
    }
    fn scheduled(&self) -> bool {
        true
    }
    fn runs(&self, tier: Tier) -> u64 {
        match tier {
            Tier::Quick => 3000,
            Tier::Thorough => 30000,
        }
    }
    fn rule(&self) -> &'static str {
        "one run = a history (backups, stale-index double backups, forgets, non-instant prunes with repacking; in half of the v2 runs compression switched off/on followed by another backup; then merge of all snapshots, rewrite with excludes, v1->v2 upgrade + prune --repack-uncompressed when the repo is v1, copy into a repository with other key/compression/pack size; the tail optionally under a seeded schedule) \
         with drawn blob-size mixes, compression levels and pack-size limits (1 run in 150: a file of 12 000 64-byte chunks with default pack sizes, so that packs are closed by the blob-count limit and carry the largest headers); monitor: every pack and index file ever written (taken from the op log, including files deleted later) is decoded independently: \
         pack id = SHA-256(bytes), trailer length, header authenticates, entries tile the body in order, every blob authenticates/decompresses to its recorded length and hashes to its id, single blob type per pack; \
         every index entry for a pack written in this world equals the header (type, id, offset, length, raw length) and the size. Then a seeded subset (or all) of the index files is removed, in a third of the runs one or two unreadable pack files (truncated copies under other ids) are planted, repair_index (+/- read_all) runs, \
         and every snapshot must read back equal to its model with check(read_data) clean. evaluations = packs+index files audited + 1; non-trivial = >= 3 packs audited and an index file actually removed; distinct = hash(history, config, removed set)"
    }
    fn assumptions(&self) -> Vec<&'static str> {
        vec!["the simulator's own pack/header/blob decoder is the reference (AES-256-CTR+Poly1305-AES through the aes256ctr_poly1305aes crate with the chosen key, own trailer parser, own zstd call)"]
    }

    fn generate(&self, subseed: u64, _tier: Tier) -> Value {
        let mut rng = Rng::new(subseed);
        let mut cfg = RepoCfg::gen_small(&mut rng);
        if cfg.compression.is_some_and(|c| c > 3) {
            cfg.compression = Some(*rng.pick(&[1, 3, -7]));
        }
        let mut genp = GenParams::default();
        genp.max_entries = 7;
        genp.max_file = 50_000;
        genp.total_cap = 120_000;
        genp.special = false;
        genp.sizes_of_interest = vec![4096, 10_000];
        let spec = Spec { pool: *rng.pick(&[1usize, 2, 3]), subseed, cfg, gen: genp, model_seed: rng.next_u64(), steps: rng.range(2, 6) as usize, scheduled_tail: rng.chance(1, 3), start_s: common::BASE_TIME_S + rng.range(0, 400 * 86400) as i64 };
        serde_json::to_value(spec).unwrap()
    }

    fn shrink(&self, spec: &Value) -> Vec<Value> {
        let s: Spec = serde_json::from_value(spec.clone()).unwrap();
        let mut out = vec![];
        if s.steps > 2 {
            let mut c = s.clone();
            c.steps -= 1;
            out.push(serde_json::to_value(c).unwrap());
        }
        if s.scheduled_tail {
            let mut c = s.clone();
            c.scheduled_tail = false;
            out.push(serde_json::to_value(c).unwrap());
        }
        out
    }

    #[allow(clippy::too_many_lines)]
    fn exec(&self, spec: &Value, env: &Env) -> Report {
        let s: Spec = serde_json::from_value(spec.clone()).expect("spec");
        let mut rep = Report::default();
        common::run_setup(s.subseed, s.start_s);
        let mut rng = Rng::new(s.subseed ^ 0xc08);
        // rarely: packs that are closed by the blob-count limit, not by size (thousands of tiny blobs, default
        // pack sizes, compressed entries): the largest headers the library writes
        let many_blobs = s.subseed % 150 == 7;
        let mut s = s;
        if many_blobs {
            s.cfg.version = 2;
            s.cfg.chunker = crate::world::ChunkerCfg::Fixed { size: 64 };
            s.cfg.datapack_size = None;
            s.cfg.treepack_size = None;
            s.cfg.compression = Some(1);
            s.steps = 2;
            s.scheduled_tail = false;
        }
        let mut sim = Sim::new(s.subseed, s.cfg.clone(), &env.cpus, "c08");
        if let Cmd::Err(e) = sim.init() {
            rep.sample = json!({"skipped": "configuration refused by init", "error": e});
            rep.evaluations = 1;
            return rep;
        }
        let mut model = build_model_min(&s.gen, s.model_seed, &[], s.start_s, 2);
        if many_blobs {
            let data = rng.bytes(64 * 12_000);
            let e = crate::model::default_entry(&mut rng, crate::model::Kind::File(std::sync::Arc::new(data)), s.start_s);
            let _ = model.entries.insert(vec![b"twelve-thousand-chunks".to_vec()], e);
            rep.fire("pack_closed_by_blob_count_limit_scenario", 1);
        }
        let mut hist = match sim.build_history(&mut rng, &s.gen, &mut model, s.steps) {
            Ok(h) => h,
            Err((fp, d)) => {
                rep.violation(format!("C08/{fp}"), d);
                return rep;
            }
        };
        macro_rules! step {
            ($name:expr, $cmd:expr) => {{
                match $cmd {
                    Cmd::Ok(_) => hist.push($name.to_string()),
                    Cmd::Err(e) => hist.push(format!("{} -> Err {}", $name, common::classify(&e))),
                    r => {
                        rep.violation(format!("C08/{}-{}", $name, r.class()), r.detail());
                        sim.finish_report(&mut rep);
                        rep.trace = sim.trace.clone();
                        return rep;
                    }
                }
            }};
        }
        let tail_mode = sim.draw_mode(s.scheduled_tail, &[0, 1], false);
        // compression switched on/off between backups: later (fast) repacks then build packs that mix
        // compressed and uncompressed blobs, i.e. header entries of both lengths
        if s.cfg.version == 2 && rng.chance(1, 2) {
            let off = !matches!(s.cfg.compression, Some(0));
            let lvl = if off { 0 } else { *rng.pick(&[1, 3]) };
            let (store, key) = (sim.store.clone(), sim.key.clone());
            let r = sim.run(&Mode::Free, move || {
                let mut repo = repo_open(&store, 1, &key)?;
                repo.apply_config(&ConfigOptions::default().set_compression(lvl)).map(|_| ())
            });
            step!(if off { "compression-off" } else { "compression-on" }, r);
            let now = crate::interpose::clock_now() / 1_000_000_000;
            let _ = crate::model::edit_model(&mut rng, &mut model, &s.gen, now, 3);
            let plan = crate::model::ReadPlan { frag: vec![0, 4097], eintr_every: 0, gate_reads_every: 0 };
            let r = sim.backup(&tail_mode, &model.clone(), 1, &rustic_core::BackupOptions::default(), &plan, "c08");
            step!("backup-after-compression-change", r);
            crate::interpose::clock_advance(3_600_000_000_000);
            rep.fire("compression_changed_between_backups", 1);
        }
        // merge all snapshots
        {
            let (store, key) = (sim.store.clone(), sim.key.clone());
            let r = sim.run(&tail_mode, move || {
                let repo = repo_open(&store, 1, &key)?.to_indexed()?;
                let snaps = repo.get_all_snapshots()?;
                repo.merge_snapshots(&snaps, &last_modified_node, snap_template("merged")?).map(|_| ())
            });
            step!("merge", r);
        }
        // rewrite with excludes
        {
            let (store, key) = (sim.store.clone(), sim.key.clone());
            let r = sim.run(&tail_mode, move || {
                let repo = repo_open(&store, 1, &key)?.to_indexed()?;
                let snaps: Vec<SnapshotFile> = repo.get_all_snapshots()?.into_iter().take(2).collect();
                let mut t = RewriteTreesOptions::default();
                t.excludes.globs = ["!*.txt", "!*.log", "!a*", "!data*"].iter().map(|x| x.to_string()).collect();
                repo.rewrite_snapshots_and_trees(snaps, &RewriteOptions::default(), &t).map(|_| ())
            });
            step!("rewrite", r);
        }
        // v1 -> v2 upgrade and re-encoding repack
        if s.cfg.version == 1 {
            let (store, key) = (sim.store.clone(), sim.key.clone());
            let r = sim.run(&Mode::Free, move || {
                let mut repo = repo_open(&store, 1, &key)?;
                repo.apply_config(&ConfigOptions::default().set_version(2).set_compression(3)).map(|_| ())
            });
            step!("upgrade-to-v2", r);
            let o = PruneOptions::default().repack_uncompressed(true).max_repack(LimitOption::Unlimited).keep_delete(jiff::Span::new());
            let r = sim.prune(&tail_mode, 1, &o);
            step!("prune-repack-uncompressed", r);
        }
        // a re-encoding and a fast repack of everything
        for (name, fast) in [("prune-repack-all", false), ("prune-repack-all-fast", true)] {
            if rng.chance(1, 2) {
                let o = PruneOptions::default().repack_all(true).fast_repack(fast).max_repack(LimitOption::Unlimited).max_unused(LimitOption::Percentage(0)).keep_delete(jiff::Span::new());
                let r = sim.prune(&tail_mode, 1, &o);
                step!(name, r);
            }
        }
        // copy into another repository (other key, compression, pack size)
        let dkey = KeyMat::from_seed(s.subseed ^ 0xd57);
        let dstore = SimStore::new("c08-dst", Sched::new());
        {
            let mut dcfg = s.cfg.clone();
            dcfg.version = 2;
            dcfg.compression = *rng.pick(&[None, Some(0), Some(5)]);
            dcfg.datapack_size = Some(*rng.pick(&[1u64, 7000, 60_000]));
            dcfg.treepack_size = Some(*rng.pick(&[1u64, 900, 60_000]));
            let (sstore, skey, dstore2, dkey2) = (sim.store.clone(), sim.key.clone(), dstore.clone(), dkey.clone());
            let r = sim.run(&Mode::Free, move || {
                let dst = repo_on(dstore2.handle(1), None, None)?.init_with_config(&dkey2.creds(), &KeyOptions::default(), config_for(&dkey2, &dcfg)?)?.to_indexed_ids()?;
                let src = repo_open(&sstore, 1, &skey)?.to_indexed()?;
                let snaps = src.get_all_snapshots()?;
                src.copy(&dst, snaps.iter())
            });
            step!("copy", r);
        }

        // ---------- monitor: everything ever written
        let key = sim.key.aead_key();
        let (np, ni) = audit_writes(&key, &sim.store.log(), &mut rep, "source");
        let (np2, ni2) = audit_writes(&dkey.aead_key(), &dstore.log(), &mut rep, "copy destination");
        rep.fire("packs_audited", (np + np2) as u64);
        rep.fire("index_files_audited", (ni + ni2) as u64);
        if !rep.violations.is_empty() {
            sim.finish_report(&mut rep);
            rep.trace = sim.trace.clone();
            rep.sample = json!({"history": hist, "config": s.cfg.describe()});
            return rep;
        }

        // ---------- lose index files, rebuild
        // snapshots created by merge/rewrite have no model: they must read completely; known ones equal their model
        let idx: Vec<Id> = sim.store.list_ids(FileType::Index);
        let mut removed = vec![];
        let all = rng.chance(1, 3);
        for id in &idx {
            if all || rng.chance(1, 2) {
                let _ = sim.store.remove_raw(FileType::Index, id);
                removed.push(id_hex(id));
            }
        }
        rep.fire("lost_file(index)", removed.len() as u64);
        // a pack file that cannot be read (truncated copy of a real pack under another id, as an
        // interrupted upload to a non-atomic store leaves it): repair_index has to skip it and go on
        let garbage = rng.chance(1, 3);
        if garbage {
            let packs = sim.store.list_ids(FileType::Pack);
            if let Some(src) = packs.first().and_then(|id| sim.store.get(FileType::Pack, id)) {
                for _ in 0..(1 + rng.usize(2)) {
                    let mut idb = [0u8; 32];
                    idb.copy_from_slice(&rng.bytes(32));
                    let cut = rng.usize(src.len().max(1));
                    sim.store.put_raw(FileType::Pack, &Id::new(idb), src.slice(..cut));
                    rep.fire("unreadable_pack_planted", 1);
                }
            }
        }
        let read_all = rng.chance(1, 3);
        {
            let (store, key) = (sim.store.clone(), sim.key.clone());
            let r = sim.run(&tail_mode, move || repo_open(&store, 1, &key)?.repair_index(&RepairIndexOptions::default().read_all(read_all), false));
            match r {
                Cmd::Ok(()) => hist.push(format!("lose {} of {} index files; repair_index(read_all={read_all})", removed.len(), idx.len())),
                r => rep.violation(format!("C08/repair-index-{}", r.class()), r.detail()),
            }
        }
        rep.states.push(files_digest(&sim.store.files()));
        if rep.violations.is_empty() {
            let expected: BTreeMap<String, crate::model::FsModel> = sim.snaps.iter().map(|(k, v)| (k.clone(), v.model.clone())).collect();
            for (fp, d) in sim.state_oracle(sim.store.files(), &expected, &[], &[]) {
                rep.violation(format!("C08/after-index-rebuild:{fp}"), d);
            }
            for (fp, d) in sim.verify(true) {
                rep.violation(format!("C08/after-index-rebuild:{fp}"), d);
            }
        }
        sim.finish_report(&mut rep);
        rep.evaluations = (np + np2 + ni + ni2 + 1) as u64;
        if np >= 3 && !removed.is_empty() {
            rep.nontrivial.push(hash64(&[format!("{hist:?}{:?}{removed:?}", s.cfg).as_bytes()]));
        }
        rep.sample = json!({"history": hist, "config": s.cfg.describe(), "packs_audited": np + np2, "index_files_audited": ni + ni2, "index_files_removed": removed.len()});
        if !rep.violations.is_empty() {
            rep.trace = sim.trace.clone();
        }
        let _ = ft_code(FileType::Pack);
        rep
    }
}
