//! C03 Every crash point or failed write leaves only fully readable snapshots.

use std::collections::BTreeMap;
use std::sync::Arc;

use rustic_core::repofile::SnapshotFile;
use rustic_core::{
    BackupOptions, ConfigOptions, Credentials, KeyOptions, LimitOption, PruneOptions, RepairIndexOptions, RepairSnapshotsOptions, RewriteOptions, RewriteTreesOptions, RusticResult,
    last_modified_node,
};
use serde::{Deserialize, Serialize};
use serde_json::{Value, json};

use crate::audit::id_hex;
use crate::common;
use crate::harness::{Env, Prop, Report, Tier};
use crate::interpose;
use crate::model::{FsModel, GenParams, ReadPlan, edit_model};
use crate::props::c01::build_model_min;
use crate::rng::{Rng, hash64};
use crate::sched::Mode;
use crate::sim::{Cmd, Sim};
use crate::store::{Fault, Files, Op, SimStore, apply_ops, files_digest};
use crate::world::{KeyMat, RepoCfg, repo_init, repo_on, repo_open, snap_template};

pub struct C03;

pub const KINDS: [&str; 21] = [
    "backup-first",
    "backup-next",
    "forget",
    "prune-mark",
    "prune-instant",
    "prune-delete-marked",
    "repair-index",
    "repair-index-read-all",
    "repair-snapshots",
    "rewrite",
    "merge",
    "config",
    "copy",
    "prune-repack-all",
    "prune-after-crash",
    "prune-instant-after-crash",
    "backup-after-crash",
    "forget-many",
    "rewrite-meta",
    "key-change",
    "prune-mark-early-delete-index",
];

pub const OLD_PW: &str = "old password";
pub const NEW_PW: &str = "new password";

#[derive(Clone, Debug, Serialize, Deserialize)]
pub struct Spec {
    pub pool: usize,
    pub subseed: u64,
    pub kind: String,
    pub sched: bool,
    pub cfg: RepoCfg,
    pub gen: GenParams,
    pub model_seed: u64,
    pub drop: Vec<usize>,
    pub start_s: i64,
    /// check only these crash prefixes / fault indices (minimiser); empty = all
    pub only_prefix: Option<usize>,
    pub only_fault: Option<(usize, bool)>,
    pub max_faults: usize,
}

/// what a command produced (for the oracle)
#[derive(Default, Clone)]
pub struct KOut {
    /// new snapshots with a known model
    pub new_known: Vec<(String, FsModel)>,
    /// snapshots that the command is allowed to remove
    pub may_vanish: Vec<String>,
}

struct Ctx {
    m_new: FsModel,
    plan: ReadPlan,
    /// ids (hex) of pre-state snapshots in creation order
    pre: Vec<String>,
    /// destination world for copy
    dst: Option<(Arc<SimStore>, KeyMat)>,
    /// snapshots that were already unreadable before the command (repair-snapshots)
    damaged: Vec<String>,
}

/// run command `kind` on `sim` under `mode`
fn run_kind(sim: &mut Sim, kind: &str, mode: &Mode, ctx: &Ctx) -> Cmd<KOut> {
    let (store, key, sched, seed) = (sim.store.clone(), sim.key.clone(), sim.sched.clone(), sim.seed);
    match kind {
        "backup-first" | "backup-next" | "backup-after-crash" => {
            let m = ctx.m_new.clone();
            match sim.backup(mode, &m, 1, &BackupOptions::default(), &ctx.plan, "c03") {
                Cmd::Ok(snap) => Cmd::Ok(KOut { new_known: vec![(id_hex(&snap.id), m)], may_vanish: vec![] }),
                Cmd::Err(e) => Cmd::Err(e),
                Cmd::Panic(p) => Cmd::Panic(p),
                Cmd::NoProgress => Cmd::NoProgress,
                Cmd::Harness(h) => Cmd::Harness(h),
            }
        }
        "forget-many" => {
            let ids = vec![ctx.pre[0].clone(), ctx.pre[1].clone()];
            let r = sim.forget(mode, 1, &ids);
            map_unit(r, KOut { new_known: vec![], may_vanish: ids })
        }
        "forget" => {
            let ids = vec![ctx.pre[0].clone()];
            let r = sim.forget(mode, 1, &ids);
            map_unit(r, KOut { new_known: vec![], may_vanish: ids })
        }
        "prune-mark" | "prune-instant" | "prune-delete-marked" | "prune-repack-all" | "prune-after-crash" | "prune-instant-after-crash" | "prune-mark-early-delete-index" => {
            let mut o = PruneOptions::default().max_unused(LimitOption::Percentage(0)).max_repack(LimitOption::Unlimited).keep_delete(jiff::Span::new().hours(1));
            if kind == "prune-instant" || kind == "prune-instant-after-crash" {
                o = o.instant_delete(true);
            }
            if kind == "prune-repack-all" {
                o = o.repack_all(true);
            }
            if kind == "prune-mark-early-delete-index" {
                // only the combination with instant-delete is documented as unsafe; without it the option has to be harmless
                o = o.early_delete_index(true);
            }
            if kind == "prune-delete-marked" {
                o = o.keep_delete(jiff::Span::new());
            }
            let r = sim.prune(mode, 1, &o);
            map_unit(r, KOut::default())
        }
        "repair-index" | "repair-index-read-all" => {
            let read_all = kind == "repair-index-read-all";
            let r = sim.run(mode, move || {
                let repo = repo_open(&store, 1, &key)?;
                repo.repair_index(&RepairIndexOptions::default().read_all(read_all), false)
            });
            map_unit(r, KOut::default())
        }
        "repair-snapshots" => {
            let r = sim.run(mode, move || {
                let repo = repo_open(&store, 1, &key)?.to_indexed()?;
                let snaps = repo.get_all_snapshots()?;
                repo.repair_snapshots(&RepairSnapshotsOptions::default(), snaps, false)
            });
            // damaged originals are deleted (default delete = true): anything may vanish that is damaged;
            // we allow all pre-state snapshots to be replaced
            map_unit(r, KOut { new_known: vec![], may_vanish: ctx.damaged.clone() })
        }
        "rewrite" => {
            let pre0 = ctx.pre[0].clone();
            let r = sim.run(mode, move || {
                let repo = repo_open(&store, 1, &key)?.to_indexed()?;
                let snaps: Vec<SnapshotFile> = repo.get_all_snapshots()?.into_iter().filter(|s| id_hex(&s.id) == pre0).collect();
                let mut tree_opts = RewriteTreesOptions::default();
                tree_opts.excludes.globs = ["!*.txt", "!*.log", "!a*", "!data*", "!b*"].iter().map(|x| x.to_string()).collect();
                let opts = RewriteOptions::default().forget(true);
                repo.rewrite_snapshots_and_trees(snaps, &opts, &tree_opts).map(|_| ())
            });
            map_unit(r, KOut { new_known: vec![], may_vanish: vec![ctx.pre[0].clone()] })
        }
        "rewrite-meta" => {
            let r = sim.run(mode, move || {
                let repo = repo_open(&store, 1, &key)?;
                let snaps = repo.get_all_snapshots()?;
                let mut opts = RewriteOptions::default().forget(true);
                opts.modification.set_label = Some("relabelled".into());
                repo.rewrite_snapshots(snaps, &opts).map(|_| ())
            });
            map_unit(r, KOut { new_known: vec![], may_vanish: ctx.pre.clone() })
        }
        "key-change" => {
            let r = sim.run(mode, move || {
                let old = repo_on(store.handle(1), None, None)?.open(&Credentials::password(OLD_PW))?;
                let old_id = old.key_id().clone();
                let _ = old.add_key(NEW_PW, &KeyOptions::default())?;
                let new = repo_on(store.handle(1), None, None)?.open(&Credentials::password(NEW_PW))?;
                match old_id {
                    Some(id) => new.delete_key(&id),
                    None => Ok(()),
                }
            });
            map_unit(r, KOut::default())
        }
        "merge" => {
            let r = sim.run(mode, move || {
                let repo = repo_open(&store, 1, &key)?.to_indexed()?;
                let snaps = repo.get_all_snapshots()?;
                repo.merge_snapshots(&snaps, &last_modified_node, snap_template("merged")?).map(|_| ())
            });
            map_unit(r, KOut::default())
        }
        "config" => {
            let r = sim.run(mode, move || {
                let mut repo = repo_open(&store, 1, &key)?;
                repo.apply_config(&ConfigOptions::default().set_treepack_size(bytesize::ByteSize::b(123_456)).set_extra_verify(true)).map(|_| ())?;
                repo.add_key("another password", &KeyOptions::default()).map(|_| ())
            });
            map_unit(r, KOut::default())
        }
        "copy" => {
            // observed store = destination (sim.store); source = frozen pre-state in ctx.dst
            let (src_store, src_key) = ctx.dst.clone().expect("copy needs a source world");
            let r = sim.run(mode, move || {
                let src = repo_open(&src_store, 7, &src_key)?.to_indexed()?;
                let dst = repo_open(&store, 1, &key)?.to_indexed_ids()?;
                let snaps = src.get_all_snapshots()?;
                let rel = dst.relevant_copy_snapshots(|_| true, &snaps)?;
                let todo: Vec<SnapshotFile> = rel.into_iter().filter(|c| c.relevant).map(|c| c.sn).collect();
                src.copy(&dst, todo.iter())
            });
            map_unit(r, KOut::default())
        }
        _ => {
            let _ = (sched, seed);
            Cmd::Harness(format!("unknown kind {kind}"))
        }
    }
}

fn map_unit(r: Cmd<()>, out: KOut) -> Cmd<KOut> {
    match r {
        Cmd::Ok(()) => Cmd::Ok(out),
        Cmd::Err(e) => Cmd::Err(e),
        Cmd::Panic(p) => Cmd::Panic(p),
        Cmd::NoProgress => Cmd::NoProgress,
        Cmd::Harness(h) => Cmd::Harness(h),
    }
}

/// key-change: at every moment one of the two passwords must open the repository
fn password_oracle(sim: &mut Sim, kind: &str, files: &Files) -> Vec<(String, String)> {
    if kind != "key-change" {
        return vec![];
    }
    let store = SimStore::from_files("pw-oracle", crate::sched::Sched::new(), files.clone());
    let r = sim.run(&Mode::Free, move || {
        let mut errs = vec![];
        for pw in [OLD_PW, NEW_PW] {
            match repo_on(store.handle(94), None, None)?.open(&Credentials::password(pw)) {
                Ok(_) => return Ok(vec![]),
                Err(e) => errs.push(format!("{pw}: {}", e.display_log())),
            }
        }
        Ok(errs)
    });
    match r {
        Cmd::Ok(errs) if errs.is_empty() => vec![],
        Cmd::Ok(errs) => vec![("no-password-opens-the-repository".into(), errs.join("; "))],
        other => vec![(format!("oracle-{}", other.class()), other.detail())],
    }
}

fn op_desc(op: &Op) -> String {
    format!("{} {}", op.kind.short(), crate::store::ft_name(op.tpe))
}

impl Prop for C03 {
    fn id(&self) -> &'static str {
        "C03"
    }
    fn scheduled(&self) -> bool {
        true
    }
    fn level(&self) -> &'static str {
        "fault_enumeration"
    }
    fn runs(&self, tier: Tier) -> u64 {
        match tier {
            Tier::Quick => 900,
            Tier::Thorough => 30000,
        }
    }
    fn rule(&self) -> &'static str {
        "one run = one command kind (backup first/next, forget of one/several snapshots, prune mark/instant/delete-marked/repack-all/mark with early-delete-index but without instant-delete, repair index (+read-all), repair snapshots, rewrite of trees / of metadata + forget, merge, config+key add, \
         password change (add key, delete old key: some password must open the repository at every prefix), copy into; prune / instant prune / backup started on the state an interrupted earlier run of the same command left behind) on a \
         generated pre-state, executed once under a seeded gate schedule to record its write/remove log L; then EVERY prefix S0+L[..k] is opened with a fresh handle (index load, every listed snapshot read \
         completely, old snapshots compared with their model), and for up to 12 (quick) / 24 (thorough) positions j the command is re-executed from S0 under the same schedule with op j failing \
         (no effect) and again with op j failing after taking effect: the command must return Err (a panic is its own violation class) and the resulting state and every later prefix must satisfy the same oracle. \
         Finally one read or listing of the command fails (up to 6/12 positions): the command may cope or give up, but must not panic or hang, and the final state must satisfy the oracle. evaluations = crash prefixes + fault re-executions; non-trivial = log has >= 2 mutation ops; distinct = hash(kind, model, config, log)"
    }
    fn assumptions(&self) -> Vec<&'static str> {
        vec![
            "storage operations are atomic (a torn object is observably the same as truncate-after-the-fact, which C05 generates)",
            "instant-delete + early-delete-index and hot/cold pairs are excluded as the property states",
            "read and listing failures go beyond the quantifier (write/remove failures): they are injected with the weaker oracle 'Ok or Err, final state sound', and not into repair index / repair snapshots, whose function is to take an unreadable pack or tree for damage",
        ]
    }

    fn generate(&self, subseed: u64, tier: Tier) -> Value {
        let mut rng = Rng::new(subseed);
        let kind = KINDS[rng.usize(KINDS.len())].to_string();
        let mut cfg = RepoCfg::gen_small(&mut rng);
        if cfg.compression.is_some_and(|c| c > 3) {
            cfg.compression = Some(1);
        }
        let mut genp = GenParams::default();
        genp.max_entries = 7;
        genp.max_file = 40_000;
        genp.total_cap = 120_000;
        genp.special = false;
        genp.sizes_of_interest = vec![4096];
        let spec = Spec {
            pool: *rng.pick(&[1usize, 2, 3]),
            subseed,
            kind,
            sched: rng.chance(3, 4),
            cfg,
            gen: genp,
            model_seed: rng.next_u64(),
            drop: vec![],
            start_s: common::BASE_TIME_S + rng.range(0, 400 * 86400) as i64,
            only_prefix: None,
            only_fault: None,
            max_faults: if tier == Tier::Quick { 12 } else { 24 },
        };
        serde_json::to_value(spec).unwrap()
    }

    fn shrink(&self, spec: &Value) -> Vec<Value> {
        let s: Spec = serde_json::from_value(spec.clone()).unwrap();
        let mut out = vec![];
        let n = crate::model::gen_model(&mut Rng::new(s.model_seed), &s.gen, s.start_s).entries.len();
        for i in 0..n {
            if !s.drop.contains(&i) {
                let mut c = s.clone();
                c.drop.push(i);
                out.push(serde_json::to_value(c).unwrap());
            }
        }
        if s.sched {
            let mut c = s.clone();
            c.sched = false;
            out.push(serde_json::to_value(c).unwrap());
        }
        out
    }

    fn exec(&self, spec: &Value, env: &Env) -> Report {
        let s: Spec = serde_json::from_value(spec.clone()).expect("spec");
        let mut rep = Report::default();
        common::run_setup(s.subseed, s.start_s);
        let mut rng = Rng::new(s.subseed ^ 0xc03);
        let kind = s.kind.as_str();

        // ---------- models
        let m0 = build_model_min(&s.gen, s.model_seed, &s.drop, s.start_s, 3);
        let mut m1 = m0.clone();
        let _ = edit_model(&mut Rng::new(s.model_seed ^ 1), &mut m1, &s.gen, s.start_s + 3600, 3);
        let mut m2 = m1.clone();
        let _ = edit_model(&mut Rng::new(s.model_seed ^ 2), &mut m2, &s.gen, s.start_s + 7200, 3);
        let plan = ReadPlan { frag: vec![0, 4097], eintr_every: 0, gate_reads_every: 0 };

        // ---------- pre-state (fault-free, free-running)
        let mut sim = Sim::new(s.subseed, s.cfg.clone(), &env.cpus, "c03");
        if let Cmd::Err(e) = sim.init() {
            rep.sample = json!({"skipped": "configuration refused by init", "error": e});
            rep.evaluations = 1;
            return rep;
        }
        let mut pre_models: Vec<&FsModel> = vec![];
        match kind {
            "backup-first" => {}
            "backup-next" => pre_models.push(&m0),
            "forget" | "merge" | "rewrite" | "repair-snapshots" | "repair-index" | "repair-index-read-all" | "config" | "copy" | "backup-after-crash" | "rewrite-meta" | "key-change" => {
                pre_models.push(&m0);
                pre_models.push(&m1);
            }
            _ => {
                pre_models.push(&m0);
                pre_models.push(&m1);
                pre_models.push(&m2);
            }
        }
        let mut pre_ids = vec![];
        for m in &pre_models {
            match sim.backup(&Mode::Free, m, 1, &BackupOptions::default(), &plan, "c03") {
                Cmd::Ok(snap) => pre_ids.push(id_hex(&snap.id)),
                r => {
                    rep.violation(format!("C03/prestate-backup-{}", r.class()), r.detail());
                    return rep;
                }
            }
            interpose::clock_advance(3_600_000_000_000);
        }
        if kind.starts_with("prune") {
            // forget the first snapshot so that prune has something to do
            let first = pre_ids.remove(0);
            if let r @ (Cmd::Err(_) | Cmd::Panic(_) | Cmd::NoProgress | Cmd::Harness(_)) = sim.forget(&Mode::Free, 1, &[first]) {
                rep.violation(format!("C03/prestate-forget-{}", r.class()), r.detail());
                return rep;
            }
            if kind == "prune-delete-marked" {
                let o = PruneOptions::default().max_unused(LimitOption::Percentage(0)).max_repack(LimitOption::Unlimited).keep_delete(jiff::Span::new().hours(1));
                if let r @ (Cmd::Err(_) | Cmd::Panic(_) | Cmd::NoProgress | Cmd::Harness(_)) = sim.prune(&Mode::Free, 1, &o) {
                    rep.violation(format!("C03/prestate-prune-{}", r.class()), r.detail());
                    return rep;
                }
                interpose::clock_advance(2 * 3_600_000_000_000);
            }
        }
        if kind == "prune-after-crash" || kind == "prune-instant-after-crash" || kind == "backup-after-crash" {
            // the state an interrupted earlier run of the same command left behind (its own crash
            // prefixes are judged by the prune-mark / backup-next kinds)
            let o_mark = PruneOptions::default().max_unused(LimitOption::Percentage(0)).max_repack(LimitOption::Unlimited).keep_delete(jiff::Span::new().hours(1));
            // count the mutation ops of the uninterrupted run on a fork, then cut inside
            let mut probe = sim.fork(sim.store.files(), "c03-probe");
            probe.store.clear_log();
            let _ = if kind == "backup-after-crash" { probe.backup(&Mode::Free, &m2, 1, &BackupOptions::default(), &plan, "c03").map_unit() } else { probe.prune(&Mode::Free, 1, &o_mark) };
            let n_ops = probe.store.log().iter().filter(|o| o.kind.is_mutation()).count();
            let k = if n_ops > 1 { 1 + rng.usize(n_ops - 1) } else { 0 };
            sim.store.set_faults(vec![Fault::CrashAt { actor: 1, k }]);
            let r = if kind == "backup-after-crash" {
                sim.backup(&Mode::Free, &m2, 1, &BackupOptions::default(), &plan, "c03").map_unit()
            } else {
                sim.prune(&Mode::Free, 1, &o_mark)
            };
            sim.store.set_faults(vec![]);
            sim.store.clear_log();
            rep.fire(if r.is_ok() { "earlier_run_completed" } else { "earlier_run_interrupted" }, 1);
            if let Cmd::Panic(p) = &r {
                rep.violation(format!("C03/panic-on-io-error:{kind}:prestate:{}", common::classify(&common::short_loc(p))), format!("interrupted earlier run panicked: {p}"));
                return rep;
            }
            interpose::clock_advance(600_000_000_000);
        }
        if kind == "key-change" {
            let (st, ky) = (sim.store.clone(), sim.key.clone());
            if let r @ (Cmd::Err(_) | Cmd::Panic(_) | Cmd::NoProgress | Cmd::Harness(_)) = sim.run(&Mode::Free, move || repo_open(&st, 1, &ky)?.add_key(OLD_PW, &KeyOptions::default()).map(|_| ())) {
                rep.violation(format!("C03/prestate-add-key-{}", r.class()), r.detail());
                return rep;
            }
            sim.store.clear_log();
        }
        // copy: the pre-state is the *source*; the observed world is a fresh destination repo
        let mut ctx = Ctx { m_new: if kind == "backup-first" { m0.clone() } else { m2.clone() }, plan: plan.clone(), pre: pre_ids.clone(), dst: None, damaged: vec![] };
        let mut expected: BTreeMap<String, FsModel> = sim.snaps.iter().map(|(k, v)| (k.clone(), v.model.clone())).collect();
        if kind == "copy" {
            let src_store = SimStore::from_files("c03-src", crate::sched::Sched::new(), sim.store.files());
            let src_key = sim.key.clone();
            let mut dcfg = s.cfg.clone();
            dcfg.datapack_size = Some(50_000);
            let mut dst = Sim::new(s.subseed ^ 0xd57, dcfg.clone(), &env.cpus, "c03-dst");
            // same chunker polynomial is not required for copy
            let (dstore, dkey) = (dst.store.clone(), dst.key.clone());
            if let r @ (Cmd::Err(_) | Cmd::Panic(_) | Cmd::NoProgress | Cmd::Harness(_)) = dst.run(&Mode::Free, move || repo_init(&dstore, 1, &dkey, &dcfg).map(|_| ())) {
                rep.sample = json!({"skipped": "destination init refused", "error": r.detail()});
                rep.evaluations = 1;
                return rep;
            }
            ctx.dst = Some((src_store, src_key));
            ctx.pre.clear();
            expected.clear();
            sim = dst;
        }
        let mut ignore: Vec<String> = vec![];
        if kind == "repair-index" {
            // leftover of an interrupted backup: packs that no index lists
            sim.store.set_faults(vec![Fault::CrashAt { actor: 1, k: 1 }]);
            let _ = sim.backup(&Mode::Free, &m2, 1, &BackupOptions::default(), &plan, "c03");
            sim.store.set_faults(vec![]);
            sim.store.clear_log();
        }
        if kind == "repair-snapshots" {
            // lose one pack: the snapshots that need it are damaged before the command starts
            let packs = sim.store.list_ids(rustic_core::FileType::Pack);
            if !packs.is_empty() {
                let victim = packs[rng.usize(packs.len())];
                let _ = sim.store.remove_raw(rustic_core::FileType::Pack, &victim);
                rep.fire("lost_file", 1);
            }
            // the documented procedure: repair the index first, then the snapshots
            let (st, ky) = (sim.store.clone(), sim.key.clone());
            if let r @ (Cmd::Err(_) | Cmd::Panic(_) | Cmd::NoProgress | Cmd::Harness(_)) = sim.run(&Mode::Free, move || repo_open(&st, 1, &ky)?.repair_index(&RepairIndexOptions::default(), false)) {
                rep.violation(format!("C03/prestate-repair-index-{}", r.class()), r.detail());
                return rep;
            }
            sim.store.clear_log();
            ignore = sim.unreadable_snapshots(sim.store.files());
            for h in &ignore {
                let _ = expected.remove(h);
            }
        }
        ctx.damaged = ignore.clone();
        let s0: Files = sim.store.files();
        let rng_at_k = sim.rng.clone();

        // ---------- baseline execution of K under a seeded schedule
        let mode = sim.draw_mode(s.sched, &[0, 1], rng.chance(1, 8));
        sim.store.clear_log();
        let base = run_kind(&mut sim, kind, &mode, &ctx);
        let full_log: Vec<Op> = sim.store.log();
        let log: Vec<Op> = full_log.iter().filter(|o| o.kind.is_mutation()).cloned().collect();
        let kout = match base {
            Cmd::Ok(k) => k,
            r => {
                rep.violation(format!("C03/fault-free-{kind}-{}", r.class()), r.detail());
                sim.finish_report(&mut rep);
                rep.trace = sim.trace.clone();
                return rep;
            }
        };
        let mut kout = kout;
        for (h, m) in &kout.new_known {
            let _ = expected.insert(h.clone(), m.clone());
            // a snapshot the command creates is of course absent before its file is written
            kout.may_vanish.push(h.clone());
        }
        let n = log.len();
        let log_hash = hash64(&log.iter().map(|o| o.label()).collect::<Vec<_>>().iter().map(|x| x.as_bytes()).collect::<Vec<_>>());

        // ---------- crash enumeration: every prefix
        let mut evaluations = 0u64;
        for k in 0..=n {
            if s.only_fault.is_some() {
                break;
            }
            if let Some(p) = s.only_prefix {
                if p != k {
                    continue;
                }
            }
            let mut files = s0.clone();
            apply_ops(&mut files, &log[..k]);
            rep.states.push(files_digest(&files));
            evaluations += 1;
            rep.fire("crash_prefix", 1);
            let window = format!("after {} / before {}", if k == 0 { "nothing".to_string() } else { op_desc(&log[k - 1]) }, if k == n { "end".to_string() } else { op_desc(&log[k]) });
            let pw = password_oracle(&mut sim, kind, &files);
            for (fp, d) in sim.state_oracle(files, &expected, &kout.may_vanish, &ignore).into_iter().chain(pw) {
                rep.violation(format!("C03/crash:{kind}:{fp} [{window}]"), format!("crash after {k} of {n} mutation ops ({window}): {d}"));
            }
            if !rep.violations.is_empty() {
                break;
            }
        }

        // ---------- failure enumeration
        if rep.violations.is_empty() && s.only_prefix.is_none() && n > 0 {
            let mut js: Vec<usize> = (0..n).collect();
            if n > s.max_faults {
                let mut must = vec![0, n - 1];
                for i in 1..n {
                    if op_desc(&log[i]) != op_desc(&log[i - 1]) {
                        must.push(i);
                    }
                }
                rng.shuffle(&mut js);
                js.truncate(s.max_faults);
                js.extend(must);
                js.sort_unstable();
                js.dedup();
                if js.len() > s.max_faults * 2 {
                    js.truncate(s.max_faults * 2);
                }
            }
            'faults: for j in js {
                for after_effect in [false, true] {
                    if let Some(of) = s.only_fault {
                        if of != (j, after_effect) {
                            continue;
                        }
                    }
                    let mut f = sim.fork(s0.clone(), "c03-fault");
                    f.rng = rng_at_k.clone();
                    let mode_f = f.draw_mode(s.sched, &[0, 1], false);
                    // the log indexes mutation ops over all actors; fault plans count per actor
                    let actor = log[j].actor;
                    let kj = log[..j].iter().filter(|o| o.actor == actor).count();
                    f.store.set_faults(vec![if after_effect { Fault::FailMutAfterEffect { actor, k: kj } } else { Fault::FailMut { actor, k: kj } }]);
                    f.store.clear_log();
                    let r = run_kind(&mut f, kind, &mode_f, &ctx);
                    let flog: Vec<Op> = f.store.log().into_iter().filter(|o| o.kind.is_mutation()).collect();
                    let fired = flog.iter().any(|o| o.fault.is_some());
                    if std::env::var("VERIF_KEEP_TRACE").is_ok() {
                        eprintln!("FAULT j={j} after={after_effect} result={} log={:?}", r.class(), flog.iter().map(|o| format!("{}{}", o.label(), if o.fault.is_some() { "!" } else { "" })).collect::<Vec<_>>());
                    }
                    evaluations += 1;
                    let what = format!("{}{}", op_desc(&log[j]), if after_effect { " (after effect)" } else { "" });
                    for (k, v) in f.store.fired() {
                        rep.fire(k, v);
                    }
                    rep.gates += f.gates;
                    if !fired {
                        // schedule diverged before reaching op j (e.g. the op sequence depends on earlier results)
                        rep.fire("fault_not_reached", 1);
                        continue;
                    }
                    match &r {
                        Cmd::Ok(_) => rep.violation(format!("C03/ok-despite-failed-op:{kind}:{what}"), format!("{kind} returned Ok although its {what} (mutation op {j} of {n}) failed")),
                        Cmd::Panic(p) => rep.violation(format!("C03/panic-on-io-error:{kind}:{}", common::classify(&common::short_loc(p))), format!("{kind} panicked when its {what} failed: {p}")),
                        Cmd::NoProgress => rep.violation(format!("C03/hang-on-io-error:{kind}:{what}"), format!("{kind} did not return after its {what} failed")),
                        Cmd::Harness(h) => rep.harness_errors.push(h.clone()),
                        Cmd::Err(_) => {}
                    }
                    // final state and every prefix after the failed op
                    let fpos = flog.iter().position(|o| o.fault.is_some()).unwrap_or(0);
                    let mut exp_f = expected.clone();
                    // new snapshot ids may differ in the faulted execution: only pre-existing models are expected
                    for (h, _) in &kout.new_known {
                        if !flog.iter().any(|o| o.tpe == rustic_core::FileType::Snapshot && id_hex(&o.id) == *h && o.ok) {
                            let _ = exp_f.remove(h);
                        }
                    }
                    for k in (fpos + 1)..=flog.len() {
                        let mut files = s0.clone();
                        apply_ops(&mut files, &flog[..k]);
                        rep.states.push(files_digest(&files));
                        let pw = password_oracle(&mut f, kind, &files);
                        for (fp, d) in f.state_oracle(files, &exp_f, &kout.may_vanish, &ignore).into_iter().chain(pw) {
                            rep.violation(format!("C03/after-failed-op:{kind}:{fp} [{what}]"), format!("{kind} with failing {what} (op {j} of {n}), state after {k} ops: {d}"));
                        }
                        if !rep.violations.is_empty() {
                            break;
                        }
                    }
                    if !rep.violations.is_empty() {
                        rep.trace = f.trace.clone();
                        break 'faults;
                    }
                }
            }
        }
        // ---------- read failures: one read or listing of the command fails. The command may cope (Ok) or give
        // up (Err); either way no visible snapshot may be unreadable or have lost data afterwards.
        // (not for the repair commands: taking an unreadable pack or tree for damage is their function)
        if rep.violations.is_empty() && s.only_prefix.is_none() && s.only_fault.is_none() && !kind.starts_with("repair") {
            let mut positions: Vec<(u32, u8, usize, bool)> = vec![]; // actor, type, k-th read/list of that type, is_list
            let mut counters: BTreeMap<(u32, u8, bool), usize> = BTreeMap::new();
            for o in &full_log {
                let is_list = o.kind == crate::store::OpKind::List;
                if !(is_list || matches!(o.kind, crate::store::OpKind::ReadFull | crate::store::OpKind::ReadPartial)) {
                    continue;
                }
                let c = counters.entry((o.actor, crate::store::ft_code(o.tpe), is_list)).or_insert(0);
                positions.push((o.actor, crate::store::ft_code(o.tpe), *c, is_list));
                *c += 1;
            }
            rng.shuffle(&mut positions);
            positions.truncate(s.max_faults / 2);
            for (actor, tpe, k, is_list) in positions {
                let mut f = sim.fork(s0.clone(), "c03-readfault");
                f.rng = rng_at_k.clone();
                f.strict_bg_panics = false;
                let mode_f = f.draw_mode(s.sched, &[0, 1], false);
                f.store.set_faults(vec![if is_list { Fault::FailList { actor, tpe, k } } else { Fault::FailRead { actor, tpe, k } }]);
                f.store.clear_log();
                let r = run_kind(&mut f, kind, &mode_f, &ctx);
                let flog_all = f.store.log();
                let fired = flog_all.iter().any(|o| o.fault.is_some());
                rep.gates += f.gates;
                if !fired {
                    rep.fire("fault_not_reached", 1);
                    continue;
                }
                evaluations += 1;
                rep.fire(if is_list { "fail_list" } else { "fail_read" }, 1);
                let what = format!("{} {} #{k}", if is_list { "list" } else { "read" }, crate::store::ft_name(crate::store::ft_from(tpe)));
                match &r {
                    Cmd::Panic(p) => rep.violation(format!("C03/panic-on-io-error:{kind}:{}", common::classify(&common::short_loc(p))), format!("{kind} panicked when its {what} failed: {p}")),
                    Cmd::NoProgress => rep.violation(format!("C03/hang-on-io-error:{kind}:{what}"), format!("{kind} did not return after its {what} failed")),
                    Cmd::Harness(h) => rep.harness_errors.push(h.clone()),
                    Cmd::Ok(_) => rep.fire("command_coped_with_failed_read", 1),
                    Cmd::Err(_) => {}
                }
                let flog: Vec<Op> = flog_all.into_iter().filter(|o| o.kind.is_mutation()).collect();
                let mut exp_f = expected.clone();
                for (h, _) in &kout.new_known {
                    if !flog.iter().any(|o| o.tpe == rustic_core::FileType::Snapshot && id_hex(&o.id) == *h && o.ok) {
                        let _ = exp_f.remove(h);
                    }
                }
                let files = f.store.files();
                rep.states.push(files_digest(&files));
                let pw = password_oracle(&mut f, kind, &files);
                for (fp, d) in f.state_oracle(files, &exp_f, &kout.may_vanish, &ignore).into_iter().chain(pw) {
                    rep.violation(format!("C03/after-failed-read:{kind}:{fp} [{}]", what.split(' ').take(2).collect::<Vec<_>>().join(" ")), format!("{kind} with failing {what}: {d}"));
                }
                if !rep.violations.is_empty() {
                    rep.trace = f.trace.clone();
                    break;
                }
            }
        }
        sim.finish_report(&mut rep);
        rep.trace_hash = hash64(&[&rep.trace_hash.to_le_bytes(), &log_hash.to_le_bytes()]);
        rep.evaluations = evaluations.max(1);
        if n >= 2 {
            rep.nontrivial.push(hash64(&[kind.as_bytes(), &s.model_seed.to_le_bytes(), format!("{:?}", s.cfg).as_bytes(), &log_hash.to_le_bytes()]));
        }
        rep.sample = json!({
            "kind": kind, "config": s.cfg.describe(), "model": m0.describe(), "mode": if s.sched { "scheduled" } else { "free" },
            "prestate_snapshots": pre_ids.len(), "mutation_log": log.iter().map(|o| o.label()).collect::<Vec<_>>(),
            "crash_prefixes_checked": n + 1,
        });
        if !rep.violations.is_empty() && rep.trace.is_empty() {
            rep.trace = sim.trace.clone();
        }
        rep
    }
}
