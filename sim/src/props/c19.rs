//! C19 The local cache is transparent.

use std::collections::{BTreeMap, BTreeSet};
use std::path::{Path, PathBuf};
use std::sync::Arc;

use rustic_core::repofile::{SnapshotFile, SnapshotId};
use rustic_core::{BackupOptions, CheckOptions, FileType, Id, LimitOption, PruneOptions, RusticResult};
use serde::{Deserialize, Serialize};
use serde_json::{Value, json};

use crate::audit::id_hex;
use crate::common;
use crate::harness::{Env, Prop, Report, Tier};
use crate::interpose;
use crate::model::{FsModel, GenParams, ReadPlan, SimSource, edit_model};
use crate::props::c01::build_model_min;
use crate::readback::{ReadBack, ReadBackOpts, read_back};
use crate::restore_check::fresh_dir;
use crate::rng::{Rng, hash64};
use crate::sched::Mode;
use crate::sim::{Cmd, Sim};
use crate::store::{SimStore, files_digest, ft_code};
use crate::world::{KeyMat, RepoCfg, RepoOpen, repo_on, snap_template};

pub struct C19;

#[derive(Clone, Debug, Serialize, Deserialize)]
pub struct Spec {
    pub pool: usize,
    pub subseed: u64,
    pub cfg: RepoCfg,
    pub gen: GenParams,
    pub model_seed: u64,
    pub nops: usize,
    pub start_s: i64,
}

fn open_c(store: &Arc<SimStore>, key: &KeyMat, actor: u32, cache: &Option<PathBuf>) -> RusticResult<RepoOpen> {
    repo_on(store.handle(actor), None, cache.clone())?.open(&key.creds())
}

/// all regular files below the cache directory: (relative path, size)
fn cache_files(dir: &Path) -> Vec<(PathBuf, u64)> {
    fn rec(d: &Path, base: &Path, out: &mut Vec<(PathBuf, u64)>) {
        let Ok(rd) = std::fs::read_dir(d) else { return };
        let mut es: Vec<_> = rd.flatten().collect();
        es.sort_by_key(std::fs::DirEntry::file_name);
        for e in es {
            let p = e.path();
            if p.is_dir() {
                rec(&p, base, out);
            } else if let Ok(md) = e.metadata() {
                out.push((p.strip_prefix(base).unwrap_or(&p).to_path_buf(), md.len()));
            }
        }
    }
    let mut out = vec![];
    rec(dir, dir, &mut out);
    out
}

/// the logical result of an operation, comparable between the cached and the uncached world
#[derive(Debug, Clone, PartialEq, Eq)]
struct Outcome {
    class: String,
    /// trees of all snapshots listed afterwards
    trees: BTreeSet<String>,
    extra: String,
}

impl Prop for C19 {
    fn id(&self) -> &'static str {
        "C19"
    }
    fn scheduled(&self) -> bool {
        true
    }
    fn runs(&self, tier: Tier) -> u64 {
        match tier {
            Tier::Quick => 1600,
            Tier::Thorough => 15000,
        }
    }
    fn rule(&self) -> &'static str {
        "one run = two worlds fed the same program of 6-14 operations (backup of an edited source, forget, repacking prune, check with and without read-data, full read-back of a snapshot, get a snapshot by full id): in world C the operations go alternately through a handle with a cache directory on tmpfs and through an uncached handle on the same SimStore \
         (so the repository changes behind the cache), with cache faults planted between operations (entry truncated / extended / deleted / replaced by a directory so that reading it fails, entry for an id the store never had, non-hex names, -tmp- leftovers, a directory of another repository id); in world U every operation uses an uncached handle. \
         Oracles per operation: same Ok/Err class and same logical result (set of snapshot trees listed, check verdict, read-back verdict) in both worlds; at the end both repositories read back equal to the models and check clean; after every operation that lists snapshots and index through the cached handle, the cache holds no snapshot or index entry that the store lacks or that has another size. \
         evaluations = operations compared; non-trivial = a planted fault concerned an entry that a later cached operation had to read or clean up; distinct = hash(program, faults)"
    }
    fn assumptions(&self) -> Vec<&'static str> {
        vec!["file ids differ between the two worlds (different op counts shift the nonce epochs), so results are compared by snapshot trees, verdicts and read-back, not by file ids"]
    }

    fn generate(&self, subseed: u64, _tier: Tier) -> Value {
        let mut rng = Rng::new(subseed);
        let mut cfg = RepoCfg::gen_small(&mut rng);
        if cfg.compression.is_some_and(|c| c > 3) {
            cfg.compression = Some(1);
        }
        let mut genp = GenParams::default();
        genp.max_entries = 6;
        genp.max_file = 30_000;
        genp.total_cap = 80_000;
        genp.special = false;
        genp.sizes_of_interest = vec![4096];
        let spec = Spec { pool: *rng.pick(&[1usize, 2]), subseed, cfg, gen: genp, model_seed: rng.next_u64(), nops: rng.range(6, 14) as usize, start_s: common::BASE_TIME_S + rng.range(0, 400 * 86400) as i64 };
        serde_json::to_value(spec).unwrap()
    }

    fn shrink(&self, spec: &Value) -> Vec<Value> {
        let s: Spec = serde_json::from_value(spec.clone()).unwrap();
        let mut out = vec![];
        if s.nops > 1 {
            let mut c = s.clone();
            c.nops -= 1;
            out.push(serde_json::to_value(c).unwrap());
        }
        out
    }

    #[allow(clippy::too_many_lines)]
    fn exec(&self, spec: &Value, env: &Env) -> Report {
        let s: Spec = serde_json::from_value(spec.clone()).expect("spec");
        let mut rep = Report::default();
        let cache_dir = fresh_dir(&env.tmp, "c19-cache");
        let plan = ReadPlan { frag: vec![0, 4097], eintr_every: 0, gate_reads_every: 0 };
        // the program is drawn once and executed in both worlds
        let mut prog_rng = Rng::new(s.subseed ^ 0xc19);
        let ops: Vec<(usize, bool, u64)> = (0..s.nops).map(|i| (if i < 2 { 0 } else { prog_rng.weighted(&[4, 2, 2, 2, 3, 2]) }, prog_rng.chance(1, 2), prog_rng.next_u64())).collect();
        let mut program = vec![];
        let mut outcomes: Vec<Vec<Outcome>> = vec![vec![], vec![]];
        let mut finals = vec![];
        let mut planted_total = 0u64;
        let mut cache_cleaned = false;
        for world in 0..2 {
            let cached_world = world == 0;
            common::run_setup(s.subseed, s.start_s);
            let mut sim = Sim::new(s.subseed, s.cfg.clone(), &env.cpus, if cached_world { "c19-C" } else { "c19-U" });
            if let Cmd::Err(e) = sim.init() {
                rep.sample = json!({"skipped": "configuration refused by init", "error": e});
                rep.evaluations = 1;
                let _ = std::fs::remove_dir_all(&cache_dir);
                return rep;
            }
            let mut rng = Rng::new(s.subseed ^ 0x19);
            let mut fault_rng = Rng::new(s.subseed ^ 0xfa17);
            let mut model = build_model_min(&s.gen, s.model_seed, &[], s.start_s, 2);
            for (i, (kind, through_cache, r)) in ops.iter().enumerate() {
                let cache = (cached_world && *through_cache).then(|| cache_dir.clone());
                let (st, ky, sched, seed) = (sim.store.clone(), sim.key.clone(), sim.sched.clone(), sim.seed);
                let name;
                let mut extra = String::new();
                let class;
                match kind {
                    0 => {
                        name = "backup";
                        let now = interpose::clock_now() / 1_000_000_000;
                        let _ = edit_model(&mut rng, &mut model, &s.gen, now, 3);
                        let (m, p, c) = (model.clone(), plan.clone(), cache.clone());
                        let res = sim.run(&Mode::Free, move || {
                            let repo = open_c(&st, &ky, 1, &c)?.to_indexed_ids()?;
                            let src = SimSource::new(m, sched, 1, p, seed);
                            repo.archive(&BackupOptions::default(), &src, snap_template("c19")?, &[std::path::PathBuf::from("/sim")])
                        });
                        class = res.class();
                        if let Cmd::Ok(sn) = res {
                            let _ = sim.snaps.insert(id_hex(&sn.id), crate::sim::SnapRec { snap: sn, model: model.clone() });
                        }
                    }
                    1 => {
                        name = "forget";
                        if sim.snaps.len() < 2 {
                            continue;
                        }
                        let victim = sim.snaps.iter().min_by_key(|(_, r)| r.snap.time.timestamp()).map(|(k, _)| k.clone()).unwrap();
                        let sid: SnapshotId = victim.parse::<Id>().unwrap().into();
                        let c = cache.clone();
                        let res = sim.run(&Mode::Free, move || open_c(&st, &ky, 1, &c)?.delete_snapshots(&[sid]));
                        class = res.class();
                        if res.is_ok() {
                            let _ = sim.snaps.remove(&victim);
                        }
                    }
                    2 => {
                        name = "prune";
                        let o = PruneOptions::default().max_unused(LimitOption::Percentage(0)).max_repack(LimitOption::Unlimited).keep_delete(jiff::Span::new()).instant_delete(r % 2 == 0);
                        let c = cache.clone();
                        let res = sim.run(&Mode::Free, move || {
                            let repo = open_c(&st, &ky, 1, &c)?;
                            let plan = repo.prune_plan(&o)?;
                            repo.prune(&o, plan)
                        });
                        class = res.class();
                    }
                    3 => {
                        name = "check";
                        let rd = r % 2 == 0;
                        let c = cache.clone();
                        let res = sim.run(&Mode::Free, move || {
                            let repo = open_c(&st, &ky, 1, &c)?;
                            let res = repo.check(CheckOptions::default().read_data(rd))?;
                            Ok(common::check_errors(&res).iter().map(|e| common::classify(e)).collect::<BTreeSet<_>>())
                        });
                        class = res.class();
                        if let Cmd::Ok(errs) = res {
                            extra = format!("check errors: {errs:?}");
                        }
                    }
                    4 => {
                        name = "read-back";
                        let recs: Vec<crate::sim::SnapRec> = sim.snaps.values().cloned().collect();
                        if recs.is_empty() {
                            continue;
                        }
                        // choose by time so that both worlds read the corresponding snapshot
                        let mut recs = recs;
                        recs.sort_by_key(|r| r.snap.time.timestamp());
                        let rec = recs[(*r as usize) % recs.len()].clone();
                        let c = cache.clone();
                        let mut r2 = Rng::new(*r);
                        let res = sim.run(&Mode::Free, move || {
                            let repo = open_c(&st, &ky, 1, &c)?.to_indexed()?;
                            Ok(read_back(&repo, &rec.snap, &rec.model, &ReadBackOpts::default(), &mut r2))
                        });
                        class = res.class();
                        if let Cmd::Ok(rb) = res {
                            extra = match rb {
                                ReadBack::Equal => "equal".into(),
                                ReadBack::Differs(..) => "differs".into(),
                                ReadBack::Err(_, e) => format!("err:{}", common::classify(&e)),
                            };
                        }
                    }
                    _ => {
                        name = "get-snapshot-by-id";
                        let mut recs: Vec<crate::sim::SnapRec> = sim.snaps.values().cloned().collect();
                        if recs.is_empty() {
                            continue;
                        }
                        recs.sort_by_key(|r| r.snap.time.timestamp());
                        let rec = recs[(*r as usize) % recs.len()].clone();
                        let c = cache.clone();
                        let full = id_hex(&rec.snap.id);
                        let res = sim.run(&Mode::Free, move || {
                            let repo = open_c(&st, &ky, 1, &c)?;
                            let got: Vec<SnapshotFile> = repo.get_snapshots(&[full])?;
                            Ok(got.first().map(|s| id_hex(&s.tree)).unwrap_or_default())
                        });
                        class = res.class();
                        if let Cmd::Ok(tree) = res {
                            extra = format!("tree equals recorded: {}", tree == id_hex(&rec.snap.tree));
                        }
                    }
                }
                // listing after the op (uncached view, does not touch the cache)
                let trees: BTreeSet<String> = sim.snaps.values().map(|r| id_hex(&r.snap.tree)).collect();
                if world == 0 {
                    program.push(format!("{name}{}", if *through_cache { " (cached handle)" } else { " (uncached handle)" }));
                }
                outcomes[world].push(Outcome { class, trees, extra });
                interpose::clock_advance(61_000_000_000);

                if cached_world {
                    // ---- cache consistency after an op that listed snapshots and index through the cache
                    if *through_cache && matches!(kind, 2 | 3 | 4) {
                        let repo_dirs: Vec<PathBuf> = std::fs::read_dir(&cache_dir).map(|rd| rd.flatten().map(|e| e.path()).filter(|p| p.is_dir()).collect()).unwrap_or_default();
                        let files = sim.store.files();
                        for rd in repo_dirs {
                            // only the directory of this repository id is maintained by the handle
                            if rd.file_name().and_then(|n| n.to_str()).is_some_and(|n| n.starts_with("ffff")) {
                                continue;
                            }
                            for (tpe, sub) in [(FileType::Snapshot, "snapshots"), (FileType::Index, "index")] {
                                // read-back loads the index (lists index files) but does not list snapshots
                                if *kind == 4 && tpe == FileType::Snapshot {
                                    continue;
                                }
                                for (p, size) in cache_files(&rd.join(sub)) {
                                    let Some(nm) = p.file_name().and_then(|n| n.to_str()) else { continue };
                                    let Ok(id) = nm.parse::<Id>() else { continue };
                                    if nm.len() != 64 {
                                        continue;
                                    }
                                    match files.get(&(ft_code(tpe), id)) {
                                        None => rep.violation(format!("C19/stale-cache-entry-survives-listing:{sub}"), format!("after op {i} ({name}): cache still holds {sub}/{nm} which the store does not have")),
                                        Some(b) if b.len() as u64 != size => rep.violation(format!("C19/wrong-size-cache-entry-survives-listing:{sub}"), format!("after op {i} ({name}): cache entry {sub}/{nm} has {size} bytes, the store {}", b.len())),
                                        _ => {}
                                    }
                                }
                            }
                        }
                    }
                    // ---- plant cache faults for the next operation
                    let repo_dir = std::fs::read_dir(&cache_dir).ok().and_then(|rd| rd.flatten().map(|e| e.path()).find(|p| p.is_dir() && !p.file_name().and_then(|n| n.to_str()).is_some_and(|n| n.starts_with("ffff"))));
                    if let Some(rd) = repo_dir {
                        let entries = cache_files(&rd);
                        let nf = fault_rng.usize(3);
                        for _ in 0..nf {
                            planted_total += 1;
                            match fault_rng.usize(8) {
                                0 if !entries.is_empty() => {
                                    let (p, size) = &entries[fault_rng.usize(entries.len())];
                                    let f = rd.join(p);
                                    if let Ok(d) = std::fs::read(&f) {
                                        let _ = size;
                                        let _ = std::fs::write(&f, &d[..d.len() / 2]);
                                        rep.fire("cache_entry_truncated", 1);
                                    }
                                }
                                1 if !entries.is_empty() => {
                                    let (p, _) = &entries[fault_rng.usize(entries.len())];
                                    let f = rd.join(p);
                                    if let Ok(mut d) = std::fs::read(&f) {
                                        d.extend_from_slice(b"garbage-appended");
                                        let _ = std::fs::write(&f, d);
                                        rep.fire("cache_entry_extended", 1);
                                    }
                                }
                                2 if !entries.is_empty() => {
                                    let (p, _) = &entries[fault_rng.usize(entries.len())];
                                    let _ = std::fs::remove_file(rd.join(p));
                                    rep.fire("cache_entry_deleted", 1);
                                }
                                7 if !entries.is_empty() => {
                                    // the entry cannot be read at all (EISDIR; stands for EACCES / EIO): a directory in its place
                                    let (p, _) = &entries[fault_rng.usize(entries.len())];
                                    let f = rd.join(p);
                                    if std::fs::remove_file(&f).is_ok() && std::fs::create_dir(&f).is_ok() {
                                        rep.fire("cache_entry_replaced_by_a_directory", 1);
                                    }
                                }
                                3 => {
                                    let fake = hex::encode(fault_rng.bytes(32));
                                    let sub = *fault_rng.pick(&["snapshots", "index", "data"]);
                                    let d = rd.join(sub).join(&fake[..2]);
                                    let _ = std::fs::create_dir_all(&d);
                                    let _ = std::fs::write(d.join(&fake), fault_rng.bytes(300));
                                    rep.fire("cache_entry_for_unknown_id", 1);
                                }
                                4 => {
                                    let d = rd.join("snapshots").join("zz");
                                    let _ = std::fs::create_dir_all(&d);
                                    let _ = std::fs::write(d.join("not-a-hex-name"), b"x");
                                    rep.fire("cache_non_hex_name", 1);
                                }
                                5 => {
                                    let fake = hex::encode(fault_rng.bytes(32));
                                    let d = rd.join("index").join(&fake[..2]);
                                    let _ = std::fs::create_dir_all(&d);
                                    let _ = std::fs::write(d.join(format!("{fake}-tmp-")), b"leftover");
                                    rep.fire("cache_tmp_leftover", 1);
                                }
                                _ => {
                                    let other = cache_dir.join(format!("ffff{}", hex::encode(fault_rng.bytes(30))));
                                    let _ = std::fs::create_dir_all(other.join("snapshots").join("ab"));
                                    let _ = std::fs::write(other.join("snapshots").join("ab").join(hex::encode(fault_rng.bytes(32))), b"foreign");
                                    rep.fire("cache_foreign_repository_dir", 1);
                                }
                            }
                        }
                        if nf > 0 {
                            cache_cleaned = true;
                        }
                    }
                }
            }
            // final state of the world through uncached handles
            let v = sim.verify(true);
            finals.push((v, files_digest(&sim.store.files()), sim.snaps.len()));
            if cached_world {
                sim.finish_report(&mut rep);
            }
        }
        let _ = std::fs::remove_dir_all(&cache_dir);
        // ---------- compare the worlds
        let n = outcomes[0].len().min(outcomes[1].len());
        if outcomes[0].len() != outcomes[1].len() {
            rep.violation("C19/worlds-executed-different-programs", format!("{} vs {} operations", outcomes[0].len(), outcomes[1].len()));
        }
        for i in 0..n {
            let (c, u) = (&outcomes[0][i], &outcomes[1][i]);
            if c != u {
                let what = program.get(i).cloned().unwrap_or_default();
                let opname = what.split(' ').next().unwrap_or("").to_string();
                let fp = if c.class != u.class {
                    format!("C19/result-class-differs-with-cache:{opname}")
                } else if c.trees != u.trees {
                    format!("C19/snapshot-set-differs-with-cache:{opname}")
                } else {
                    format!("C19/logical-result-differs-with-cache:{opname}")
                };
                rep.violation(fp, format!("op {i} `{what}`: with cache {c:?} — without {u:?}; program {program:?}"));
                break;
            }
        }
        for (w, (v, _, _)) in finals.iter().enumerate() {
            for (fp, d) in v {
                if w == 0 {
                    rep.violation(format!("C19/cached-world-final:{fp}"), d.clone());
                } else {
                    rep.harness_errors.push(format!("uncached world unhealthy: {fp}: {d}"));
                }
            }
        }
        if finals.len() == 2 && finals[0].2 != finals[1].2 {
            rep.violation("C19/final-snapshot-count-differs", format!("{} vs {}", finals[0].2, finals[1].2));
        }
        rep.evaluations = n.max(1) as u64;
        rep.fire("cache_faults_planted", planted_total);
        if cache_cleaned {
            rep.nontrivial.push(hash64(&[format!("{program:?}").as_bytes(), &s.subseed.to_le_bytes()]));
        }
        rep.trace_hash = hash64(&[format!("{:?}", outcomes[0]).as_bytes()]);
        rep.sample = json!({"program": program, "config": s.cfg.describe(), "cache_faults_planted": planted_total});
        let _: BTreeMap<u8, FsModel> = BTreeMap::new();
        rep
    }
}
