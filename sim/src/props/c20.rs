//! C20 Local storage backends are exact maps and publish files atomically.
//!
//! No scheduler here: the real backends do their I/O through `std::fs` / OpenDAL, not through a
//! seam. This is reference-model history checking (a `BTreeMap<(type, id), bytes>` model against
//! `LocalBackend` on tmpfs, `OpenDALBackend` on the `fs` service on tmpfs, `OpenDALBackend` on the
//! `memory` service, and – as a cross-check of the simulator itself – `SimStore`) plus one injected
//! crash point (the pre-publish hook of `LocalBackend::write_bytes`).

use std::collections::{BTreeMap, BTreeSet};
use std::panic::{AssertUnwindSafe, catch_unwind};
use std::path::{Path, PathBuf};
use std::sync::mpsc::{RecvTimeoutError, channel};
use std::sync::{Arc, Mutex};
use std::time::{Duration, Instant};

use bytes::Bytes;
use rustic_backend::OpenDALBackend;
use rustic_backend::local::LocalBackend;
use rustic_core::{BytesList, ErrorKind, FileType, Id, RusticError, RusticResult, WriteBackend};
use serde::{Deserialize, Serialize};
use serde_json::{Value, json};

use crate::common::{self, classify, etext, short_loc};
use crate::harness::{Env, Prop, Report, Tier};
use crate::rng::{Rng, hash64};
use crate::sched::Sched;
use crate::store::{ALL_TYPES, SimStore, ft_code, ft_from, ft_name};

pub struct C20;

pub const T_LOCAL: &str = "local";
pub const T_OFS: &str = "opendal-fs";
pub const T_OMEM: &str = "opendal-memory";
pub const T_SIM: &str = "simstore";

#[derive(Clone, Debug, Serialize, Deserialize)]
pub struct Spec {
    pub pool: usize,
    pub subseed: u64,
    pub start_s: i64,
    /// backends the sequence is executed on (each against its own copy of the model)
    pub targets: Vec<String>,
    /// number of operations of the sequence
    pub n_ops: usize,
    /// minimiser: indices of operations that are skipped
    pub skip: Vec<usize>,
    /// ids per file type
    pub ids: usize,
    /// cap of a content length (bytes)
    pub max_len: usize,
    /// call `create()` before the first operation
    pub create: bool,
    /// plant stray files (directory based targets only)
    pub strays: bool,
    /// arm the pre-publish hook of LocalBackend (observe at every write, fail about half of them)
    pub hook: bool,
    /// multi-piece writes may contain empty pieces in front of non-empty ones
    #[serde(default)]
    pub empty_pieces: bool,
}

// ---------------------------------------------------------------------------------------------
// operations

#[derive(Clone, Debug)]
enum OpK {
    /// write (or overwrite) seeded bytes (length drawn from the seed) split into `parts` pieces
    Write { parts: usize, content_seed: u64 },
    ReadFull,
    /// class of (offset, length), resolved against the model's file size at execution time
    ReadPartial { class: u8, a: u64, b: u64 },
    List,
    ListWithSize,
    Remove,
}

#[derive(Clone, Debug)]
struct Op {
    idx: usize,
    tpe: FileType,
    /// index into the id pool of the type; `ids` = an id that is never written
    slot: usize,
    k: OpK,
    /// the hook (if armed) fails this write
    crash: bool,
}

const RANGE_CLASSES: u8 = 16;

fn range_class_name(c: u8) -> &'static str {
    match c {
        0 => "whole",
        1 => "offset0-len0",
        2 => "end-len0",
        3 => "interior-len0",
        4 => "interior",
        5 => "prefix",
        6 => "to-end",
        7 => "last-byte",
        8 => "one-past-end",
        9 => "at-end-len1",
        10 => "beyond-end-len0",
        11 => "beyond-end",
        12 => "whole-plus-1",
        13 => "offset-max-len0",
        14 => "offset+len=2^32-1",
        _ => "offset+len>=2^32",
    }
}

/// (offset, length, valid) of a range class for a file of `n` bytes
fn resolve_range(class: u8, a: u64, b: u64, n: u64) -> (u32, u32) {
    let n32 = n as u32;
    match class {
        0 => (0, n32),
        1 => (0, 0),
        2 => (n32, 0),
        3 => ((a % (n + 1)) as u32, 0),
        4 => {
            if n < 3 {
                (0, n32)
            } else {
                let off = 1 + a % (n - 2);
                let len = 1 + b % (n - off - 1).max(1);
                (off as u32, len.min(n - off) as u32)
            }
        }
        5 => (0, (1 + b % n.max(1)).min(n) as u32),
        6 => {
            let off = a % (n + 1);
            (off as u32, (n - off) as u32)
        }
        7 => (n32.saturating_sub(1), n32.min(1)),
        8 => {
            let off = a % (n + 1);
            (off as u32, (n - off + 1) as u32)
        }
        9 => (n32, 1),
        10 => (n32 + 1 + (a % 4096) as u32, 0),
        11 => (n32 + 1 + (a % 70_000) as u32, 1 + (b % 70_000) as u32),
        12 => (0, n32 + 1),
        13 => (u32::MAX, 0),
        14 => (u32::MAX - 1 - (a % 4096) as u32, 1 + (a % 4096) as u32),
        _ => {
            let len = 1 + (b % 4096) as u32;
            (u32::MAX - (a % u64::from(len)) as u32, len)
        }
    }
}

const SIZE_POINTS: [usize; 14] = [0, 1, 2, 63, 64, 4095, 4096, 4097, 65_535, 65_536, 1 << 20, (1 << 20) + 1, (4 << 20) - 1, 4 << 20];

fn draw_len(rng: &mut Rng, max_len: usize) -> usize {
    let l = match rng.weighted(&[3, 4, 6, 5, 3, 2, 1]) {
        0 => 0,
        1 => *rng.pick(&SIZE_POINTS),
        2 => rng.range(1, 300) as usize,
        3 => rng.range(300, 70_000) as usize,
        4 => rng.range(70_000, 600_000) as usize,
        5 => rng.range(600_000, 1_200_000) as usize,
        _ => rng.range(1_200_000, 4 << 20) as usize,
    };
    l.min(max_len)
}

fn gen_op(subseed: u64, idx: usize, ids: usize) -> Op {
    let mut rng = Rng::new(hash64(&[&subseed.to_le_bytes(), b"op", &(idx as u64).to_le_bytes()]));
    let tpe = ft_from(rng.weighted(&[2, 2, 3, 3, 5]) as u8);
    // mostly pool ids, now and then the never-written id
    let slot = if rng.chance(1, 12) { ids } else { rng.usize(ids) };
    let k = match rng.weighted(&[7, 4, 9, 3, 3, 3]) {
        0 => OpK::Write { parts: *rng.pick(&[1usize, 1, 1, 2, 3, 5, 0]), content_seed: rng.next_u64() },
        1 => OpK::ReadFull,
        2 => OpK::ReadPartial { class: rng.below(u64::from(RANGE_CLASSES)) as u8, a: rng.next_u64() >> 8, b: rng.next_u64() >> 8 },
        3 => OpK::List,
        4 => OpK::ListWithSize,
        _ => OpK::Remove,
    };
    let crash = rng.chance(1, 2);
    Op { idx, tpe, slot, k, crash }
}

fn gen_content(seed: u64, len: usize) -> Bytes {
    Rng::new(seed).bytes(len).into()
}

fn split_parts(data: &Bytes, parts: usize, seed: u64, empty_pieces: bool) -> BytesList {
    let mut rng = Rng::new(seed ^ 0x9a27);
    let mut list = BytesList::default();
    if parts == 0 || data.is_empty() {
        // an empty list / a list of empty pieces (only for empty contents; otherwise one piece)
        if data.is_empty() {
            for _ in 0..parts {
                list.add(Bytes::new());
            }
        } else {
            list.add(data.clone());
        }
        return list;
    }
    let mut cuts: Vec<usize> = if data.len() > 1 { (0..parts - 1).map(|_| 1 + rng.usize(data.len() - 1)).collect() } else { vec![] };
    cuts.sort_unstable();
    cuts.dedup();
    let mut pieces: Vec<Bytes> = vec![];
    let mut from = 0;
    for c in cuts {
        pieces.push(data.slice(from..c));
        from = c;
    }
    pieces.push(data.slice(from..));
    if empty_pieces && parts > 1 {
        // an empty piece at the front, in the middle or at the end
        let at = rng.usize(pieces.len() + 1);
        pieces.insert(at, Bytes::new());
        if rng.chance(1, 3) {
            pieces.insert(0, Bytes::new());
        }
    }
    for p in pieces {
        list.add(p);
    }
    list
}

fn describe_pieces(list: &BytesList) -> String {
    list.slice().iter().map(|b| b.len().to_string()).collect::<Vec<_>>().join("+")
}

fn pool_id(subseed: u64, tpe: FileType, slot: usize) -> Id {
    if tpe == FileType::Config {
        // the id of a config file is ignored by every backend: use different ones on purpose
        return if slot == 0 { Id::default() } else { Id::new(crate::rng::sha256(&[b'c', slot as u8])) };
    }
    let mut d = crate::rng::sha256(&[&subseed.to_le_bytes()[..], &[ft_code(tpe), slot as u8]].concat());
    // packs: make some ids share the `data/xx` shard, one shard at each end of the range
    if tpe == FileType::Pack {
        d[0] = match slot {
            0 => 0x00,
            1 => 0xff,
            2 => 0xff,
            _ => d[0],
        };
    }
    Id::new(d)
}

// ---------------------------------------------------------------------------------------------
// targets

type Model = BTreeMap<(u8, Id), Bytes>;

fn mkey(tpe: FileType, id: &Id) -> (u8, Id) {
    (ft_code(tpe), if tpe == FileType::Config { Id::default() } else { *id })
}

struct Target {
    name: &'static str,
    be: Arc<dyn WriteBackend>,
    /// a second, independently constructed handle on the same storage
    second: Arc<dyn WriteBackend>,
    /// root directory (directory based targets)
    root: Option<PathBuf>,
    model: Model,
    created: bool,
    /// files whose latest write carried an empty piece
    written_with_empty_piece: BTreeSet<(u8, Id)>,
}

fn new_target(name: &str, dir: &Path) -> Result<Target, String> {
    let e = |e: Box<RusticError>| etext(&e);
    match name {
        T_LOCAL => {
            let root = dir.join("local");
            let p = root.to_string_lossy().to_string();
            let be = LocalBackend::new(&p, Vec::<(String, String)>::new()).map_err(e)?;
            let second = LocalBackend::new(&p, Vec::<(String, String)>::new()).map_err(e)?;
            Ok(Target { name: T_LOCAL, be: Arc::new(be), second: Arc::new(second), root: Some(root), model: Model::new(), created: false, written_with_empty_piece: BTreeSet::new() })
        }
        T_OFS => {
            let root = dir.join("ofs");
            std::fs::create_dir_all(&root).map_err(|e| e.to_string())?;
            let opts: BTreeMap<String, String> = [("root".to_string(), root.to_string_lossy().to_string())].into();
            let be = OpenDALBackend::new("fs", opts.clone()).map_err(e)?;
            let second = OpenDALBackend::new("fs", opts).map_err(e)?;
            Ok(Target { name: T_OFS, be: Arc::new(be), second: Arc::new(second), root: Some(root), model: Model::new(), created: false, written_with_empty_piece: BTreeSet::new() })
        }
        T_OMEM => {
            let be = OpenDALBackend::new("memory", BTreeMap::new()).map_err(e)?;
            // the memory service lives in the operator: a clone is the only other handle there is
            let second = be.clone();
            Ok(Target { name: T_OMEM, be: Arc::new(be), second: Arc::new(second), root: None, model: Model::new(), created: false, written_with_empty_piece: BTreeSet::new() })
        }
        T_SIM => {
            let store = SimStore::new("c20", Sched::new());
            Ok(Target { name: T_SIM, be: store.handle(1), second: store.handle(2), root: None, model: Model::new(), created: false, written_with_empty_piece: BTreeSet::new() })
        }
        other => Err(format!("unknown target {other}")),
    }
}

/// the implementation behind a target (both OpenDAL targets run the same adapter code)
fn family(target: &str) -> &'static str {
    match target {
        T_LOCAL => "LocalBackend",
        T_OFS | T_OMEM => "OpenDALBackend",
        _ => "SimStore",
    }
}

/// outcome of one backend call
enum Res<T> {
    Ok(T),
    Err(String),
    Panic(String),
}

/// the backend call in flight (for the watchdog): what to report if it never returns
#[derive(Clone, Debug)]
struct InFlight {
    target: &'static str,
    /// call name plus culprit class, e.g. "write_bytes:pieces-with-empty-piece"
    api: String,
    detail: String,
}

/// (sequence number of the latest call, the call if it has not returned yet)
static CURRENT: Mutex<(u64, Option<InFlight>)> = Mutex::new((0, None));

/// CPU ticks (utime + stime) of every thread of this process
fn thread_ticks() -> BTreeMap<i32, u64> {
    let mut out = BTreeMap::new();
    if let Ok(rd) = std::fs::read_dir("/proc/self/task") {
        for e in rd.flatten() {
            let Ok(tid) = e.file_name().to_string_lossy().parse::<i32>() else { continue };
            let Ok(stat) = std::fs::read_to_string(e.path().join("stat")) else { continue };
            // fields after the parenthesised command name
            let Some(rest) = stat.rsplit_once(')').map(|x| x.1) else { continue };
            let f: Vec<&str> = rest.split_whitespace().collect();
            if f.len() > 12 {
                let ut: u64 = f[11].parse().unwrap_or(0);
                let st: u64 = f[12].parse().unwrap_or(0);
                let _ = out.insert(tid, ut + st);
            }
        }
    }
    out
}

extern "C" fn park_forever(_sig: libc::c_int) {
    loop {
        unsafe {
            libc::pause();
        }
    }
}

/// threads that were found spinning in a call that never returned (excluded from CPU accounting)
static LEAKED: Mutex<BTreeSet<i32>> = Mutex::new(BTreeSet::new());

/// CPU ticks consumed since `base` by all threads that are not known to be leaked; per thread
fn consumed_since(base: &BTreeMap<i32, u64>) -> BTreeMap<i32, u64> {
    let leaked = LEAKED.lock().unwrap().clone();
    thread_ticks()
        .into_iter()
        .filter(|(tid, _)| !leaked.contains(tid))
        .map(|(tid, t)| (tid, t.saturating_sub(base.get(&tid).copied().unwrap_or(0))))
        .collect()
}

/// A call that spins without returning cannot be cancelled; the spinning threads (the scenario
/// thread itself or a blocking-pool thread of the object-store runtime) are parked inside a
/// signal handler so that they stop consuming the CPU that later runs in this process (the
/// minimiser) need.
fn park_threads(tids: &[i32]) {
    unsafe {
        let mut sa: libc::sigaction = std::mem::zeroed();
        sa.sa_sigaction = park_forever as *const () as usize;
        sa.sa_flags = libc::SA_NODEFER;
        let _ = libc::sigaction(libc::SIGUSR2, &sa, std::ptr::null_mut());
    }
    let mut leaked = LEAKED.lock().unwrap();
    for tid in tids {
        unsafe {
            let _ = libc::syscall(libc::SYS_tgkill, libc::getpid(), *tid, libc::SIGUSR2);
        }
        let _ = leaked.insert(*tid);
    }
}

/// CPU time (in 10 ms ticks) the threads of this process may consume during one backend call
/// before the call counts as spinning (a 4 MiB write or read costs about one tick), and the
/// wall time after which a call that consumes nothing counts as blocked.
const SPIN_TICKS: u64 = 120;
const BLOCKED_WALL: Duration = Duration::from_secs(60);

/// one backend call on the scenario thread; the watchdog (the thread that called `exec`) sees
/// it through `CURRENT`
fn call<T>(target: &'static str, api: &str, detail: impl FnOnce() -> String, f: impl FnOnce() -> RusticResult<T>) -> Res<T> {
    let _ = common::take_panics();
    {
        let mut c = CURRENT.lock().unwrap();
        c.0 += 1;
        c.1 = Some(InFlight { target, api: api.to_string(), detail: detail() });
    }
    let r = catch_unwind(AssertUnwindSafe(f));
    CURRENT.lock().unwrap().1 = None;
    match r {
        Ok(Ok(v)) => Res::Ok(v),
        Ok(Err(e)) => Res::Err(etext(&e)),
        Err(p) => {
            let recorded = common::take_panics();
            Res::Panic(recorded.first().cloned().unwrap_or_else(|| crate::sched::panic_text(&*p)))
        }
    }
}

/// an error of the environment (not of the backend): scratch space exhausted
fn env_error(e: &str) -> bool {
    e.contains("No space left") || e.contains("os error 28") || e.contains("Too many open files") || e.contains("Cannot allocate memory")
}

// ---------------------------------------------------------------------------------------------
// stray files

/// plants foreign files below `root`; returns (kind, relative path) of every planted object
fn plant_strays(root: &Path, subseed: u64, ids: usize, rng: &mut Rng) -> Vec<(&'static str, String)> {
    let mut out = vec![];
    let hex_of = |tag: &str, n: usize| -> String {
        let d = crate::rng::sha256(&[&subseed.to_le_bytes()[..], tag.as_bytes(), &[n as u8]].concat());
        hex::encode(d)
    };
    let mut put = |kind: &'static str, rel: String, dir: bool, len: usize| {
        let p = root.join(&rel);
        if let Some(parent) = p.parent() {
            let _ = std::fs::create_dir_all(parent);
        }
        let ok = if dir { std::fs::create_dir_all(&p).is_ok() } else { std::fs::write(&p, vec![0x5a; len]).is_ok() };
        if ok {
            out.push((kind, rel));
        }
    };
    for tpe in [FileType::Key, FileType::Snapshot, FileType::Index, FileType::Pack] {
        let d = tpe.dirname();
        // inside the shard directory for packs
        let shard = |h: &str| if tpe == FileType::Pack { format!("{d}/{}", &h[..2]) } else { d.to_string() };
        if rng.chance(2, 3) {
            put("non-hex-name", format!("{d}/README"), false, 11);
        }
        if rng.chance(1, 2) {
            let h = hex_of("nonhex", 1);
            put("non-hex-name", format!("{}/{}.bak", shard(&h), &h), false, 7);
        }
        if rng.chance(1, 2) {
            // 64 characters, one of them not a hex digit
            let h = hex_of("nonhex64", 2);
            put("non-hex-name", format!("{}/{}g", shard(&h), &h[..63]), false, 9);
        }
        if rng.chance(2, 3) {
            let h = hex_of("short", 3);
            put("hex-name-wrong-length", format!("{}/{}", shard(&h), &h[..63]), false, 5);
            put("hex-name-wrong-length", format!("{}/{}", shard(&h), &h[..62]), false, 5);
        }
        if rng.chance(2, 3) {
            let h = hex_of("long", 4);
            put("hex-name-wrong-length", format!("{}/{}0", shard(&h), &h), false, 6);
            put("hex-name-wrong-length", format!("{}/{}00", shard(&h), &h), false, 6);
        }
        if rng.chance(1, 2) {
            let h = hex_of("dir", 5);
            put("directory-with-id-name", format!("{}/{}", shard(&h), &h), true, 0);
        }
        if rng.chance(1, 2) {
            put("empty-directory", format!("{d}/lost+found"), true, 0);
        }
        if rng.chance(2, 3) {
            // leftover temporary file of an id outside the pool
            let h = hex_of("tmp", 6);
            put("tmp-file", format!("{}/{}-tmp-", shard(&h), &h), false, 33);
        }
        if rng.chance(1, 2) {
            // leftover temporary file of a pool id (a later write of that id reuses the name)
            let id = pool_id(subseed, tpe, rng.usize(ids));
            let h = id.to_hex().to_string();
            put("tmp-file", format!("{}/{}-tmp-", shard(&h), &h), false, 70_001);
        }
        if rng.chance(1, 3) {
            let h = hex_of("upper", 7).to_uppercase();
            // names differing from an id only in letter case (skip all-digit names)
            if h.chars().any(|c| c.is_ascii_alphabetic()) {
                put("uppercase-hex-name", format!("{}/{}", shard(&h.to_lowercase()), &h), false, 21);
            }
        }
        if tpe == FileType::Pack {
            if rng.chance(1, 2) {
                let h = hex_of("shard", 8);
                let wrong = format!("{:02x}", u8::from_str_radix(&h[..2], 16).unwrap() ^ 0x80);
                put("id-name-in-wrong-shard", format!("{d}/{wrong}/{h}"), false, 13);
            }
            if rng.chance(1, 3) {
                let h = hex_of("noshard", 9);
                put("id-name-outside-shard", format!("{d}/{h}"), false, 13);
            }
        } else if rng.chance(1, 3) {
            let h = hex_of("nested", 10);
            put("id-name-in-subdirectory", format!("{d}/sub/{h}"), false, 13);
        }
    }
    if rng.chance(1, 2) {
        put("non-hex-name", "config.old".to_string(), false, 3);
        put("tmp-file", "config-tmp-".to_string(), false, 3);
    }
    out
}

/// culprit class of a planted stray (for fingerprints)
fn stray_class(kind: &str) -> &'static str {
    match kind {
        "id-name-in-wrong-shard" | "id-name-outside-shard" | "id-name-in-subdirectory" => "id-name-at-a-path-the-backend-never-uses",
        "uppercase-hex-name" => "uppercase-hex-name",
        "tmp-file" => "temporary-file",
        "non-hex-name" => "non-hex-name",
        "hex-name-wrong-length" => "hex-name-of-wrong-length",
        _ => "directory",
    }
}

/// which planted stray explains a listed id that the model does not have?
fn stray_kind_of(strays: &[(&'static str, String)], tpe: FileType, id: &Id) -> Option<&'static str> {
    let h = id.to_hex().to_string();
    strays
        .iter()
        .find(|(_, rel)| {
            let name = rel.rsplit('/').next().unwrap_or("");
            rel.starts_with(tpe.dirname()) && (name.to_lowercase() == h || name.to_lowercase().starts_with(&h))
        })
        .map(|(k, _)| *k)
}

// ---------------------------------------------------------------------------------------------
// the check

/// what the scenario has established so far; shared with the watchdog, which needs it when the
/// scenario thread never comes back from a backend call
#[derive(Default)]
struct Shared {
    rep: Report,
    trace: Vec<u8>,
    evaluations: u64,
}

struct Ctx {
    sh: Arc<Mutex<Shared>>,
    strays: BTreeMap<&'static str, Vec<(&'static str, String)>>,
}

impl Ctx {
    fn t(&mut self, s: &str) {
        let mut g = self.sh.lock().unwrap();
        g.trace.extend_from_slice(s.as_bytes());
        g.trace.push(b'\n');
    }

    fn eval(&mut self, n: u64) {
        self.sh.lock().unwrap().evaluations += n;
    }

    fn fire(&mut self, kind: &str, n: u64) {
        self.sh.lock().unwrap().rep.fire(kind, n);
    }

    fn harness(&mut self, e: String) {
        self.sh.lock().unwrap().rep.harness_errors.push(e);
    }

    fn violation(&mut self, target: &str, fp: String, detail: String) {
        self.t(&format!("V {fp}"));
        let mut g = self.sh.lock().unwrap();
        if target == T_SIM {
            // SimStore is the simulator's own model of a backend: a disagreement is a harness defect
            g.rep.harness_errors.push(format!("SimStore disagrees with the map model ({fp}): {detail}"));
            return;
        }
        if !g.rep.violations.iter().any(|v| v.fingerprint == fp) {
            g.rep.violation(fp, detail);
        }
    }

    fn nontrivial(&mut self, target: &str, what: &str, tpe: FileType, nums: &[u64]) {
        let mut parts: Vec<Vec<u8>> = vec![target.as_bytes().to_vec(), what.as_bytes().to_vec(), vec![ft_code(tpe)]];
        for n in nums {
            parts.push(n.to_le_bytes().to_vec());
        }
        let refs: Vec<&[u8]> = parts.iter().map(Vec::as_slice).collect();
        self.sh.lock().unwrap().rep.nontrivial.push(hash64(&refs));
    }
}

fn first_diff(a: &[u8], b: &[u8]) -> String {
    let n = a.len().min(b.len());
    let pos = (0..n).find(|&i| a[i] != b[i]);
    match pos {
        Some(p) => format!("first difference at byte {p} (lengths {} vs {})", a.len(), b.len()),
        None => format!("one is a prefix of the other (lengths {} vs {})", a.len(), b.len()),
    }
}

fn size_class(n: usize) -> &'static str {
    match n {
        0 => "empty",
        1..=4096 => "small",
        4097..=1_048_576 => "medium",
        _ => "large",
    }
}

/// compare both listings of one type with the model; `what` names the situation for the fingerprint
fn check_listing(cx: &mut Ctx, tg: &Target, be: &Arc<dyn WriteBackend>, tpe: FileType, model: &Model, what: &str) {
    let c = ft_code(tpe);
    let expect: BTreeMap<Id, u32> = model.iter().filter(|(k, _)| k.0 == c).map(|(k, v)| (k.1, v.len() as u32)).collect();
    let tname = ft_name(tpe);
    let strays = cx.strays.get(tg.name).cloned().unwrap_or_default();
    for with_size in [false, true] {
        cx.eval(1);
        let api = if with_size { "list_with_size" } else { "list" };
        let got: Res<Vec<(Id, Option<u32>)>> = if with_size {
            call(tg.name, api, || format!("{what}: {api}({tname})"), || be.list_with_size(tpe).map(|v| v.into_iter().map(|(i, s)| (i, Some(s))).collect()))
        } else {
            call(tg.name, api, || format!("{what}: {api}({tname})"), || be.list(tpe).map(|v| v.into_iter().map(|i| (i, None)).collect()))
        };
        let mut got = match got {
            Res::Ok(v) => v,
            Res::Err(e) => {
                cx.t(&format!("{api} {tname} err"));
                if env_error(&e) {
                    cx.harness(format!("{}: {api} {tname}: {e}", tg.name));
                } else if !tg.created {
                    // listing a location on which `create` was never called: an error is legitimate
                    cx.fire(&format!("{}:{api}_error_before_create", tg.name), 1);
                } else {
                    cx.violation(tg.name, format!("C20/listing-fails:{}:{api}:{}", tg.name, classify(&strip_paths(&e))), format!("{what}: {api}({tname}) failed: {e}"));
                }
                continue;
            }
            Res::Panic(p) => {
                cx.t(&format!("{api} {tname} panic"));
                cx.violation(tg.name, format!("C20/panic:{}:{api}:{}", family(tg.name), classify(&short_loc(&p))), format!("{what}: {api}({tname}) panicked: {p}"));
                continue;
            }
        };
        got.sort();
        cx.t(&format!("{api} {tname} {}", got.len()));
        if !expect.is_empty() {
            cx.nontrivial(tg.name, api, tpe, &[expect.len() as u64, expect.values().map(|s| u64::from(*s)).sum()]);
        }
        // duplicates
        let mut seen = BTreeSet::new();
        for (id, size) in &got {
            if !seen.insert(*id) {
                let kind = stray_kind_of(&strays, tpe, id);
                match kind {
                    Some(k) => cx.violation(tg.name, format!("C20/listing-reports-foreign-file:{}:{}", tg.name, stray_class(k)), format!("{what}: {api}({tname}) reports {} twice (a planted foreign file of kind {k} matches)", id.to_hex().as_str())),
                    None => cx.violation(tg.name, format!("C20/listing-reports-file-twice:{}:{api}:{tname}", tg.name), format!("{what}: {api}({tname}) reports {} twice", id.to_hex().as_str())),
                }
                continue;
            }
            match expect.get(id) {
                None => match stray_kind_of(&strays, tpe, id) {
                    Some(k) => cx.violation(
                        tg.name,
                        format!("C20/listing-reports-foreign-file:{}:{}", tg.name, stray_class(k)),
                        format!("{what}: {api}({tname}) reports {} which was never written through the backend (planted foreign file of kind {k})", id.to_hex().as_str()),
                    ),
                    None => cx.violation(
                        tg.name,
                        format!("C20/listing-reports-absent-file:{}:{api}:{tname}", tg.name),
                        format!("{what}: {api}({tname}) reports {} (size {size:?}) which the model does not hold (never written, removed, or its write was interrupted)", id.to_hex().as_str()),
                    ),
                },
                Some(sz) => {
                    if let Some(s) = size {
                        if s != sz {
                            cx.violation(tg.name, format!("C20/listing-reports-wrong-size:{}:{tname}", tg.name), format!("{what}: list_with_size({tname}) reports size {s} for {}, written: {sz} bytes", id.to_hex().as_str()));
                        }
                    }
                }
            }
        }
        for id in expect.keys() {
            if !seen.contains(id) {
                cx.violation(tg.name, format!("C20/listing-misses-file:{}:{api}:{tname}", tg.name), format!("{what}: {api}({tname}) does not report {} ({} bytes) which was written and not removed", id.to_hex().as_str(), expect[id]));
            }
        }
    }
}

/// paths of the scratch directory are not part of an error's class
fn strip_paths(e: &str) -> String {
    let mut out = String::new();
    for w in e.split_inclusive(|c: char| c.is_whitespace() || c == '`' || c == '"' || c == '\'') {
        if w.starts_with('/') { out.push_str("<path> ") } else { out.push_str(w) }
    }
    out
}

fn check_read_full(cx: &mut Ctx, tg: &Target, be: &Arc<dyn WriteBackend>, tpe: FileType, id: &Id, model: &Model, what: &str) {
    cx.eval(1);
    let tname = ft_name(tpe);
    let expect = model.get(&mkey(tpe, id));
    let lay = if tg.written_with_empty_piece.contains(&mkey(tpe, id)) { "read_full:file-written-with-empty-piece" } else { "read_full" };
    let r = call(tg.name, lay, || format!("{what}: read_full({tname} {})", id.to_hex().as_str()), || be.read_full(tpe, id));
    match (r, expect) {
        (Res::Ok(b), Some(e)) => {
            cx.t(&format!("read {tname} ok {}", b.len()));
            cx.nontrivial(tg.name, "read_full", tpe, &[e.len() as u64]);
            if b != *e {
                cx.violation(tg.name, format!("C20/read-full-wrong-bytes:{}:{tname}:{}", tg.name, size_class(e.len())), format!("{what}: read_full({tname} {}) returned bytes that differ from what was written: {}", id.to_hex().as_str(), first_diff(&b, e)));
            }
        }
        (Res::Ok(b), None) => {
            cx.t(&format!("read {tname} ok-absent {}", b.len()));
            cx.violation(tg.name, format!("C20/read-of-absent-file-succeeds:{}:read_full:{tname}", tg.name), format!("{what}: read_full({tname} {}) returned {} bytes although no such file was written (or it was removed / its write interrupted)", id.to_hex().as_str(), b.len()));
        }
        (Res::Err(e), Some(m)) => {
            cx.t(&format!("read {tname} err"));
            if env_error(&e) {
                cx.harness(format!("{}: read_full: {e}", tg.name));
            } else {
                cx.violation(tg.name, format!("C20/read-of-present-file-fails:{}:read_full:{tname}:{}", tg.name, size_class(m.len())), format!("{what}: read_full({tname} {}) failed although {} bytes were written: {e}", id.to_hex().as_str(), m.len()));
            }
        }
        (Res::Err(_), None) => cx.t(&format!("read {tname} err-absent")),
        (Res::Panic(p), _) => {
            cx.t(&format!("read {tname} panic"));
            cx.violation(tg.name, format!("C20/panic:{}:read_full:{}", family(tg.name), classify(&short_loc(&p))), format!("{what}: read_full({tname} {}) panicked: {p}", id.to_hex().as_str()));
        }
    }
}

fn check_read_partial(cx: &mut Ctx, tg: &Target, be: &Arc<dyn WriteBackend>, tpe: FileType, id: &Id, class: u8, off: u32, len: u32, model: &Model) {
    cx.eval(1);
    let tname = ft_name(tpe);
    let cname = range_class_name(class);
    let expect = model.get(&mkey(tpe, id));
    let end = u64::from(off) + u64::from(len);
    let lay = if tg.written_with_empty_piece.contains(&mkey(tpe, id)) { "read_partial:file-written-with-empty-piece" } else { "read_partial" };
    let r = call(
        tg.name,
        lay,
        || format!("read_partial({tname} {} offset {off} length {len}) [{cname}, file size {:?}]", id.to_hex().as_str(), expect.map(Bytes::len)),
        || be.read_partial(tpe, id, false, off, len),
    );
    let hexid = id.to_hex();
    match (r, expect) {
        (Res::Panic(p), m) => {
            cx.t(&format!("readp {tname} {cname} panic"));
            let situation = match m {
                _ if end > u64::from(u32::MAX) => "offset+length>=2^32",
                None => "absent-file",
                Some(m) if end <= m.len() as u64 => "valid-range",
                Some(_) => "range-past-end",
            };
            cx.violation(tg.name, format!("C20/panic:{}:read_partial:{situation}:{}", family(tg.name), classify(&short_loc(&p))), format!("read_partial({tname} {} offset {off} length {len}) [{cname}, file size {:?}] panicked instead of returning: {p}", hexid.as_str(), m.map(Bytes::len)));
        }
        (Res::Ok(b), None) => {
            cx.t(&format!("readp {tname} {cname} ok-absent {}", b.len()));
            if len == 0 && b.is_empty() {
                // nothing was claimed about any byte
                cx.fire(&format!("{}:zero_length_read_of_absent_file_ok", tg.name), 1);
            } else {
                cx.violation(tg.name, format!("C20/read-of-absent-file-succeeds:{}:read_partial:{tname}", tg.name), format!("read_partial({tname} {} offset {off} length {len}) returned {} bytes although no such file exists", hexid.as_str(), b.len()));
            }
        }
        (Res::Err(_), None) => cx.t(&format!("readp {tname} {cname} err-absent")),
        (Res::Ok(b), Some(m)) => {
            cx.t(&format!("readp {tname} {cname} ok {}", b.len()));
            let n = m.len() as u64;
            if end <= n {
                cx.nontrivial(tg.name, "read_partial", tpe, &[n, u64::from(off), u64::from(len)]);
                let want = &m[off as usize..end as usize];
                if b != want {
                    cx.violation(tg.name, format!("C20/read-partial-wrong-bytes:{}:{tname}:{cname}", tg.name), format!("read_partial({tname} {} offset {off} length {len}) of a {n}-byte file returned wrong bytes: {}", hexid.as_str(), first_diff(&b, want)));
                }
            } else {
                // the range reaches past the end: an error is the expected answer; an Ok must at
                // least not invent bytes (only the part of the range that exists, or nothing)
                let lo = u64::from(off).min(n) as usize;
                let want = &m[lo..];
                if b == want {
                    let kind = if len == 0 {
                        "zero_length_read_beyond_end_ok"
                    } else if want.is_empty() {
                        "read_beyond_end_returns_empty"
                    } else {
                        "read_past_end_returns_existing_part_only"
                    };
                    cx.fire(&format!("{}:{kind}", tg.name), 1);
                } else if b.is_empty() {
                    cx.fire(&format!("{}:read_past_end_returns_empty", tg.name), 1);
                } else {
                    cx.violation(tg.name, format!("C20/read-past-end-invents-bytes:{}:{tname}:{cname}", tg.name), format!("read_partial({tname} {} offset {off} length {len}) of a {n}-byte file returned {} bytes that are not the stored bytes of that range: {}", hexid.as_str(), b.len(), first_diff(&b, want)));
                }
            }
        }
        (Res::Err(e), Some(m)) => {
            cx.t(&format!("readp {tname} {cname} err"));
            let n = m.len() as u64;
            if end <= n {
                if env_error(&e) {
                    cx.harness(format!("{}: read_partial: {e}", tg.name));
                } else {
                    let zl = if len == 0 { "zero-length" } else { "non-empty" };
                    cx.violation(tg.name, format!("C20/read-of-valid-range-fails:{}:{tname}:{cname}:{zl}", tg.name), format!("read_partial({tname} {} offset {off} length {len}) of a {n}-byte file failed although the range lies inside the file: {e}", hexid.as_str()));
                }
            } else {
                cx.fire("read_past_end_rejected", 1);
            }
        }
    }
}

/// listings of all types + every stored file read back in full + a never-written id per type
fn full_audit(cx: &mut Ctx, tg: &Target, use_second: bool, what: &str) {
    let be = if use_second { tg.second.clone() } else { tg.be.clone() };
    let model = tg.model.clone();
    for tpe in ALL_TYPES {
        check_listing(cx, tg, &be, tpe, &model, what);
    }
    for (k, _) in &model {
        check_read_full(cx, tg, &be, ft_from(k.0), &k.1, &model, what);
    }
}

#[derive(Default)]
struct HookState {
    /// model of the target before the write in flight, and the write in flight
    model: Model,
    tpe: Option<FileType>,
    id: Option<Id>,
    new_len: usize,
    fail: bool,
    calls: u64,
    /// findings made inside the callback: (fingerprint, detail)
    findings: Vec<(String, String)>,
    notes: Vec<String>,
    second: Option<Arc<dyn WriteBackend>>,
}

fn hook_body(st: &mut HookState, tmp: &Path, target: &Path) {
    st.calls += 1;
    let (Some(tpe), Some(id), Some(be)) = (st.tpe, st.id, st.second.clone()) else {
        st.notes.push("hook called outside a write of this scenario".into());
        return;
    };
    let tname = ft_name(tpe);
    let c = ft_code(tpe);
    // the temporary file is complete (this is what will be published)
    match std::fs::metadata(tmp) {
        Ok(m) if m.len() as usize == st.new_len => {}
        Ok(m) => st.findings.push((format!("C20/temporary-file-incomplete-at-publish:local:{tname}"), format!("before the rename the temporary file has {} bytes, the content has {}", m.len(), st.new_len))),
        Err(e) => st.notes.push(format!("temporary file not found at the publish point: {e}")),
    }
    // (a) a second handle sees exactly the old state
    let expect: BTreeMap<Id, u32> = st.model.iter().filter(|(k, _)| k.0 == c).map(|(k, v)| (k.1, v.len() as u32)).collect();
    match catch_unwind(AssertUnwindSafe(|| be.list_with_size(tpe))) {
        Ok(Ok(v)) => {
            let got: BTreeMap<Id, u32> = v.into_iter().collect();
            let key = mkey(tpe, &id).1;
            match (got.get(&key), expect.get(&key)) {
                (Some(_), None) => st.findings.push((
                    format!("C20/file-visible-before-publish:local:{tname}"),
                    format!("while {} {} is being written (temporary file complete, not yet renamed) a second handle already lists it", tname, id.to_hex().as_str()),
                )),
                (Some(s), Some(old)) if s != old => st.findings.push((
                    format!("C20/file-visible-before-publish:local:{tname}:overwrite"),
                    format!("while {} {} is being overwritten a second handle lists it with size {s}; the complete old version has {old} bytes", tname, id.to_hex().as_str()),
                )),
                (None, Some(_)) => st.findings.push((
                    format!("C20/old-version-vanishes-during-write:local:{tname}"),
                    format!("while {} {} is being overwritten a second handle does not list the old version", tname, id.to_hex().as_str()),
                )),
                _ => {}
            }
            // everything else is untouched
            let mut g2 = got.clone();
            let mut e2 = expect.clone();
            let _ = g2.remove(&key);
            let _ = e2.remove(&key);
            // (foreign files are judged by the ordinary audits, not here)
            for (i, s) in &e2 {
                if g2.get(i) != Some(s) {
                    st.findings.push((format!("C20/listing-disturbed-during-write:local:{tname}"), format!("during a write of another id, {} is listed as {:?}, stored: {s} bytes", i.to_hex().as_str(), g2.get(i))));
                }
            }
        }
        Ok(Err(e)) => st.notes.push(format!("listing inside the hook failed: {}", etext(&e))),
        Err(_) => st.notes.push("listing inside the hook panicked".into()),
    }
    // an older version must still read back whole
    if let Some(old) = st.model.get(&mkey(tpe, &id)) {
        match catch_unwind(AssertUnwindSafe(|| be.read_full(tpe, &id))) {
            Ok(Ok(b)) if b == *old => {}
            Ok(Ok(b)) => st.findings.push((format!("C20/old-version-damaged-during-write:local:{tname}"), format!("while {} {} is being overwritten, read_full returns bytes differing from the old version: {}", tname, id.to_hex().as_str(), first_diff(&b, old)))),
            Ok(Err(e)) => st.findings.push((format!("C20/old-version-unreadable-during-write:local:{tname}"), format!("while {} {} is being overwritten, read_full of the old version fails: {}", tname, id.to_hex().as_str(), etext(&e)))),
            Err(_) => st.notes.push("read inside the hook panicked".into()),
        }
    } else if target.exists() {
        st.findings.push((format!("C20/file-visible-before-publish:local:{tname}:final-name-exists"), format!("the final name of {} {} exists before the rename although the file was not stored before", tname, id.to_hex().as_str())));
    }
}

impl Prop for C20 {
    fn id(&self) -> &'static str {
        "C20"
    }
    fn scheduled(&self) -> bool {
        false
    }
    fn runs(&self, tier: Tier) -> u64 {
        match tier {
            Tier::Quick => 600,
            Tier::Thorough => 9000,
        }
    }
    fn level(&self) -> &'static str {
        "exploration"
    }
    fn rule(&self) -> &'static str {
        "one run = a seeded sequence of 20-200 operations {write (0-5 BytesList pieces, in a tenth of the runs with empty pieces in front of / between / after non-empty ones; overwrites included), read_full, read_partial (16 classes of (offset, length): whole, zero-length at 0/interior/end, interior, prefix, to end, last byte, one past end, at end, beyond end, offset+length at and above 2^32), list, list_with_size, remove} \
         over all five file types and a pool of 2-5 ids per type (pack ids sharing a data/xx shard; one never-written id; config written under different ids), content lengths 0 B .. 4 MiB with boundary lengths (0, 1, 4095-4097, 65535/65536, 1 MiB, 1 MiB + 1, 4 MiB - 1, 4 MiB), \
         executed in lock step on LocalBackend (tmpfs directory), OpenDALBackend(fs service on tmpfs), OpenDALBackend(memory service) and SimStore, each against its own BTreeMap<(type, id), bytes> model; with or without create(); \
         on the directory targets optionally with planted foreign files (non-hex names, hex names of 62/63/65/66 characters, directories and empty directories with id names, -tmp- leftovers of pool and foreign ids, upper-case hex names, id names in the wrong data/xx shard, outside a shard, in a sub-directory). \
         After every operation its result is compared with the model (Ok/Err and bytes); after every mutation both listings of the type and the touched file are audited through a second handle; every 16th operation and at the end all listings and all files are audited (alternating between the two handles). \
         LocalBackend pre-publish hook (armed in part of the runs): at every write a second handle must list exactly the old state and read the old version whole; about half of the writes are interrupted there (write must return Err, nothing of it may be listed or readable; every second interrupted write is repeated at once and must then succeed). \
         evaluations = individual comparisons of a backend answer with the model; non-trivial = a comparison that involves stored bytes or a non-empty listing or an interrupted write; distinct = hash(target, call, file type, file size, offset, length | listing size)"
    }
    fn assumptions(&self) -> Vec<&'static str> {
        vec![
            "no scheduler: these backends do their I/O through std::fs / OpenDAL; one caller at a time, the interruption point is the verif-hooks callback between temp-file write and rename",
            "a read whose range reaches past the end may fail or return only the existing part of the range (counted, not flagged); inventing bytes is flagged",
            "remove of an absent file may return Ok or Err (both counted); listing before create() may fail",
            "files planted directly in the directory tree (never written through the backend) are foreign by definition; ids planted at the exact path the backend itself would use are not generated",
            "the tmpfs behaves like a POSIX file system; ENOSPC/EMFILE are reported as harness errors",
            "SimStore runs the same sequences; a disagreement of SimStore with the map model is a harness error, not a violation",
            "a backend call counts as not returning when, with the same call in flight, the threads of the process have consumed 1.2 s of CPU time (spinning) or 60 s of wall time have passed (blocked); the run ends there (the call cannot be cancelled)",
            "two writers of the same id at the same time (they share one temporary file name) are not exercised: the property quantifies over single sequences and one interruption point",
        ]
    }
    fn components(&self) -> Value {
        json!({
            "real": ["rustic_backend::local::LocalBackend", "rustic_backend::OpenDALBackend (opendal fs and memory services, retry + logging layers, tokio runtime)", "rustic_core::{BytesList, Id, FileType}", "walkdir", "tmpfs"],
            "stub": ["no repository layer: the backends are driven directly through ReadBackend/WriteBackend", "pre-publish callback (verif-hooks) as the interruption point", "SimStore as a fourth target (cross-check of the simulator's own store)"]
        })
    }

    fn generate(&self, subseed: u64, tier: Tier) -> Value {
        let mut rng = Rng::new(subseed);
        let n_ops = match rng.weighted(&[5, 3, 1]) {
            0 => rng.range(20, 60),
            1 => rng.range(60, 120),
            _ => rng.range(120, 200),
        } as usize;
        let max_len = match (tier, rng.weighted(&[5, 3, 2])) {
            (_, 0) => 70_000,
            (_, 1) => (1 << 20) + 1,
            _ => 4 << 20,
        };
        let spec = Spec {
            pool: 1,
            subseed,
            start_s: common::BASE_TIME_S + rng.range(0, 400 * 86400) as i64,
            targets: vec![T_LOCAL.into(), T_OFS.into(), T_OMEM.into(), T_SIM.into()],
            n_ops,
            skip: vec![],
            ids: rng.range(2, 5) as usize,
            max_len,
            create: rng.chance(3, 4),
            strays: rng.chance(1, 2),
            hook: rng.chance(1, 2),
            empty_pieces: rng.chance(1, 10),
        };
        serde_json::to_value(spec).unwrap()
    }

    fn shrink(&self, spec: &Value) -> Vec<Value> {
        let s: Spec = serde_json::from_value(spec.clone()).unwrap();
        let mut out = vec![];
        let push = |c: Spec, out: &mut Vec<Value>| out.push(serde_json::to_value(c).unwrap());
        // most aggressive first: no operations at all, half of them, one target only
        if s.n_ops > 0 {
            for n in [0, s.n_ops / 8, s.n_ops / 2] {
                if n < s.n_ops {
                    let mut c = s.clone();
                    c.n_ops = n;
                    c.skip.retain(|i| *i < n);
                    push(c, &mut out);
                }
            }
        }
        if s.targets.len() > 1 {
            for t in &s.targets {
                if t != T_SIM {
                    let mut c = s.clone();
                    c.targets = vec![t.clone()];
                    push(c, &mut out);
                }
            }
        }
        if s.strays {
            let mut c = s.clone();
            c.strays = false;
            push(c, &mut out);
        }
        if s.hook {
            let mut c = s.clone();
            c.hook = false;
            push(c, &mut out);
        }
        if s.empty_pieces {
            let mut c = s.clone();
            c.empty_pieces = false;
            push(c, &mut out);
        }
        if s.create {
            let mut c = s.clone();
            c.create = false;
            push(c, &mut out);
        }
        if s.n_ops > 1 {
            let mut c = s.clone();
            c.n_ops = s.n_ops - 1;
            c.skip.retain(|i| *i < s.n_ops - 1);
            push(c, &mut out);
        }
        // drop blocks of operations, then single operations
        let live: Vec<usize> = (0..s.n_ops).filter(|i| !s.skip.contains(i)).collect();
        for block in [16usize, 4, 1] {
            if live.len() > block {
                for ch in live.chunks(block).take(40) {
                    let mut c = s.clone();
                    c.skip.extend_from_slice(ch);
                    c.skip.sort_unstable();
                    push(c, &mut out);
                }
            }
        }
        if s.max_len > 5000 {
            let mut c = s.clone();
            c.max_len = 5000;
            push(c, &mut out);
        }
        out
    }

    fn exec(&self, spec: &Value, env: &Env) -> Report {
        let s: Spec = serde_json::from_value(spec.clone()).expect("spec");
        common::run_setup(s.subseed, s.start_s);
        struct Scratch(PathBuf, bool);
        impl Drop for Scratch {
            fn drop(&mut self) {
                if !self.1 {
                    // (not after a hang: the stuck thread might sit inside the hook)
                    rustic_backend::verif::set_pre_publish(None);
                }
                let _ = std::fs::remove_dir_all(&self.0);
            }
        }
        let dir = env.tmp.join(format!("c20-{:016x}", s.subseed));
        let _ = std::fs::remove_dir_all(&dir);
        if let Err(e) = std::fs::create_dir_all(&dir) {
            let mut rep = Report::default();
            rep.harness_errors.push(format!("cannot create scratch directory: {e}"));
            return rep;
        }
        let mut scratch = Scratch(dir.clone(), false);
        *CURRENT.lock().unwrap() = (0, None);

        // The scenario runs on its own thread; this thread is the watchdog. A backend call that
        // never returns cannot be cancelled: the scenario thread is abandoned and the run ends
        // with what was established until then plus the violation "call does not return".
        let sh: Arc<Mutex<Shared>> = Arc::default();
        let (tx, rx) = channel::<Outro>();
        let (s2, sh2, dir2) = (s.clone(), sh.clone(), dir.clone());
        let spawned = std::thread::Builder::new().name("c20-scenario".into()).spawn(move || {
            let out = scenario(&s2, &dir2, sh2);
            let _ = tx.send(out);
        });
        if let Err(e) = spawned {
            let mut rep = Report::default();
            rep.harness_errors.push(format!("cannot spawn the scenario thread: {e}"));
            return rep;
        }
        let mut outro: Option<Outro> = None;
        let mut hang: Option<(InFlight, &'static str)> = None;
        let mut last_seq = u64::MAX;
        let mut base: Option<BTreeMap<i32, u64>> = None;
        let mut since = Instant::now();
        loop {
            match rx.recv_timeout(Duration::from_millis(100)) {
                Ok(o) => {
                    outro = Some(o);
                    break;
                }
                Err(RecvTimeoutError::Disconnected) => break,
                Err(RecvTimeoutError::Timeout) => {
                    let (seq, inflight) = CURRENT.lock().unwrap().clone();
                    if seq != last_seq {
                        last_seq = seq;
                        base = None;
                        since = Instant::now();
                        continue;
                    }
                    // the same call has been in flight for at least one polling interval
                    let Some(inflight) = inflight else { continue };
                    let Some(b) = &base else {
                        base = Some(thread_ticks());
                        continue;
                    };
                    let used = consumed_since(b);
                    let total: u64 = used.values().sum();
                    if total >= SPIN_TICKS {
                        let spinners: Vec<i32> = used.iter().filter(|(_, t)| **t >= SPIN_TICKS / 4).map(|(tid, _)| *tid).collect();
                        park_threads(&spinners);
                        hang = Some((inflight, "spinning"));
                        break;
                    }
                    if since.elapsed() >= BLOCKED_WALL {
                        hang = Some((inflight, "blocked"));
                        break;
                    }
                }
            }
        }
        let (mut rep, trace, evaluations) = {
            let mut g = sh.lock().unwrap();
            (std::mem::take(&mut g.rep), std::mem::take(&mut g.trace), g.evaluations)
        };
        let mut trace = trace;
        match (&outro, &hang) {
            (Some(o), _) => {
                rep.states = o.states.clone();
                rep.sample = o.sample.clone();
            }
            (None, Some((inf, how))) => {
                scratch.1 = true;
                trace.extend_from_slice(format!("{} {} hang {how}\n", inf.target, inf.api).as_bytes());
                rep.fire(&format!("{}:call_does_not_return", inf.target), 1);
                let fp = format!("C20/call-does-not-return:{}:{}:{how}", inf.target, inf.api);
                let detail = format!("{} did not return ({how}: {})", inf.detail, if *how == "spinning" { "the process kept consuming CPU time inside the call" } else { "no progress and no CPU consumption for 60 s" });
                if inf.target == T_SIM {
                    rep.harness_errors.push(format!("{fp}: {detail}"));
                } else {
                    rep.violation(fp, detail);
                }
                rep.sample = json!({"targets": s.targets, "operations": s.n_ops, "ended_by": "a backend call that did not return", "call": inf.detail});
            }
            (None, None) => {
                let p = common::take_panics();
                rep.harness_errors.push(format!("the scenario thread ended without a result: {}", p.first().cloned().unwrap_or_default()));
            }
        }
        rep.states.sort_unstable();
        rep.states.dedup();
        rep.nontrivial.sort_unstable();
        rep.nontrivial.dedup();
        rep.evaluations = evaluations.max(1);
        rep.trace_hash = hash64(&[&trace]);
        rep.sim_ns = 0;
        common::probes_into(&mut rep.probes);
        rep
    }
}

/// what the scenario thread hands back when it ran to its end
struct Outro {
    states: Vec<u64>,
    sample: Value,
}

fn scenario(s: &Spec, dir: &Path, sh: Arc<Mutex<Shared>>) -> Outro {
    let mut cx = Ctx { sh, strays: BTreeMap::new() };
    let none = |cx: &mut Ctx, e: String| {
        cx.harness(e);
        Outro { states: vec![], sample: Value::Null }
    };
    {
        let mut targets: Vec<Target> = vec![];
        for t in &s.targets {
            match new_target(t, dir) {
                Ok(t) => targets.push(t),
                Err(e) => return none(&mut cx, format!("cannot construct target {t}: {e}")),
            }
        }
        let mut rng = Rng::new(s.subseed ^ 0xc20);

        // create
        if s.create {
            for tg in &mut targets {
                let be = tg.be.clone();
                match call(tg.name, "create", || "create()".to_string(), || be.create()) {
                    Res::Ok(()) => tg.created = true,
                    Res::Err(e) => {
                        if env_error(&e) {
                            cx.harness(format!("{}: create: {e}", tg.name));
                        } else {
                            cx.violation(tg.name, format!("C20/create-fails:{}:{}", tg.name, classify(&strip_paths(&e))), format!("create() on an empty location failed: {e}"));
                        }
                    }
                    Res::Panic(p) => cx.violation(tg.name, format!("C20/panic:{}:create:{}", family(tg.name), classify(&short_loc(&p))), format!("create() panicked: {p}")),
                }
            }
        }
        // the in-memory targets have no notion of a missing directory
        for tg in &mut targets {
            if tg.root.is_none() {
                tg.created = true;
            }
        }
        // strays
        let mut stray_kinds: BTreeSet<&'static str> = BTreeSet::new();
        if s.strays {
            for tg in &targets {
                if let Some(root) = &tg.root {
                    let planted = plant_strays(root, s.subseed, s.ids, &mut Rng::new(s.subseed ^ 0x57a1));
                    for (k, _) in &planted {
                        let _ = stray_kinds.insert(k);
                    }
                    let _ = cx.strays.insert(tg.name, planted);
                }
            }
            for k in &stray_kinds {
                cx.fire(&format!("stray:{k}"), 1);
            }
            // planted files alone must not show up anywhere
            for tg in &targets {
                if tg.root.is_some() {
                    full_audit(&mut cx, tg, false, "empty backend with foreign files");
                }
            }
        }

        // hook
        let hook_state: Arc<Mutex<HookState>> = Arc::default();
        let hook_on = s.hook && targets.iter().any(|t| t.name == T_LOCAL);
        if hook_on {
            let hs = hook_state.clone();
            hs.lock().unwrap().second = targets.iter().find(|t| t.name == T_LOCAL).map(|t| t.second.clone());
            rustic_backend::verif::set_pre_publish(Some(Box::new(move |tmp, target| {
                let mut st = hs.lock().unwrap();
                hook_body(&mut st, tmp, target);
                if st.fail {
                    Err(RusticError::new(ErrorKind::InputOutput, "simulated interruption before publish"))
                } else {
                    Ok(())
                }
            })));
        }

        let mut ops_desc: Vec<String> = vec![];
        let mut states: Vec<u64> = vec![];
        for idx in 0..s.n_ops {
            if s.skip.contains(&idx) {
                continue;
            }
            let op = gen_op(s.subseed, idx, s.ids);
            let id = pool_id(s.subseed, op.tpe, op.slot);
            let tname = ft_name(op.tpe);
            let use_second = rng.chance(1, 2);
            // resolve the operation once (the models of all targets agree unless a violation or an
            // interrupted write made them differ; each target is judged against its own model)
            let (content, parts_seed) = match &op.k {
                OpK::Write { content_seed, .. } => {
                    let len = draw_len(&mut Rng::new(*content_seed ^ 0x1e4), s.max_len);
                    (Some(gen_content(*content_seed, len)), *content_seed)
                }
                _ => (None, 0),
            };
            let desc = match &op.k {
                OpK::Write { parts, .. } => format!("write {tname} #{} {} B in {} piece(s)", op.slot, content.as_ref().unwrap().len(), parts),
                OpK::ReadFull => format!("read_full {tname} #{}", op.slot),
                OpK::ReadPartial { class, .. } => format!("read_partial {tname} #{} [{}]", op.slot, range_class_name(*class)),
                OpK::List => format!("list {tname}"),
                OpK::ListWithSize => format!("list_with_size {tname}"),
                OpK::Remove => format!("remove {tname} #{}", op.slot),
            };
            cx.t(&format!("op {idx} {desc}"));
            if ops_desc.len() < 12 {
                ops_desc.push(desc.clone());
            }
            for ti in 0..targets.len() {
                let name = targets[ti].name;
                cx.t(name);
                let be = targets[ti].be.clone();
                let key = mkey(op.tpe, &id);
                let mut retry_write = false;
                match &op.k {
                    OpK::Write { parts, .. } => {
                        let data = content.clone().unwrap();
                        let list = split_parts(&data, *parts, parts_seed, s.empty_pieces);
                        let pieces = describe_pieces(&list);
                        let existed = targets[ti].model.contains_key(&key);
                        let interrupt = hook_on && name == T_LOCAL && op.crash;
                        if hook_on && name == T_LOCAL {
                            let mut st = hook_state.lock().unwrap();
                            st.model = targets[ti].model.clone();
                            st.tpe = Some(op.tpe);
                            st.id = Some(id);
                            st.new_len = data.len();
                            st.fail = interrupt;
                        }
                        let calls_before = hook_state.lock().unwrap().calls;
                        cx.eval(1);
                        let with_empty = pieces.split('+').any(|p| p == "0") && !data.is_empty();
                        let lay = if with_empty { "write_bytes:pieces-with-empty-piece" } else { "write_bytes" };
                        let r = call(name, lay, || format!("op {idx} ({desc}): write_bytes({tname} {}, pieces of {pieces} bytes)", id.to_hex().as_str()), || be.write_bytes(op.tpe, &id, false, list));
                        if with_empty {
                            let _ = targets[ti].written_with_empty_piece.insert(key);
                        } else {
                            let _ = targets[ti].written_with_empty_piece.remove(&key);
                        }
                        if hook_on && name == T_LOCAL {
                            let mut st = hook_state.lock().unwrap();
                            st.tpe = None;
                            st.id = None;
                            let reached = st.calls > calls_before;
                            let findings = std::mem::take(&mut st.findings);
                            let notes = std::mem::take(&mut st.notes);
                            drop(st);
                            if reached {
                                cx.fire("pre_publish_point_observed", 1);
                                cx.eval(2);
                                cx.nontrivial(name, "pre-publish", op.tpe, &[data.len() as u64, u64::from(existed), u64::from(interrupt)]);
                            }
                            for (fp, d) in findings {
                                cx.violation(name, fp, format!("op {idx} ({desc}): {d}"));
                            }
                            for n in notes {
                                cx.harness(format!("hook: {n}"));
                            }
                            if interrupt && !reached && matches!(r, Res::Ok(())) {
                                cx.harness("the write did not pass the pre-publish point".into());
                            }
                        }
                        match r {
                            Res::Ok(()) => {
                                cx.t("write ok");
                                if interrupt {
                                    cx.violation(name, format!("C20/interrupted-write-reports-success:local:{tname}"), format!("op {idx} ({desc}): the write was interrupted before the rename but returned Ok"));
                                }
                                cx.fire(if existed { "overwrite" } else { "write" }, u64::from(ti == 0));
                                cx.nontrivial(name, "write", op.tpe, &[data.len() as u64, u64::from(existed)]);
                                let _ = targets[ti].model.insert(key, data.clone());
                            }
                            Res::Err(e) => {
                                cx.t("write err");
                                if interrupt {
                                    // crash before publish: the model is unchanged
                                    cx.fire("crash_before_publish", 1);
                                    if existed {
                                        cx.fire("crash_before_publish_of_overwrite", 1);
                                    }
                                    retry_write = idx % 2 == 0;
                                } else if env_error(&e) {
                                    cx.harness(format!("{name}: write_bytes: {e}"));
                                } else {
                                    let ow = if existed { "overwrite" } else { "new-file" };
                                    cx.violation(name, format!("C20/write-fails:{name}:{tname}:{ow}:{}", classify(&strip_paths(&e))), format!("op {idx} ({desc}): write_bytes failed: {e}"));
                                    // the state of that file is unknown now: settle it by removing
                                    let _ = call(name, "remove", || format!("op {idx}: remove after failed write"), || be.remove(op.tpe, &id, false));
                                    let _ = targets[ti].model.remove(&key);
                                }
                            }
                            Res::Panic(p) => {
                                cx.t("write panic");
                                cx.violation(name, format!("C20/panic:{}:write_bytes:{}", family(name), classify(&short_loc(&p))), format!("op {idx} ({desc}): write_bytes panicked: {p}"));
                                let _ = call(name, "remove", || format!("op {idx}: remove after failed write"), || be.remove(op.tpe, &id, false));
                                let _ = targets[ti].model.remove(&key);
                            }
                        }
                    }
                    OpK::Remove => {
                        let existed = targets[ti].model.contains_key(&key);
                        cx.eval(1);
                        match call(name, "remove", || format!("op {idx} ({desc})"), || be.remove(op.tpe, &id, false)) {
                            Res::Ok(()) => {
                                cx.t("remove ok");
                                if existed {
                                    cx.fire("remove", u64::from(ti == 0));
                                    cx.nontrivial(name, "remove", op.tpe, &[targets[ti].model[&key].len() as u64]);
                                } else {
                                    cx.fire(&format!("{name}:remove_of_absent_file_ok"), 1);
                                }
                                let _ = targets[ti].model.remove(&key);
                            }
                            Res::Err(e) => {
                                cx.t("remove err");
                                if !existed {
                                    cx.fire(&format!("{name}:remove_of_absent_file_err"), 1);
                                } else if env_error(&e) {
                                    cx.harness(format!("{name}: remove: {e}"));
                                } else {
                                    cx.violation(name, format!("C20/remove-fails:{name}:{tname}:{}", classify(&strip_paths(&e))), format!("op {idx} ({desc}): remove of a stored file failed: {e}"));
                                    // whether it is gone is checked by the audit below against "still there"
                                }
                            }
                            Res::Panic(p) => {
                                cx.t("remove panic");
                                cx.violation(name, format!("C20/panic:{}:remove:{}", family(name), classify(&short_loc(&p))), format!("op {idx} ({desc}): remove panicked: {p}"));
                            }
                        }
                    }
                    OpK::ReadFull => {
                        let tg = &targets[ti];
                        let h = if use_second { tg.second.clone() } else { be.clone() };
                        let m = tg.model.clone();
                        check_read_full(&mut cx, tg, &h, op.tpe, &id, &m, &format!("op {idx} ({desc})"));
                    }
                    OpK::ReadPartial { class, a, b } => {
                        let tg = &targets[ti];
                        let h = if use_second { tg.second.clone() } else { be.clone() };
                        let n = tg.model.get(&key).map_or(*a % 5000, |m| m.len() as u64);
                        let (off, len) = resolve_range(*class, *a, *b, n);
                        let m = tg.model.clone();
                        check_read_partial(&mut cx, tg, &h, op.tpe, &id, *class, off, len, &m);
                    }
                    OpK::List | OpK::ListWithSize => {
                        let tg = &targets[ti];
                        let h = if use_second { tg.second.clone() } else { be.clone() };
                        let m = tg.model.clone();
                        check_listing(&mut cx, tg, &h, op.tpe, &m, &format!("op {idx} ({desc})"));
                    }
                }
                // after a mutation: the type's listings and the touched file, through the other handle
                if matches!(op.k, OpK::Write { .. } | OpK::Remove) {
                    let tg = &targets[ti];
                    let h = if use_second { tg.be.clone() } else { tg.second.clone() };
                    let m = tg.model.clone();
                    let what = format!("after op {idx} ({desc})");
                    check_listing(&mut cx, tg, &h, op.tpe, &m, &what);
                    check_read_full(&mut cx, tg, &h, op.tpe, &id, &m, &what);
                    if let Some(d) = m.get(&key) {
                        // and a few ranges of the file just written
                        let n = d.len() as u64;
                        for class in [4u8, 6, 8] {
                            let (off, len) = resolve_range(class, rng.next_u64() >> 8, rng.next_u64() >> 8, n);
                            check_read_partial(&mut cx, tg, &h, op.tpe, &id, class, off, len, &m);
                        }
                    }
                }
                if retry_write {
                    // the same write once more, right after the interrupted one (the temporary
                    // file of the interrupted attempt is still there): it must succeed
                    let data = content.clone().unwrap();
                    {
                        let mut st = hook_state.lock().unwrap();
                        st.model = targets[ti].model.clone();
                        st.tpe = Some(op.tpe);
                        st.id = Some(id);
                        st.new_len = data.len();
                        st.fail = false;
                    }
                    cx.eval(1);
                    let list = split_parts(&data, 1, parts_seed, false);
                    let r = call(name, "write_bytes", || format!("op {idx} ({desc}), repeated after the interruption"), || be.write_bytes(op.tpe, &id, false, list));
                    let (findings, notes) = {
                        let mut st = hook_state.lock().unwrap();
                        st.tpe = None;
                        st.id = None;
                        (std::mem::take(&mut st.findings), std::mem::take(&mut st.notes))
                    };
                    for (fp, d) in findings {
                        cx.violation(name, fp, format!("op {idx} ({desc}), repeated after the interruption: {d}"));
                    }
                    for n in notes {
                        cx.harness(format!("hook: {n}"));
                    }
                    match r {
                        Res::Ok(()) => {
                            cx.t("rewrite ok");
                            cx.fire("write_repeated_after_interruption_ok", 1);
                            let _ = targets[ti].written_with_empty_piece.remove(&key);
                            let _ = targets[ti].model.insert(key, data.clone());
                        }
                        Res::Err(e) => {
                            cx.t("rewrite err");
                            if env_error(&e) {
                                cx.harness(format!("{name}: write_bytes: {e}"));
                            } else {
                                cx.violation(name, format!("C20/write-after-interrupted-write-fails:{name}:{tname}:{}", classify(&strip_paths(&e))), format!("op {idx} ({desc}): the write was interrupted before the rename; the same write repeated right afterwards failed: {e}"));
                            }
                        }
                        Res::Panic(p) => {
                            cx.t("rewrite panic");
                            cx.violation(name, format!("C20/panic:{}:write_bytes:{}", family(name), classify(&short_loc(&p))), format!("op {idx} ({desc}), repeated after the interruption: write_bytes panicked: {p}"));
                        }
                    }
                    let tg = &targets[ti];
                    let m = tg.model.clone();
                    let what = format!("after op {idx} ({desc}), repeated after the interruption");
                    check_listing(&mut cx, tg, &tg.second, op.tpe, &m, &what);
                    check_read_full(&mut cx, tg, &tg.second, op.tpe, &id, &m, &what);
                }
                if idx % 16 == 15 {
                    let what = format!("audit after op {idx}");
                    full_audit(&mut cx, &targets[ti], idx % 32 == 15, &what);
                }
            }
            if matches!(op.k, OpK::Write { .. } | OpK::Remove) {
                if let Some(tg) = targets.first() {
                    let mut parts: Vec<Vec<u8>> = vec![];
                    for (k, v) in &tg.model {
                        parts.push([&[k.0][..], &k.1.to_hex().as_str().as_bytes()[..16], &(v.len() as u64).to_le_bytes()].concat());
                    }
                    let refs: Vec<&[u8]> = parts.iter().map(Vec::as_slice).collect();
                    states.push(hash64(&refs));
                }
            }
        }
        // the hook is disarmed for the final audit; leftovers of interrupted writes are still there
        rustic_backend::verif::set_pre_publish(None);
        for tg in &targets {
            full_audit(&mut cx, tg, true, "final audit");
        }
        // the targets ran the same sequence: apart from interrupted writes their models agree
        let stored: usize = targets.first().map_or(0, |t| t.model.len());
        let bytes: usize = targets.first().map_or(0, |t| t.model.values().map(Bytes::len).sum());

        let stray_list: Vec<&str> = stray_kinds.iter().copied().collect();
        let sample = json!({
            "targets": s.targets,
            "operations": s.n_ops - s.skip.len().min(s.n_ops),
            "ids_per_type": s.ids,
            "max_content_length": s.max_len,
            "create_called": s.create,
            "foreign_files": stray_list,
            "pre_publish_hook": hook_on,
            "empty_pieces_in_writes": s.empty_pieces,
            "first_operations": ops_desc,
            "files_stored_at_end": stored,
            "bytes_stored_at_end": bytes,
        });
        states.sort_unstable();
        states.dedup();
        Outro { states, sample }
    }
}
