//! C11 Incremental backup with a parent equals a full backup.

use std::collections::{BTreeMap, BTreeSet};
use std::sync::Arc;

use bytes::Bytes;
use rustic_core::repofile::{BlobType, IndexFile, SnapshotFile};
use rustic_core::{BackupOptions, FileType, Id, ParentOptions, RusticResult};
use serde::{Deserialize, Serialize};
use serde_json::{Value, json};

use crate::audit::{StoreView, decode_file, encode_file, hash_id, id_hex};
use crate::common;
use crate::harness::{Env, Prop, Report, Tier};
use crate::interpose;
use crate::model::{FsModel, GenParams, Kind, PathKey, ReadPlan, SimSource, default_entry, edit_model, gen_name, show_key};
use crate::props::c01::build_model_min;
use crate::readback::{ReadBack, ReadBackOpts, read_back};
use crate::rng::{Rng, hash64};
use crate::sched::Mode;
use crate::sim::{Cmd, Sim};
use crate::store::{files_digest, ft_code};
use crate::world::{RepoCfg, repo_open, snap_template};

pub struct C11;

#[derive(Clone, Debug, Serialize, Deserialize)]
pub struct Spec {
    pub pool: usize,
    pub subseed: u64,
    pub cfg: RepoCfg,
    pub gen: GenParams,
    pub model_seed: u64,
    /// how many parent generations exist before the compared backup
    pub generations: usize,
    pub explicit_parents: usize, // 0 = implicit latest, k = the k newest given explicitly
    pub ignore_ctime: bool,
    pub ignore_inode: bool,
    pub skip_if_unchanged: bool,
    pub unchanged: bool,
    pub drop_blobs: bool,
    pub scheduled: bool,
    pub start_s: i64,
}

/// edits that change the type of an entry (file <-> dir <-> symlink), honouring the premise
fn type_changes(rng: &mut Rng, m: &mut FsModel, now_s: i64) -> Vec<String> {
    let mut out = vec![];
    let files: Vec<PathKey> = m.entries.iter().filter(|(_, e)| matches!(e.kind, Kind::File(_)) && e.links == 1).map(|(k, _)| k.clone()).collect();
    let leaf_dirs: Vec<PathKey> = m.entries.iter().filter(|(k, e)| e.kind == Kind::Dir && !m.entries.keys().any(|o| o.len() > k.len() && o[..k.len()] == k[..])).map(|(k, _)| k.clone()).collect();
    let mut inode = 900_000 + rng.below(1000);
    if !files.is_empty() && rng.chance(1, 2) {
        let k = rng.pick(&files).clone();
        if rng.chance(1, 2) {
            // file -> directory with one child
            let mut d = default_entry(rng, Kind::Dir, now_s);
            d.inode = inode;
            inode += 1;
            let _ = m.entries.insert(k.clone(), d);
            let mut c = k.clone();
            c.push(b"child".to_vec());
            let content = rng.bytes_range(0, 9000);
            let mut f = default_entry(rng, Kind::File(Arc::new(content)), now_s);
            f.inode = inode;
            f.mtime = (now_s, 3);
            f.ctime = f.mtime;
            let _ = m.entries.insert(c, f);
            out.push(format!("file->dir {}", show_key(&k)));
        } else {
            let mut l = default_entry(rng, Kind::Symlink(b"somewhere/else".to_vec()), now_s);
            l.inode = inode;
            l.mtime = (now_s, 4);
            l.ctime = l.mtime;
            let _ = m.entries.insert(k.clone(), l);
            out.push(format!("file->symlink {}", show_key(&k)));
        }
    }
    if !leaf_dirs.is_empty() && rng.chance(1, 2) {
        let k = rng.pick(&leaf_dirs).clone();
        let content = rng.bytes_range(1, 20_000);
        let mut f = default_entry(rng, Kind::File(Arc::new(content)), now_s);
        f.inode = inode;
        f.mtime = (now_s, 9);
        f.ctime = f.mtime;
        let _ = m.entries.insert(k.clone(), f);
        out.push(format!("dir->file {}", show_key(&k)));
    }
    out
}

/// one backup of `model` returning the snapshot and the paths the archiver opened
#[allow(clippy::too_many_arguments)]
fn backup_logged(sim: &mut Sim, mode: &Mode, model: &FsModel, opts: &BackupOptions, plan: &ReadPlan, label: &str) -> Cmd<(SnapshotFile, Vec<PathKey>)> {
    let (store, key, sched, seed, m, o, p, l) = (sim.store.clone(), sim.key.clone(), sim.sched.clone(), sim.seed, model.clone(), opts.clone(), plan.clone(), label.to_string());
    sim.run(mode, move || -> RusticResult<(SnapshotFile, Vec<PathKey>)> {
        let repo = repo_open(&store, 1, &key)?.to_indexed_ids()?;
        let src = SimSource::new(m, sched, 1, p, seed);
        let log = src.log.clone();
        let snap = repo.archive(&o, &src, snap_template(&l)?, &[std::path::PathBuf::from("/sim")])?;
        let opened = log.lock().unwrap().opened.clone();
        Ok((snap, opened))
    })
}

/// clone a directory of `parent` (that still exists in `model`) under its name minus the last byte, same
/// metadata, regular files with other bytes of the same length
fn clone_dir_before(rng: &mut Rng, model: &mut FsModel, parent: &FsModel) -> Option<String> {
    let dirs: Vec<PathKey> = parent
        .entries
        .iter()
        .filter(|(k, e)| {
            matches!(e.kind, Kind::Dir)
                && k.last().is_some_and(|n| n.len() >= 2)
                && model.entries.get(*k).is_some_and(|m| matches!(m.kind, Kind::Dir))
                && parent.entries.iter().any(|(k2, e2)| k2.len() == k.len() + 1 && k2.starts_with(k) && matches!(&e2.kind, Kind::File(b) if !b.is_empty()) && e2.links == 1)
        })
        .map(|(k, _)| k.clone())
        .collect();
    if dirs.is_empty() {
        return None;
    }
    let d = dirs[rng.usize(dirs.len())].clone();
    let mut nk = d.clone();
    let last = nk.last_mut().unwrap();
    let _ = last.pop();
    if model.entries.contains_key(&nk) || parent.entries.contains_key(&nk) {
        return None;
    }
    // no sibling may sort between the new name and the original (in the parent)
    let between = parent.entries.keys().any(|k| k.len() == d.len() && k[..d.len() - 1] == d[..d.len() - 1] && k > &nk && k < &d);
    if between {
        return None;
    }
    let sub: Vec<(PathKey, crate::model::Entry)> = parent.entries.iter().filter(|(k, _)| k.starts_with(&d)).map(|(k, e)| (k.clone(), e.clone())).collect();
    let mut inode = 7_000_000 + rng.below(1_000_000);
    for (k, mut e) in sub {
        let mut k2 = nk.clone();
        k2.extend(k[d.len()..].iter().cloned());
        if let Kind::File(b) = &e.kind {
            let nb: Vec<u8> = b.iter().map(|x| x.wrapping_add(3)).collect();
            e.kind = Kind::File(Arc::new(nb));
        }
        e.links = 1;
        e.inode = inode;
        inode += 1;
        let _ = model.entries.insert(k2, e);
    }
    Some(format!("clone-dir {} -> {}", show_key(&d), show_key(&nk)))
}

impl Prop for C11 {
    fn id(&self) -> &'static str {
        "C11"
    }
    fn scheduled(&self) -> bool {
        true
    }
    fn runs(&self, tier: Tier) -> u64 {
        match tier {
            Tier::Quick => 10000,
            Tier::Thorough => 100000,
        }
    }
    fn rule(&self) -> &'static str {
        "one run = 1-3 parent generations of an evolving source (edit scripts in which every content change also changes mtime/ctime, plus type changes file<->dir<->symlink, touch, rename, add/remove, a directory copied with its metadata under a name sorting directly before the original with the copies' contents changed, a file whose content changed while its modification time is no longer reported, a file changed in place with mtime put back so that only ctime tells (when ctime is not ignored), or no change at all), then the SAME current source is backed up twice on forks of one frozen store: \
         A with parent options (implicit latest, explicit 1-2 parents, ignore-ctime, ignore-inode, skip-if-unchanged) and B with force (reads every file). Optionally some data blobs of the parent are dropped from the index first. \
         Oracles: tree id of A == tree id of B; A reads back equal to the source model; every file whose parent blobs are not all indexed was opened again by A; with the plain implicit parent the summary counters files_new/changed/unmodified equal the model's classification; \
         skip-if-unchanged writes a snapshot iff the tree differs from the parent's. evaluations = 1 comparison per run; non-trivial = A opened fewer files than B (the parent shortcut was taken) or blobs were dropped; distinct = hash(options, models)"
    }
    fn assumptions(&self) -> Vec<&'static str> {
        vec!["the generator enforces the premise: content never changes without mtime (and ctime) changing; same-size-same-mtime content changes are not generated"]
    }

    fn generate(&self, subseed: u64, _tier: Tier) -> Value {
        let mut rng = Rng::new(subseed);
        let mut cfg = RepoCfg::gen_small(&mut rng);
        if cfg.compression.is_some_and(|c| c > 3) {
            cfg.compression = Some(1);
        }
        let mut genp = GenParams::default();
        genp.max_entries = 9;
        genp.max_file = 40_000;
        genp.total_cap = 150_000;
        genp.sizes_of_interest = vec![4096];
        let generations = rng.range(1, 3) as usize;
        let spec = Spec {
            pool: *rng.pick(&[1usize, 2, 3]),
            subseed,
            cfg,
            gen: genp,
            model_seed: rng.next_u64(),
            generations,
            explicit_parents: *rng.pick(&[0usize, 0, 1, 2]),
            ignore_ctime: rng.chance(1, 4),
            ignore_inode: rng.chance(1, 4),
            skip_if_unchanged: rng.chance(1, 4),
            unchanged: rng.chance(1, 6),
            drop_blobs: rng.chance(1, 4),
            scheduled: rng.chance(1, 4),
            start_s: common::BASE_TIME_S + rng.range(0, 400 * 86400) as i64,
        };
        serde_json::to_value(spec).unwrap()
    }

    fn shrink(&self, spec: &Value) -> Vec<Value> {
        let s: Spec = serde_json::from_value(spec.clone()).unwrap();
        let mut out = vec![];
        for f in 0..6 {
            let mut c = s.clone();
            let changed = match f {
                0 if c.generations > 1 => {
                    c.generations -= 1;
                    true
                }
                1 if c.scheduled => {
                    c.scheduled = false;
                    true
                }
                2 if c.drop_blobs => {
                    c.drop_blobs = false;
                    true
                }
                3 if c.ignore_ctime => {
                    c.ignore_ctime = false;
                    true
                }
                4 if c.ignore_inode => {
                    c.ignore_inode = false;
                    true
                }
                5 if c.explicit_parents > 0 => {
                    c.explicit_parents = 0;
                    true
                }
                _ => false,
            };
            if changed {
                out.push(serde_json::to_value(c).unwrap());
            }
        }
        out
    }

    #[allow(clippy::too_many_lines)]
    fn exec(&self, spec: &Value, env: &Env) -> Report {
        let s: Spec = serde_json::from_value(spec.clone()).expect("spec");
        let mut rep = Report::default();
        common::run_setup(s.subseed, s.start_s);
        let mut rng = Rng::new(s.subseed ^ 0xc11);
        let mut sim = Sim::new(s.subseed, s.cfg.clone(), &env.cpus, "c11");
        if let Cmd::Err(e) = sim.init() {
            rep.sample = json!({"skipped": "configuration refused by init", "error": e});
            rep.evaluations = 1;
            return rep;
        }
        let plan = ReadPlan { frag: vec![0, 4097], eintr_every: 0, gate_reads_every: 0 };
        let mut model = build_model_min(&s.gen, s.model_seed, &[], s.start_s, 3);
        let mut hist = vec![];
        let mut parents: Vec<(SnapshotFile, FsModel)> = vec![];
        for g in 0..s.generations {
            match sim.backup(&Mode::Free, &model.clone(), 1, &BackupOptions::default(), &plan, "c11") {
                Cmd::Ok(sn) => parents.push((sn, model.clone())),
                r => {
                    rep.violation(format!("C11/parent-backup-{}", r.class()), r.detail());
                    return rep;
                }
            }
            interpose::clock_advance(3_600_000_000_000);
            if g + 1 < s.generations {
                let now = interpose::clock_now() / 1_000_000_000;
                let st = edit_model(&mut rng, &mut model, &s.gen, now, 3);
                hist.push(format!("gen{g}: {:?}", st.edits));
            }
        }
        // the current state
        let parent_model = model.clone();
        if !s.unchanged {
            let now = interpose::clock_now() / 1_000_000_000;
            let st = edit_model(&mut rng, &mut model, &s.gen, now, 4);
            let tc = type_changes(&mut rng, &mut model, now);
            hist.push(format!("current: {:?} {:?}", st.edits, tc));
            // rename: same content, new name (a new inode/ctime is fine)
            if rng.chance(1, 3) {
                let files: Vec<PathKey> = model.entries.iter().filter(|(_, e)| matches!(e.kind, Kind::File(_)) && e.links == 1).map(|(k, _)| k.clone()).collect();
                if let Some(k) = files.first() {
                    let mut k2 = k.clone();
                    *k2.last_mut().unwrap() = gen_name(&mut rng, false);
                    if !model.entries.contains_key(&k2) {
                        let e = model.entries.remove(k).unwrap();
                        let _ = model.entries.insert(k2, e);
                    }
                }
            }
            // a directory copied with its metadata (cp -a) under a name that sorts directly before the
            // original, the copies' contents changed without changing size or times: the copies are new
            // files (there is no parent node for them) and must be read
            if rng.chance(1, 3) {
                if let Some(desc) = clone_dir_before(&mut rng, &mut model, &parent_model) {
                    rep.fire("directory_cloned_before_its_original", 1);
                    hist.push(desc);
                }
            }
            // content changed in place with the modification time put back: only the change time tells
            // (inside the premise as long as ctime is not ignored)
            if !s.ignore_ctime && rng.chance(1, 3) {
                let cands: Vec<PathKey> = model
                    .entries
                    .iter()
                    .filter(|(k, e)| matches!(&e.kind, Kind::File(b) if !b.is_empty()) && e.links == 1 && parent_model.entries.get(*k).is_some_and(|p| matches!(&p.kind, Kind::File(b) if !b.is_empty()) && p.links == 1))
                    .map(|(k, _)| k.clone())
                    .collect();
                if !cands.is_empty() {
                    let k = cands[rng.usize(cands.len())].clone();
                    let pe = parent_model.entries[&k].clone();
                    if let Kind::File(pb) = &pe.kind {
                        let nb: Vec<u8> = pb.iter().map(|x| x.wrapping_add(7)).collect();
                        let now = interpose::clock_now() / 1_000_000_000;
                        let e = model.entries.get_mut(&k).unwrap();
                        *e = pe.clone();
                        e.kind = Kind::File(Arc::new(nb));
                        e.ctime = (now, 1);
                        rep.fire("file_changed_with_only_ctime_telling", 1);
                        hist.push(format!("ctime-only {}", show_key(&k)));
                    }
                }
            }
            // a file whose content changed (same size) and whose modification time is no longer reported
            if rng.chance(1, 4) {
                let cands: Vec<PathKey> = model
                    .entries
                    .iter()
                    .filter(|(k, e)| matches!(&e.kind, Kind::File(b) if !b.is_empty()) && e.links == 1 && parent_model.entries.get(*k).is_some_and(|p| matches!(p.kind, Kind::File(_)) && p.links == 1))
                    .map(|(k, _)| k.clone())
                    .collect();
                if !cands.is_empty() {
                    let k = cands[rng.usize(cands.len())].clone();
                    let pe = parent_model.entries[&k].clone();
                    let e = model.entries.get_mut(&k).unwrap();
                    if let (Kind::File(pb), true) = (&pe.kind, true) {
                        // parent's size and ctime, other bytes, no mtime
                        let mut nb: Vec<u8> = pb.to_vec();
                        for b in &mut nb {
                            *b = b.wrapping_add(1);
                        }
                        if !nb.is_empty() {
                            e.kind = Kind::File(Arc::new(nb));
                            e.ctime = pe.ctime;
                            e.inode = pe.inode;
                            e.mtime = (crate::model::NO_MTIME, 0);
                            rep.fire("file_changed_and_lost_its_mtime", 1);
                            hist.push(format!("no-mtime {}", show_key(&k)));
                        }
                    }
                }
            }
        } else {
            hist.push("current: unchanged".into());
        }
        // optionally: some data blobs of the parents vanish from the index (and from storage)
        let key = sim.key.aead_key();
        let mut dropped: BTreeSet<Id> = BTreeSet::new();
        if s.drop_blobs {
            let files = sim.store.files();
            let view = StoreView::build(&key, &files);
            let data_packs: Vec<Id> = view.packs.iter().filter(|(_, i)| i.entries.first().is_some_and(|e| e.tpe == BlobType::Data)).map(|(id, _)| *id).collect();
            if !data_packs.is_empty() {
                let victim = data_packs[rng.usize(data_packs.len())];
                for e in &view.packs[&victim].entries {
                    // only blobs that exist nowhere else are really gone
                    if view.physical.get(&(e.tpe, e.id)).is_some_and(|p| p.len() == 1) {
                        let _ = dropped.insert(e.id);
                    }
                }
                let _ = sim.store.remove_raw(FileType::Pack, &victim);
                // re-encode every index file without that pack
                for (fid, _) in view.index_files.iter() {
                    let raw = files[&(ft_code(FileType::Index), *fid)].clone();
                    if let Ok(j) = decode_file(&key, &raw) {
                        if let Ok(mut idx) = serde_json::from_slice::<IndexFile>(&j) {
                            let before = idx.packs.len() + idx.packs_to_delete.len();
                            idx.packs.retain(|p| *p.id != victim);
                            idx.packs_to_delete.retain(|p| *p.id != victim);
                            if idx.packs.len() + idx.packs_to_delete.len() != before {
                                let _ = sim.store.remove_raw(FileType::Index, fid);
                                if !idx.packs.is_empty() || !idx.packs_to_delete.is_empty() {
                                    let enc = encode_file(&key, &[7u8; 16], &serde_json::to_vec(&idx).unwrap());
                                    sim.store.put_raw(FileType::Index, &hash_id(&enc), Bytes::from(enc));
                                }
                            }
                        }
                    }
                }
                rep.fire("parent_data_pack_dropped_from_index_and_store", 1);
                hist.push(format!("dropped data pack {} ({} unique blobs)", &id_hex(&victim)[..8], dropped.len()));
            }
        }
        let frozen = sim.store.files();

        // ---------- world A: with parent options; world B: forced full backup
        let mut popts = ParentOptions::default().ignore_ctime(s.ignore_ctime).ignore_inode(s.ignore_inode).skip_if_unchanged(s.skip_if_unchanged);
        if s.explicit_parents > 0 {
            let ids: Vec<String> = parents.iter().rev().take(s.explicit_parents).map(|(sn, _)| id_hex(&sn.id)).collect();
            popts = popts.parents(ids);
        }
        let mut a = sim.fork(frozen.clone(), "c11-A");
        let mut b = sim.fork(frozen.clone(), "c11-B");
        let mode_a = a.draw_mode(s.scheduled, &[0, 1], false);
        let ra = backup_logged(&mut a, &mode_a, &model, &BackupOptions::default().parent_opts(popts), &plan, "c11");
        let rb = backup_logged(&mut b, &Mode::Free, &model, &BackupOptions::default().parent_opts(ParentOptions::default().force(true)), &plan, "c11");
        let ((sa, opened_a), (sb, opened_b)) = match (ra, rb) {
            (Cmd::Ok(x), Cmd::Ok(y)) => (x, y),
            (ra, rb) => {
                if !ra.is_ok() {
                    rep.violation(format!("C11/parent-based-backup-{}", ra.class()), ra.detail());
                }
                if !rb.is_ok() {
                    rep.violation(format!("C11/forced-backup-{}", rb.class()), rb.detail());
                }
                a.finish_report(&mut rep);
                rep.trace = a.trace.clone();
                rep.sample = json!({"history": hist});
                return rep;
            }
        };
        rep.states.push(files_digest(&a.store.files()));
        let describe = format!("parents={} explicit={} ignore_ctime={} ignore_inode={} skip_if_unchanged={} unchanged={} dropped_blobs={}", parents.len(), s.explicit_parents, s.ignore_ctime, s.ignore_inode, s.skip_if_unchanged, s.unchanged, dropped.len());
        // (1) same tree
        if sa.tree != sb.tree {
            rep.violation("C11/parent-based-tree-differs-from-full-backup", format!("{describe}: tree {} (with parent) vs {} (forced); history {hist:?}", id_hex(&sa.tree), id_hex(&sb.tree)));
        }
        // (2) A reads back equal to the model (through a fresh handle on A's store)
        let saved = !sa.id.is_null();
        if saved {
            let (st, ky, sn, m) = (a.store.clone(), a.key.clone(), sa.clone(), model.clone());
            let mut r2 = rng.fork("rb");
            let rb = a.run(&Mode::Free, move || {
                let repo = repo_open(&st, 9, &ky)?.to_indexed()?;
                Ok(read_back(&repo, &sn, &m, &ReadBackOpts::default(), &mut r2))
            });
            match rb {
                Cmd::Ok(ReadBack::Equal) => {}
                Cmd::Ok(x) => rep.violation(format!("C11/parent-based-snapshot-readback:{}", common::classify(&x.short())), format!("{describe}: {}", x.short())),
                r => rep.violation(format!("C11/readback-{}", r.class()), r.detail()),
            }
        }
        // (3) skip-if-unchanged: saved iff tree differs from the (first) parent's tree
        if s.skip_if_unchanged {
            let used_parent_tree = if s.explicit_parents > 0 { parents.iter().rev().next().map(|p| p.0.tree) } else { parents.last().map(|p| p.0.tree) };
            if let Some(pt) = used_parent_tree {
                let should_save = pt != sa.tree;
                if saved != should_save {
                    rep.violation("C11/skip-if-unchanged-wrong", format!("{describe}: snapshot saved={saved} but tree {} the parent's", if should_save { "differs from" } else { "equals" }));
                }
            }
        }
        // (4) files whose parent blobs are gone were read again
        if !dropped.is_empty() {
            let view = StoreView::build(&key, &frozen);
            for (k, e) in &model.entries {
                if let Kind::File(bytes) = &e.kind {
                    // was this exact file (same path) in the newest parent with blobs now missing?
                    let Some((psnap, pm)) = parents.last() else { continue };
                    if pm.entries.get(k) != Some(e) || bytes.is_empty() {
                        continue;
                    }
                    // find the parent's content ids for this path via the stored parent tree
                    let _ = psnap;
                    let opened = opened_a.contains(k);
                    // conservative: only flag if ALL blobs of the file hash to dropped ids is unknown here; use chunking
                    if let Ok(config) = sim.store.get(FileType::Config, &Id::default()).ok_or(()).and_then(|b| decode_file(&key, &b).map_err(|_| ())).and_then(|j| serde_json::from_slice::<rustic_core::repofile::ConfigFile>(&j).map_err(|_| ())) {
                        if let Ok(it) = rustic_core::verif::chunk_iter(&config, std::io::Cursor::new(bytes.to_vec()), bytes.len()) {
                            let ids: Vec<Id> = it.filter_map(Result::ok).map(|c| hash_id(&c)).collect();
                            let missing = ids.iter().any(|id| dropped.contains(id) && !view.indexed_live(BlobType::Data, id));
                            // `view` is the frozen state after dropping: indexed_live is false for dropped blobs
                            if missing && !opened {
                                rep.violation("C11/file-with-missing-parent-blobs-not-reread", format!("{describe}: `{}` kept its parent's content list although blobs are missing from the index", show_key(k)));
                            }
                        }
                    }
                }
            }
        }
        // (5) summary counters in the plain case
        if s.explicit_parents == 0 && !s.ignore_ctime && !s.ignore_inode && dropped.is_empty() && parents.len() == s.generations {
            if let Some(sum) = &sa.summary {
                let (mut new, mut changed, mut unmod) = (0u64, 0u64, 0u64);
                for (k, e) in &model.entries {
                    if e.kind == Kind::Dir {
                        continue;
                    }
                    // the parent directory chain must consist of directories in the parent model
                    let chain_ok = (1..k.len()).all(|i| parent_model.entries.get(&k[..i].to_vec()).is_some_and(|p| p.kind == Kind::Dir));
                    match parent_model.entries.get(k).filter(|_| chain_ok) {
                        None => new += 1,
                        Some(p) => {
                            let same_type = match (&p.kind, &e.kind) {
                                (Kind::File(_), Kind::File(_)) | (Kind::Fifo, Kind::Fifo) => true,
                                (Kind::Symlink(a), Kind::Symlink(b)) => a == b,
                                _ => false,
                            };
                            let size = |x: &crate::model::Entry| if let Kind::File(b) = &x.kind { b.len() } else { 0 };
                            if same_type && size(p) == size(e) && p.mtime == e.mtime && p.ctime == e.ctime {
                                unmod += 1;
                            } else {
                                changed += 1;
                            }
                        }
                    }
                }
                if (sum.files_new, sum.files_changed, sum.files_unmodified) != (new, changed, unmod) {
                    rep.violation(
                        "C11/summary-classification-differs-from-model",
                        format!("{describe}: summary new/changed/unmodified = {}/{}/{}, model says {new}/{changed}/{unmod}; history {hist:?}", sum.files_new, sum.files_changed, sum.files_unmodified),
                    );
                }
            }
        }
        a.finish_report(&mut rep);
        rep.evaluations = 1;
        if opened_a.len() < opened_b.len() || !dropped.is_empty() {
            rep.nontrivial.push(hash64(&[describe.as_bytes(), &s.model_seed.to_le_bytes()]));
        }
        rep.fire("files_opened_with_parent", opened_a.len() as u64);
        rep.fire("files_opened_forced", opened_b.len() as u64);
        rep.sample = json!({"options": describe, "history": hist, "config": s.cfg.describe(), "opened_with_parent": opened_a.len(), "opened_forced": opened_b.len(), "model": model.describe()});
        if !rep.violations.is_empty() {
            rep.trace = a.trace.clone();
        }
        let _: BTreeMap<u8, u8> = BTreeMap::new();
        rep
    }
}
