//! Property scenarios.
pub mod c01;
pub mod c02;
pub mod c03;
pub mod c04;
pub mod c05;
pub mod c06;
pub mod c07;
pub mod c08;
pub mod c10;
pub mod c11;
pub mod c12;
pub mod c13;
pub mod c14;
pub mod c15;
pub mod c16;
pub mod c17;
pub mod c18;
pub mod c19;
pub mod c20;

use crate::harness::Prop;

pub fn by_id(id: &str) -> Option<&'static dyn Prop> {
    match id {
        "C01" => Some(&c01::C01),
        "C02" => Some(&c02::C02),
        "C03" => Some(&c03::C03),
        "C04" => Some(&c04::C04),
        "C05" => Some(&c05::C05),
        "C06" => Some(&c06::C06),
        "C07" => Some(&c07::C07),
        "C08" => Some(&c08::C08),
        "C10" => Some(&c10::C10),
        "C11" => Some(&c11::C11),
        "C12" => Some(&c12::C12),
        "C13" => Some(&c13::C13),
        "C14" => Some(&c14::C14),
        "C15" => Some(&c15::C15),
        "C16" => Some(&c16::C16),
        "C17" => Some(&c17::C17),
        "C18" => Some(&c18::C18),
        "C19" => Some(&c19::C19),
        "C20" => Some(&c20::C20),
        _ => None,
    }
}
