//! Property scenarios.
pub mod c01;

use crate::harness::Prop;

pub fn by_id(id: &str) -> Option<&'static dyn Prop> {
    match id {
        "C01" => Some(&c01::C01),
        _ => None,
    }
}
