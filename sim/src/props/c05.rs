//! C05 Check is sound and complete with respect to restorability.

use std::collections::BTreeMap;

use serde::{Deserialize, Serialize};
use serde_json::{Value, json};

use crate::common;
use crate::harness::{Env, Prop, Report, Tier};
use crate::model::{FsModel, GenParams};
use crate::props::c01::build_model_min;
use crate::readback::ReadBack;
use crate::rng::{Rng, hash64};
use crate::sim::{Cmd, Sim};
use crate::store::{files_digest, ft_name};
use crate::tamper::{damages_of, targets};
use crate::world::RepoCfg;

pub struct C05;

#[derive(Clone, Debug, Serialize, Deserialize)]
pub struct Spec {
    pub pool: usize,
    pub subseed: u64,
    pub cfg: RepoCfg,
    pub gen: GenParams,
    pub model_seed: u64,
    pub steps: usize,
    /// number of (file, fault) pairs evaluated (0 = all)
    pub sample: usize,
    /// minimiser: evaluate only the damage with this label
    pub only: Option<String>,
    pub start_s: i64,
}

impl Prop for C05 {
    fn id(&self) -> &'static str {
        "C05"
    }
    fn scheduled(&self) -> bool {
        true
    }
    fn level(&self) -> &'static str {
        "fault_enumeration"
    }
    fn runs(&self, tier: Tier) -> u64 {
        match tier {
            Tier::Quick => 250,
            Tier::Thorough => 1500,
        }
    }
    fn rule(&self) -> &'static str {
        "one run = a repository built by a generated history (backups, stale-index double backups => duplicate blobs, forgets, non-instant prunes => marked packs, several index files), then stored-file damage: \
         for (a sample of | all) stored files except config and keys x {remove, truncate (structural + seeded lengths), bit flip (structural + seeded positions), extend, swap with sibling, drop one index entry, duplicate one index entry}: \
         check(read_data) and read-back of every snapshot on fresh handles of the damaged state; violation iff check reports no error while some snapshot does not read back equal to its model \
         (a panic of check or of a read path is its own violation class). Control: the undamaged state must be check-clean and fully readable. \
         evaluations = damaged states evaluated; non-trivial = a damage that made check report an error or a read fail; distinct = hash(repository state, damage)"
    }
    fn assumptions(&self) -> Vec<&'static str> {
        vec![
            "check and read-back run free (FIFO-serial) on separate fresh handles; index files arrive in listing order",
            "key files are not damaged here (the repository is opened with the master key); C04 covers credentials",
        ]
    }

    fn generate(&self, subseed: u64, tier: Tier) -> Value {
        let mut rng = Rng::new(subseed);
        let mut cfg = RepoCfg::gen_small(&mut rng);
        if cfg.compression.is_some_and(|c| c > 3) {
            cfg.compression = Some(1);
        }
        let mut genp = GenParams::default();
        genp.max_entries = 6;
        genp.max_file = 30_000;
        genp.total_cap = 80_000;
        genp.special = false;
        genp.sizes_of_interest = vec![4096];
        let spec = Spec {
            pool: 1,
            subseed,
            cfg,
            gen: genp,
            model_seed: rng.next_u64(),
            steps: rng.range(2, 6) as usize,
            sample: if tier == Tier::Quick { 30 } else { 0 },
            only: None,
            start_s: common::BASE_TIME_S + rng.range(0, 400 * 86400) as i64,
        };
        serde_json::to_value(spec).unwrap()
    }

    fn shrink(&self, spec: &Value) -> Vec<Value> {
        let s: Spec = serde_json::from_value(spec.clone()).unwrap();
        let mut out = vec![];
        if s.steps > 2 {
            let mut c = s.clone();
            c.steps -= 1;
            out.push(serde_json::to_value(c).unwrap());
        }
        out
    }

    fn exec(&self, spec: &Value, env: &Env) -> Report {
        let s: Spec = serde_json::from_value(spec.clone()).expect("spec");
        let mut rep = Report::default();
        common::run_setup(s.subseed, s.start_s);
        let mut rng = Rng::new(s.subseed ^ 0xc05);
        let mut sim = Sim::new(s.subseed, s.cfg.clone(), &env.cpus, "c05");
        if let Cmd::Err(e) = sim.init() {
            rep.sample = json!({"skipped": "configuration refused by init", "error": e});
            rep.evaluations = 1;
            return rep;
        }
        sim.strict_bg_panics = false;
        let mut model = build_model_min(&s.gen, s.model_seed, &[], s.start_s, 2);
        if rng.chance(1, 2) {
            // a file saved from a stream: its node reports size 0 although it has content of its own
            let data = rng.bytes_range(200, 6000);
            let mut e = crate::model::default_entry(&mut rng, crate::model::Kind::File(std::sync::Arc::new(data)), s.start_s);
            e.inode = 4_242_424;
            let _ = model.entries.insert(vec![b"stdin-data.stream".to_vec()], e);
            rep.fire("model_with_a_stream_file(node size 0, content present)", 1);
        }
        let hist = match sim.build_history(&mut rng, &s.gen, &mut model, s.steps) {
            Ok(h) => h,
            Err((fp, d)) => {
                rep.harness_errors.push(format!("history failed ({fp}): {d}"));
                return rep;
            }
        };
        let files = sim.store.files();
        let key = sim.key.aead_key();
        let expected: BTreeMap<String, FsModel> = sim.snaps.iter().map(|(k, v)| (k.clone(), v.model.clone())).collect();
        // control
        let ctl = sim.probe_state(files.clone(), &expected);
        if ctl.panic.is_some() || ctl.open_err.is_some() || ctl.index_err.is_some() || !ctl.check_errors.is_empty() || ctl.readback.values().any(|r| !r.is_equal()) || ctl.readback.len() != expected.len() {
            // an unhealthy undamaged state is C02's business; here it would make every verdict meaningless
            rep.harness_errors.push(format!("control failed on the undamaged state: {ctl:?}").chars().take(600).collect());
            return rep;
        }
        let mut all: Vec<(crate::tamper::Damage, crate::store::Files)> = vec![];
        for t in targets(&files, false) {
            all.extend(damages_of(&files, t, &key, &mut rng, s.sample == 0));
        }
        if s.sample > 0 && all.len() > s.sample {
            rng.shuffle(&mut all);
            all.truncate(s.sample);
        }
        let mut samples = vec![];
        let mut evaluations = 0u64;
        for (dmg, dfiles) in all {
            if let Some(only) = &s.only {
                if &dmg.label() != only {
                    continue;
                }
            }
            evaluations += 1;
            rep.fire(dmg.kind, 1);
            rep.states.push(files_digest(&dfiles));
            let p = sim.probe_state(dfiles, &expected);
            let class = format!("{}:{}", ft_name(dmg.tpe), dmg.kind);
            if let Some(pn) = &p.panic {
                let fp = format!("C05/panic-on-damaged-repository:{class}:{}", common::classify(&common::short_loc(pn)));
                if !rep.violations.iter().any(|v| v.fingerprint == fp) {
                    rep.violation(fp, format!("{}: {pn}", dmg.label()));
                }
                continue;
            }
            let check_clean = p.open_err.is_none() && p.check_ran && p.check_errors.is_empty();
            // a removed snapshot file simply is one snapshot less: nothing a check could notice
            let gone = (dmg.kind == "remove" && dmg.tpe == rustic_core::FileType::Snapshot).then(|| crate::audit::id_hex(&dmg.id));
            let unreadable: Vec<String> = expected
                .keys()
                .filter(|h| Some(*h) != gone.as_ref())
                .filter(|h| !matches!(p.readback.get(*h), Some(ReadBack::Equal)))
                .map(|h| format!("{h}: {}", p.readback.get(h).map_or("not listed / index not loadable".to_string(), ReadBack::short)))
                .collect();
            if !check_clean || !unreadable.is_empty() {
                rep.nontrivial.push(hash64(&[&files_digest(&files).to_le_bytes(), dmg.label().as_bytes()]));
            }
            if check_clean && !unreadable.is_empty() {
                let fp = format!("C05/check-clean-but-not-restorable:{class}");
                if !rep.violations.iter().any(|v| v.fingerprint == fp) {
                    rep.violation(fp, format!("{}: check(read_data) reports no error, but {}", dmg.label(), unreadable.join("; ")));
                }
            }
            if samples.len() < 6 {
                samples.push(json!({"damage": dmg.label(), "check_clean": check_clean, "snapshots_not_restorable": unreadable.len()}));
            }
        }
        rep.fire("background_thread_panic(command returned normally)", sim.bg_panics.len() as u64);
        sim.finish_report(&mut rep);
        rep.trace_hash = files_digest(&files);
        rep.evaluations = evaluations.max(1);
        rep.sample = json!({"history": hist, "config": s.cfg.describe(), "stored_files": files.len(), "snapshots": expected.len(), "damages": samples});
        rep
    }
}
