//! C13 Results do not depend on thread scheduling, latency or pack boundaries.

use std::collections::BTreeSet;

use rustic_core::{BackupOptions, PruneOptions};
use serde::{Deserialize, Serialize};
use serde_json::{Value, json};

use crate::audit::{StoreView, id_hex, pack_index_mismatches};
use crate::common;
use crate::harness::{Env, Prop, Report, Tier};
use crate::interpose;
use crate::model::{GenParams, ReadPlan, edit_model};
use crate::props::c01::build_model;
use crate::rng::{Rng, hash64};
use crate::sched::{ClockSteps, Mode, Policy, Role};
use crate::sim::{Cmd, Sim};
use crate::store::files_digest;
use crate::world::{ChunkerCfg, RepoCfg};

pub struct C13;

#[derive(Clone, Debug, Serialize, Deserialize)]
pub struct Spec {
    pub pool: usize,
    pub subseed: u64,
    pub kind: String, // "backup" | "prune"
    pub chunker: ChunkerCfg,
    pub version: u32,
    pub gen: GenParams,
    pub model_seed: u64,
    pub drop: Vec<usize>,
    pub executions: usize,
    pub with_prestate: bool,
    pub start_s: i64,
}

fn variant_cfg(rng: &mut Rng, chunker: &ChunkerCfg, version: u32, i: usize) -> RepoCfg {
    let mut c = RepoCfg { version, chunker: chunker.clone(), ..RepoCfg::default() };
    // pack-size limits from one blob per pack upward; compression and verification vary too
    let sizes = [Some(1u64), Some(3000), Some(20_000), Some(200_000), None];
    c.datapack_size = sizes[(i + rng.usize(2)) % sizes.len()];
    c.treepack_size = sizes[(i * 2 + rng.usize(3)) % sizes.len()];
    c.datapack_growfactor = Some(0);
    c.treepack_growfactor = Some(0);
    if version == 2 {
        c.compression = *rng.pick(&[None, Some(0), Some(1), Some(-3)]);
    }
    c.extra_verify = *rng.pick(&[None, Some(false)]);
    c
}

fn policy_for(rng: &mut Rng, i: usize) -> (Mode, String) {
    let starve = [Role::Source, Role::WritePack, Role::WriteIndex, Role::Internal, Role::ReadPack, Role::Remove];
    let p = match i {
        0 => Policy::Fifo,
        1 => Policy::Random,
        2 => Policy::Starve(starve[rng.usize(starve.len())]),
        _ => Policy::draw(rng, &[0, 1]),
    };
    let name = format!("{p:?}");
    let name = name.split('{').next().unwrap_or("").trim().to_string();
    (Mode::Sched { policy: p, clock: ClockSteps { jumps: rng.chance(1, 5) }, step_cap: 8000 }, name)
}

/// A directory with thousands of distinct sub-directories: backup, check, prune plan + prune and copy
/// must all terminate (queues between the tree loader threads and their consumer must not form a cycle
/// that fills up) and the snapshot must read back.
fn exec_wide(s: &Spec, env: &Env) -> Report {
    let mut rep = Report::default();
    common::run_setup(s.subseed, s.start_s);
    let mut rng = Rng::new(s.subseed ^ 0x71de);
    let width = *rng.pick(&[1500usize, 4200, 9000]);
    let mut model = crate::model::FsModel::default();
    let dir = crate::model::default_entry(&mut rng, crate::model::Kind::Dir, s.start_s);
    let _ = model.entries.insert(vec![b"wide".to_vec()], dir.clone());
    for i in 0..width {
        let d = format!("d{i:05}").into_bytes();
        let _ = model.entries.insert(vec![b"wide".to_vec(), d.clone()], dir.clone());
        let mut f = crate::model::default_entry(&mut rng, crate::model::Kind::File(std::sync::Arc::new(format!("content {i}").into_bytes())), s.start_s);
        f.inode = 100_000 + i as u64;
        let _ = model.entries.insert(vec![b"wide".to_vec(), d, b"f".to_vec()], f);
    }
    // default pack sizes: the point is the number of sub-trees in flight, not the number of packs
    let mut cfg = variant_cfg(&mut rng, &s.chunker, s.version, 3);
    cfg.datapack_size = None;
    cfg.treepack_size = None;
    cfg.compression = if cfg.version == 1 { cfg.compression } else { Some(0) };
    let mut sim = Sim::new(s.subseed, cfg.clone(), &env.cpus, "c13-wide");
    if let Cmd::Err(e) = sim.init() {
        rep.sample = json!({"skipped": "configuration refused by init", "error": e});
        rep.evaluations = 1;
        return rep;
    }
    let plan = ReadPlan { frag: vec![0], eintr_every: 0, gate_reads_every: 0 };
    let mut steps = vec![];
    let mut judge = |rep: &mut Report, name: &str, r: Cmd<()>| -> bool {
        steps.push(format!("{name}: {}", r.class().chars().take(40).collect::<String>()));
        match r {
            Cmd::Ok(()) => true,
            r => {
                rep.violation(format!("C13/wide-{name}-{}", r.class()), format!("{width} sub-directories: {}", r.detail()));
                false
            }
        }
    };
    let r = sim.backup(&Mode::Free, &model, 1, &BackupOptions::default(), &plan, "c13-wide").map_unit();
    let mut ok = judge(&mut rep, "backup", r);
    if ok {
        let (st, ky) = (sim.store.clone(), sim.key.clone());
        let r = sim.run(&Mode::Free, move || crate::world::repo_open(&st, 2, &ky)?.check(rustic_core::CheckOptions::default()).map(|_| ()));
        ok = judge(&mut rep, "check", r);
    }
    if ok {
        let popts = PruneOptions::default().max_unused(rustic_core::LimitOption::Percentage(0)).max_repack(rustic_core::LimitOption::Unlimited).keep_delete(jiff::Span::new());
        let r = sim.prune(&Mode::Free, 2, &popts);
        ok = judge(&mut rep, "prune", r);
    }
    if ok {
        let mut dst = Sim::new(s.subseed ^ 0xd57, cfg.clone(), &env.cpus, "c13-wide-dst");
        if dst.init().is_ok() {
            let (ss, sk, ds, dk) = (sim.store.clone(), sim.key.clone(), dst.store.clone(), dst.key.clone());
            let r = dst.run(&Mode::Free, move || {
                let src = crate::world::repo_open(&ss, 7, &sk)?.to_indexed()?;
                let d = crate::world::repo_open(&ds, 1, &dk)?.to_indexed_ids()?;
                let snaps = src.get_all_snapshots()?;
                src.copy(&d, snaps.iter())
            });
            ok = judge(&mut rep, "copy", r);
        }
    }
    if ok {
        // the listing must show every entry (full read-back of thousands of files is left to C01's sizes)
        if let Some(rec) = sim.snaps.values().next().cloned() {
            let (st, ky) = (sim.store.clone(), sim.key.clone());
            let want = model.entries.len();
            let r = sim.run(&Mode::Free, move || {
                let repo = crate::world::repo_open(&st, 3, &ky)?.to_indexed()?;
                Ok(crate::readback::list_snapshot(&repo, &rec.snap).map(|v| v.len()))
            });
            match r {
                Cmd::Ok(Ok(n)) if n == want => {}
                Cmd::Ok(Ok(n)) => rep.violation("C13/wide:listing-incomplete", format!("{n} of {want} entries listed")),
                Cmd::Ok(Err((w, e))) => rep.violation("C13/wide:listing-failed", format!("{w}: {e}")),
                r => rep.violation(format!("C13/wide-ls-{}", r.class()), r.detail()),
            }
        }
    }
    sim.finish_report(&mut rep);
    rep.fire("wide_directory_scenario", 1);
    rep.evaluations = steps.len().max(1) as u64;
    rep.nontrivial.push(hash64(&[b"wide", &(width as u64).to_le_bytes(), &s.subseed.to_le_bytes()]));
    rep.trace_hash = hash64(&[b"wide", &files_digest(&sim.store.files()).to_le_bytes()]);
    rep.sample = json!({"kind": "wide", "sub_directories": width, "steps": steps, "config": cfg.describe()});
    rep
}

impl Prop for C13 {
    fn id(&self) -> &'static str {
        "C13"
    }
    fn scheduled(&self) -> bool {
        true
    }
    fn runs(&self, tier: Tier) -> u64 {
        match tier {
            Tier::Quick => 850,
            Tier::Thorough => 12000,
        }
    }
    fn rule(&self) -> &'static str {
        "one run = one (pre-state, source model, chunker settings) executed R times (R=5 quick, 12 thorough) from scratch, each under a different gate-release policy \
         (FIFO, random, starve-one-role, PCT), pariter pool size 1..3 (faked CPU count), pack-size limits from one blob per pack upward, compression; \
         backup kind: snapshot tree id and the set of (type,id) reachable from it must agree across executions; prune kind: the surviving snapshots' reachable sets must agree; \
         copy kind: two snapshots copied under the policy into a fresh repository with another key: the copies' tree ids and reachable sets must agree across executions; \
         wide kind (1 run in 40/25): a directory with 1500-9000 distinct sub-directories, free-running backup, check, prune and copy must terminate and the snapshot must list completely; \
         every execution must terminate; every blob of every stored pack must be listed by an index file with the header's type/offset/length; every reachable blob indexed in an unmarked pack. \
         evaluations = executions; non-trivial = model has data and the executions produced >= 2 distinct gate traces; distinct = hash(model, chunker, trace set)"
    }
    fn assumptions(&self) -> Vec<&'static str> {
        vec![
            "interleavings are explored at the granularity of storage/source calls plus one scheduling point before a written pack is indexed; between two gates the command's threads run FIFO-serialised on one CPU",
            "rayon's global pool size is fixed per worker process; pariter pool sizes vary per execution",
        ]
    }

    fn generate(&self, subseed: u64, tier: Tier) -> Value {
        let mut rng = Rng::new(subseed);
        let pool = *rng.pick(&[1usize, 2, 3]);
        let k = rng.range(12, 14);
        let avg = 1usize << k;
        let chunker = if rng.chance(3, 4) { ChunkerCfg::Rabin { avg, min: 4096, max: avg * *rng.pick(&[1usize, 2, 4]) } } else { ChunkerCfg::Fixed { size: *rng.pick(&[4096usize, 5000, 8192]) } };
        let mut genp = GenParams::default();
        genp.max_entries = 8;
        genp.max_file = 60_000;
        genp.total_cap = 200_000;
        genp.sizes_of_interest = vec![4096, avg];
        let spec = Spec {
            pool,
            subseed,
            kind: match rng.usize(if tier == Tier::Quick { 40 } else { 25 }) {
                // rarely: a very wide directory (thousands of distinct sub-trees at one level)
                0 => "wide".into(),
                x => ["backup", "backup", "backup", "prune", "prune", "copy"][x % 6].into(),
            },
            chunker,
            version: if rng.chance(1, 5) { 1 } else { 2 },
            gen: genp,
            model_seed: rng.next_u64(),
            drop: vec![],
            executions: if tier == Tier::Quick { 5 } else { 12 },
            with_prestate: rng.chance(1, 2),
            start_s: common::BASE_TIME_S + rng.range(0, 400 * 86400) as i64,
        };
        serde_json::to_value(spec).unwrap()
    }

    fn shrink(&self, spec: &Value) -> Vec<Value> {
        let s: Spec = serde_json::from_value(spec.clone()).unwrap();
        let mut out = vec![];
        if s.executions > 2 {
            let mut c = s.clone();
            c.executions -= 1;
            out.push(serde_json::to_value(c).unwrap());
        }
        let n = crate::model::gen_model(&mut Rng::new(s.model_seed), &s.gen, s.start_s).entries.len();
        for i in 0..n {
            if !s.drop.contains(&i) {
                let mut c = s.clone();
                c.drop.push(i);
                out.push(serde_json::to_value(c).unwrap());
            }
        }
        out
    }

    fn exec(&self, spec: &Value, env: &Env) -> Report {
        let s: Spec = serde_json::from_value(spec.clone()).expect("spec");
        let mut rep = Report::default();
        let mut rng = Rng::new(s.subseed ^ 0xc13);
        let m0 = build_model(&s.gen, s.model_seed, &s.drop, s.start_s);
        let mut m1 = m0.clone();
        let _ = edit_model(&mut Rng::new(s.model_seed ^ 1), &mut m1, &s.gen, s.start_s + 3600, 4);
        let mut m2 = m1.clone();
        let _ = edit_model(&mut Rng::new(s.model_seed ^ 2), &mut m2, &s.gen, s.start_s + 7200, 4);

        if s.kind == "wide" {
            return exec_wide(&s, env);
        }
        let mut results: Vec<(String, BTreeSet<String>)> = vec![]; // (tree id(s), reachable set)
        let mut traces = BTreeSet::new();
        let mut descr = vec![];
        let mut listings: Vec<Vec<String>> = vec![];
        for i in 0..s.executions {
            common::run_setup(s.subseed, s.start_s);
            let cfg = variant_cfg(&mut rng, &s.chunker, s.version, i);
            let pariter_pool = 1 + (i + rng.usize(3)) % 3;
            interpose::fake_cpus(pariter_pool);
            let mut sim = Sim::new(s.subseed, cfg.clone(), &env.cpus, "c13");
            if let Cmd::Err(e) = sim.init() {
                rep.sample = json!({"skipped": "configuration refused by init", "error": e});
                rep.evaluations = 1;
                interpose::fake_cpus(env.pool.max(1));
                return rep;
            }
            let plan = ReadPlan { frag: vec![0, 4097, 513], eintr_every: 0, gate_reads_every: *rng.pick(&[0usize, 4]) };
            let (mode, pname) = policy_for(&mut rng, i);
            let mut trace_start = sim.trace.len();
            let outcome: Result<(String, Vec<String>), (String, String)> = if s.kind == "backup" {
                if s.with_prestate {
                    if let r @ (Cmd::Err(_) | Cmd::Panic(_) | Cmd::NoProgress | Cmd::Harness(_)) = sim.backup(&Mode::Free, &m0, 1, &BackupOptions::default(), &plan, "c13") {
                        Err((format!("prestate-backup-{}", r.class()), r.detail()))
                    } else {
                        Ok(())
                    }
                } else {
                    Ok(())
                }
                .and_then(|()| match sim.backup(&mode, &m1, 1, &BackupOptions::default(), &plan, "c13") {
                    Cmd::Ok(snap) => Ok((id_hex(&snap.tree), vec![id_hex(&snap.id)])),
                    r => Err((format!("backup-{}", r.class()), r.detail())),
                })
            } else if s.kind == "copy" {
                // copy: two snapshots in a source repository (free-running), copied under the policy into a
                // fresh destination with its own key and this execution's pack sizes
                let mut err = None;
                let mut src_snaps = vec![];
                for m in [&m0, &m1] {
                    match sim.backup(&Mode::Free, m, 1, &BackupOptions::default(), &plan, "c13") {
                        Cmd::Ok(snap) => src_snaps.push((snap, m.clone())),
                        r => {
                            err = Some((format!("prestate-backup-{}", r.class()), r.detail()));
                            break;
                        }
                    }
                    interpose::clock_advance(3_600_000_000_000);
                }
                if let Some(e) = err {
                    Err(e)
                } else {
                    let mut dst = Sim::new(s.subseed ^ 0xd57, cfg.clone(), &env.cpus, "c13-dst");
                    match dst.init() {
                        Cmd::Ok(()) => {
                            let (ss, sk, ds, dk) = (sim.store.clone(), sim.key.clone(), dst.store.clone(), dst.key.clone());
                            let r = dst.run(&mode, move || {
                                let src = crate::world::repo_open(&ss, 7, &sk)?.to_indexed()?;
                                let d = crate::world::repo_open(&ds, 1, &dk)?.to_indexed_ids()?;
                                let snaps = src.get_all_snapshots()?;
                                let rel = d.relevant_copy_snapshots(|_| true, &snaps)?;
                                let todo: Vec<rustic_core::repofile::SnapshotFile> = rel.into_iter().filter(|c| c.relevant).map(|c| c.sn).collect();
                                src.copy(&d, todo.iter())?;
                                d.get_all_snapshots()
                            });
                            match r {
                                Cmd::Ok(listed) => {
                                    let mut ids = vec![];
                                    for (sn, m) in &src_snaps {
                                        if let Some(c) = listed.iter().find(|c| c.tree == sn.tree && c.time == sn.time) {
                                            let _ = dst.snaps.insert(id_hex(&c.id), crate::sim::SnapRec { snap: c.clone(), model: m.clone() });
                                            ids.push(id_hex(&c.id));
                                        }
                                    }
                                    let r = if ids.len() == src_snaps.len() { Ok(("-".to_string(), ids)) } else { Err(("copy-snapshot-missing-in-destination".to_string(), format!("{} of {} copied snapshots listed", ids.len(), src_snaps.len()))) };
                                    sim = dst;
                                    trace_start = 0;
                                    r
                                }
                                r => {
                                    sim = dst;
                                    trace_start = 0;
                                    Err((format!("copy-{}", r.class()), r.detail()))
                                }
                            }
                        }
                        r => Err((format!("destination-init-{}", r.class()), r.detail())),
                    }
                }
            } else {
                // prune: three snapshots, forget the first, prune under the policy
                let mut ids = vec![];
                let mut err = None;
                for m in [&m0, &m1, &m2] {
                    match sim.backup(&Mode::Free, m, 1, &BackupOptions::default(), &plan, "c13") {
                        Cmd::Ok(snap) => ids.push(id_hex(&snap.id)),
                        r => {
                            err = Some((format!("prestate-backup-{}", r.class()), r.detail()));
                            break;
                        }
                    }
                    interpose::clock_advance(3_600_000_000_000);
                }
                if let Some(e) = err {
                    Err(e)
                } else {
                    let first = ids.remove(0);
                    match sim.forget(&Mode::Free, 2, &[first]) {
                        Cmd::Ok(()) => {
                            let popts = PruneOptions::default()
                                .max_unused(rustic_core::LimitOption::Percentage(0))
                                .max_repack(rustic_core::LimitOption::Unlimited)
                                .keep_delete(jiff::Span::new())
                                .instant_delete(i % 2 == 0)
                                .fast_repack(i % 3 != 0)
                                .repack_all(i % 4 == 1);
                            match sim.prune(&mode, 2, &popts) {
                                Cmd::Ok(()) => Ok(("-".to_string(), ids)),
                                r => Err((format!("prune-{}", r.class()), r.detail())),
                            }
                        }
                        r => Err((format!("forget-{}", r.class()), r.detail())),
                    }
                }
            };
            let tr: Vec<&str> = sim.trace[trace_start..].iter().map(|t| t.0.as_str()).collect();
            let _ = traces.insert(hash64(&tr.iter().map(|x| x.as_bytes()).collect::<Vec<_>>()));
            rep.states.push(files_digest(&sim.store.files()));
            descr.push(json!({"policy": pname, "pariter_pool": pariter_pool, "datapack": cfg.datapack_size, "treepack": cfg.treepack_size, "compression": cfg.compression, "gates": sim.trace.len() - trace_start,
                "poly": sim.store.get(rustic_core::FileType::Config, &rustic_core::Id::default()).and_then(|b| crate::audit::decode_file(&sim.key.aead_key(), &b).ok()).and_then(|j| serde_json::from_slice::<serde_json::Value>(&j).ok()).map(|v| v["chunker_polynomial"].clone())}));
            match outcome {
                Err((class, detail)) => {
                    rep.violation(format!("C13/{class}"), format!("execution {i} ({pname}, pool {pariter_pool}): {detail}"));
                }
                Ok((tree, snap_ids)) => {
                    // independent audit of the final store
                    let files = sim.store.files();
                    let key = sim.key.aead_key();
                    let view = StoreView::build(&key, &files);
                    for e in view.errors.iter().take(2) {
                        rep.violation("C13/stored-file-does-not-decode", format!("execution {i}: {e}"));
                    }
                    for m in pack_index_mismatches(&view).iter().take(2) {
                        rep.violation("C13/index-disagrees-with-pack-header", format!("execution {i}: {m}"));
                    }
                    // every blob of every stored pack is listed in an index file for that pack
                    'packs: for (pid, info) in &view.packs {
                        for e in &info.entries {
                            let listed = view.index.get(&(e.tpe, e.id)).is_some_and(|v| v.iter().any(|x| &x.pack == pid));
                            if !listed {
                                rep.violation("C13/blob-in-pack-not-indexed", format!("execution {i} ({pname}): {} blob {} of pack {} is in no index file", e.tpe, id_hex(&e.id), id_hex(pid)));
                                break 'packs;
                            }
                        }
                    }
                    let mut reach_all = BTreeSet::new();
                    let mut trees = vec![tree];
                    for sid in &snap_ids {
                        let Some(snap) = view.snapshots.iter().find(|(id, _)| &id_hex(id) == sid).map(|(_, s)| s.clone()) else {
                            rep.violation("C13/snapshot-missing", format!("execution {i}: snapshot {sid} not in store"));
                            continue;
                        };
                        if s.kind != "backup" {
                            trees.push(id_hex(&snap.tree));
                        }
                        match view.reachable(&key, &files, &snap.tree) {
                            Ok(set) => {
                                for (t, id) in set {
                                    if !view.indexed_live(t, &id) {
                                        rep.violation("C13/referenced-blob-not-indexed", format!("execution {i} ({pname}): {t} blob {} referenced by snapshot {sid} is not listed in an unmarked existing pack", id_hex(&id)));
                                    }
                                    let _ = reach_all.insert(format!("{t}:{}", id_hex(&id)));
                                }
                            }
                            Err(e) => rep.violation("C13/referenced-blob-missing", format!("execution {i} ({pname}): snapshot {sid}: {e}")),
                        }
                    }
                    results.push((trees.join(","), reach_all));
                    // keep a listing of the newest snapshot for diagnosis
                    if let Some(rec) = sim.snaps.values().last().cloned() {
                        let (store, key) = (sim.store.clone(), sim.key.clone());
                        if let Cmd::Ok(l) = sim.run(&Mode::Free, move || {
                            let repo = crate::world::repo_open(&store, 91, &key)?.to_indexed()?;
                            Ok(crate::readback::list_snapshot(&repo, &rec.snap).map(|v| v.into_iter().map(|(p, n)| format!("{} {}", p.display(), serde_json::to_string(&n).unwrap_or_default())).collect::<Vec<_>>()).unwrap_or_default())
                        }) {
                            listings.push(l);
                        }
                    }
                    // read-back through the library as well
                    for (fp, d) in sim.verify(true) {
                        rep.violation(format!("C13/{fp}"), format!("execution {i} ({pname}): {d}"));
                    }
                }
            }
            sim.finish_report(&mut rep);
            if !rep.violations.is_empty() {
                rep.trace = sim.trace.clone();
                break;
            }
        }
        interpose::fake_cpus(env.pool.max(1));
        if results.len() >= 2 {
            for (i, r) in results.iter().enumerate().skip(1) {
                if r.0 != results[0].0 {
                    let diff = listings.first().zip(listings.get(i)).and_then(|(a, b)| a.iter().zip(b.iter()).find(|(x, y)| x != y).map(|(x, y)| format!("first differing node: `{x}` vs `{y}`"))).unwrap_or_default();
                    rep.violation("C13/tree-id-differs-between-executions", format!("execution 0 tree {} vs execution {i} tree {}; {diff}", results[0].0, r.0));
                    break;
                }
                if r.1 != results[0].1 {
                    rep.violation("C13/reachable-blob-set-differs-between-executions", format!("execution 0 has {} blobs, execution {i} has {}", results[0].1.len(), r.1.len()));
                    break;
                }
            }
        }
        rep.evaluations = results.len().max(1) as u64;
        if m1.total_bytes() > 0 && traces.len() >= 2 {
            let t: Vec<u8> = traces.iter().flat_map(|x| x.to_le_bytes()).collect();
            rep.nontrivial.push(hash64(&[&s.model_seed.to_le_bytes(), format!("{:?}{:?}", s.chunker, s.drop).as_bytes(), &t]));
        }
        rep.trace_hash = hash64(&[&traces.iter().flat_map(|x| x.to_le_bytes()).collect::<Vec<u8>>()]);
        rep.sample = json!({"kind": s.kind, "chunker": format!("{:?}", s.chunker), "version": s.version, "model": m1.describe(), "prestate": s.with_prestate, "executions": descr, "distinct_traces": traces.len()});
        rep
    }
}
