//! C14 Restore yields exactly the snapshot and never writes outside the target.
//!
//! One run = one repository with one snapshot (benign, or "hostile": archived through a
//! `ReadSource` whose node names contain `..`, separators or absolute paths) and a number of
//! restore cases. Every case builds a sandbox `top/l1/l2/{outside, dest}` on tmpfs, fills `dest`
//! with a generated pre-existing state, draws restore options, optionally runs
//! `prepare_restore(dry_run)` first, then `prepare_restore` + `restore`, and compares
//!   * everything below `top` except `dest` before/after (names, types, modes, owners, sizes,
//!     mtimes, contents, link targets): must be unchanged in every case,
//!   * every snapshot path in `dest` with the snapshot (type, bytes, link target, mode, mtime,
//!     owner) when the restore returned Ok,
//!   * every pre-existing entry that is not a snapshot path with its former state when `delete`
//!     was not requested.

use std::collections::BTreeMap;
use std::ffi::{CString, OsStr};
use std::io::Cursor;
use std::os::unix::ffi::OsStrExt;
use std::os::unix::fs::{FileTypeExt, MetadataExt, PermissionsExt};
use std::path::{Path, PathBuf};
use std::sync::Arc;
use std::time::Duration;

use rustic_core::repofile::SnapshotFile;
use rustic_core::verif::SparseRestore;
use rustic_core::{BackupOptions, LocalDestination, LsOptions, ReadSource, ReadSourceEntry, RestoreOptions, RusticResult};
use serde::{Deserialize, Serialize};
use serde_json::{Value, json};

use crate::common::{self, classify, etext, short_loc};
use crate::harness::{Env, Prop, Report, Tier};
use crate::model::{Entry, FsModel, GenParams, Kind, PathKey, ReadPlan, edit_model, gen_model, gen_name, node_of, path_of, show_key};
use crate::props::c01::build_model;
use crate::rng::{Rng, hash64};
use crate::sched::{Mode, Stop};
use crate::sim::{Cmd, Sim};
use crate::world::{RepoCfg, repo_open, snap_template};

pub struct C14;

#[derive(Clone, Debug, Serialize, Deserialize)]
pub struct Spec {
    pub pool: usize,
    pub subseed: u64,
    pub cfg: RepoCfg,
    pub gen: GenParams,
    pub model_seed: u64,
    /// minimiser: model entries (index in generation order of the BTreeMap) removed
    pub drop: Vec<usize>,
    /// hostile node-name kind (None = benign snapshot)
    pub hostile: Option<String>,
    /// number of restore cases (destination state x options)
    pub cases: usize,
    /// minimiser: evaluate only this case
    pub only: Option<usize>,
    /// minimiser: entries (same indexing as `drop`) whose pre-existing counterpart is forced to be identical
    pub plain: Vec<usize>,
    /// minimiser: no extra entries in the destination
    pub no_extras: bool,
    pub start_s: i64,
}

const HOSTILE_KINDS: [&str; 13] = [
    "dotdot-file",
    "dotdot-chain",
    "dotdot-nested",
    "dotdot-dir",
    "dotdot-symlink",
    "slash-dotdot",
    "abs-file",
    "abs-dir",
    "abs-overwrite",
    "symlink-then-hardlink",
    "slash-inside",
    "dot-dir",
    "dot-file",
];

/// culprit class of a hostile kind (part of the fingerprint)
fn hostile_class(kind: &str) -> &'static str {
    if kind.starts_with("dotdot") || kind == "slash-dotdot" {
        "dotdot"
    } else if kind.starts_with("abs-") {
        "absolute"
    } else if kind == "symlink-then-hardlink" {
        "symlink-then-entry-beneath"
    } else {
        "inside-only"
    }
}

// ---------------------------------------------------------------------------------------------
// sandbox

struct Sandbox {
    top: PathBuf,
    l2: PathBuf,
    dest: PathBuf,
    outside: PathBuf,
}

fn cstr(p: &Path) -> CString {
    CString::new(p.as_os_str().as_bytes()).expect("path without NUL")
}

fn set_mtime(p: &Path, t: (i64, i32)) -> std::io::Result<()> {
    let ts = [libc::timespec { tv_sec: t.0, tv_nsec: t.1 as _ }, libc::timespec { tv_sec: t.0, tv_nsec: t.1 as _ }];
    let c = cstr(p);
    let r = unsafe { libc::utimensat(libc::AT_FDCWD, c.as_ptr(), ts.as_ptr(), libc::AT_SYMLINK_NOFOLLOW) };
    if r == 0 { Ok(()) } else { Err(std::io::Error::last_os_error()) }
}

fn mkfifo(p: &Path) -> std::io::Result<()> {
    let c = cstr(p);
    let r = unsafe { libc::mkfifo(c.as_ptr(), 0o644) };
    if r == 0 { Ok(()) } else { Err(std::io::Error::last_os_error()) }
}

fn rm_rf(p: &Path) {
    if std::fs::symlink_metadata(p).is_err() {
        return;
    }
    // directories may have been left without permissions (irrelevant as root, but be safe)
    fn fix(dir: &Path) {
        let _ = std::fs::set_permissions(dir, std::fs::Permissions::from_mode(0o755));
        if let Ok(rd) = std::fs::read_dir(dir) {
            for e in rd.flatten() {
                if e.file_type().map(|t| t.is_dir()).unwrap_or(false) {
                    fix(&e.path());
                }
            }
        }
    }
    if std::fs::symlink_metadata(p).map(|m| m.is_dir()).unwrap_or(false) {
        fix(p);
    }
    let _ = std::fs::remove_dir_all(p);
}

impl Sandbox {
    fn paths(tmp: &Path) -> Self {
        let top = tmp.join("c14");
        let l2 = top.join("l1").join("l2");
        Self { dest: l2.join("dest"), outside: l2.join("outside"), l2, top }
    }

    /// (re)create the sandbox with its sentinels and an empty destination directory
    fn rebuild(&self) -> std::io::Result<()> {
        rm_rf(&self.top);
        std::fs::create_dir_all(&self.outside)?;
        std::fs::create_dir_all(&self.dest)?;
        let o = &self.outside;
        std::fs::write(o.join("file1"), b"sentinel one: must never change\n")?;
        std::fs::write(o.join("file2"), vec![0x5au8; 5000])?;
        std::fs::set_permissions(o.join("file2"), std::fs::Permissions::from_mode(0o600))?;
        std::fs::create_dir(o.join("dir1"))?;
        std::fs::write(o.join("dir1").join("inner"), b"inner sentinel\n")?;
        std::fs::create_dir(o.join("dir1").join("sub"))?;
        std::fs::write(o.join("dir1").join("sub").join("deep"), b"deep sentinel\n")?;
        std::os::unix::fs::symlink("file1", o.join("link1"))?;
        std::fs::write(self.l2.join("sibling"), b"a file next to the destination\n")?;
        std::fs::write(self.top.join("topfile"), b"a file two levels up\n")?;
        for (p, t) in [
            (o.join("file1"), 1_600_000_001),
            (o.join("file2"), 1_600_000_002),
            (o.join("dir1").join("inner"), 1_600_000_003),
            (o.join("dir1").join("sub").join("deep"), 1_600_000_004),
            (o.join("dir1").join("sub"), 1_600_000_005),
            (o.join("dir1"), 1_600_000_006),
            (o.join("link1"), 1_600_000_007),
            (self.l2.join("sibling"), 1_600_000_008),
            (self.top.join("topfile"), 1_600_000_009),
            (o.clone(), 1_600_000_010),
        ] {
            set_mtime(&p, (t, 0))?;
        }
        Ok(())
    }

    /// replace the sandbox prefix of a path by a symbolic name (reports must not depend on the pid)
    fn symbolic(&self, bytes: &[u8]) -> String {
        let s = String::from_utf8_lossy(bytes).to_string();
        s.replace(self.top.to_string_lossy().as_ref(), "<top>")
    }
}

#[derive(Clone, Debug, PartialEq, Eq)]
enum OKind {
    File(Arc<Vec<u8>>),
    Dir,
    Symlink(Vec<u8>),
    Fifo,
    Other,
}

impl OKind {
    fn tname(&self) -> &'static str {
        match self {
            OKind::File(_) => "file",
            OKind::Dir => "dir",
            OKind::Symlink(_) => "symlink",
            OKind::Fifo => "fifo",
            OKind::Other => "other",
        }
    }
}

#[derive(Clone, Debug, PartialEq, Eq)]
struct Obs {
    kind: OKind,
    mode: u32,
    mtime: (i64, i32),
    uid: u32,
    gid: u32,
    ino: u64,
    nlink: u64,
}

fn observe(p: &Path) -> std::io::Result<Obs> {
    let md = std::fs::symlink_metadata(p)?;
    let ft = md.file_type();
    let kind = if ft.is_file() {
        OKind::File(Arc::new(std::fs::read(p)?))
    } else if ft.is_dir() {
        OKind::Dir
    } else if ft.is_symlink() {
        OKind::Symlink(std::fs::read_link(p)?.as_os_str().as_bytes().to_vec())
    } else if ft.is_fifo() {
        OKind::Fifo
    } else {
        OKind::Other
    };
    Ok(Obs { kind, mode: md.mode() & 0o7777, mtime: (md.mtime(), md.mtime_nsec() as i32), uid: md.uid(), gid: md.gid(), ino: md.ino(), nlink: md.nlink() })
}

/// everything below `root` (symlinks are not followed), optionally skipping one subtree
fn scan(root: &Path, skip: Option<&Path>) -> std::io::Result<BTreeMap<PathKey, Obs>> {
    fn rec(dir: &Path, prefix: &PathKey, skip: Option<&Path>, out: &mut BTreeMap<PathKey, Obs>) -> std::io::Result<()> {
        let mut names: Vec<_> = std::fs::read_dir(dir)?.collect::<Result<Vec<_>, _>>()?;
        names.sort_by_key(std::fs::DirEntry::file_name);
        for e in names {
            let p = e.path();
            if skip == Some(p.as_path()) {
                continue;
            }
            let mut k = prefix.clone();
            k.push(e.file_name().as_bytes().to_vec());
            let o = observe(&p)?;
            let is_dir = o.kind == OKind::Dir;
            let _ = out.insert(k.clone(), o);
            if is_dir {
                rec(&p, &k, skip, out)?;
            }
        }
        Ok(())
    }
    let mut out = BTreeMap::new();
    let _ = out.insert(vec![], observe(root)?);
    rec(root, &vec![], skip, &mut out)?;
    Ok(out)
}

fn obs_text(sb: &Sandbox, o: Option<&Obs>) -> String {
    match o {
        None => "absent".into(),
        Some(o) => {
            let what = match &o.kind {
                OKind::File(b) => format!("file[{} bytes, {:016x}]", b.len(), hash64(&[b.as_slice()])),
                OKind::Symlink(t) => format!("symlink->{}", sb.symbolic(t)),
                k => k.tname().to_string(),
            };
            format!("{what} mode {:o} owner {}:{} mtime {}.{:09} links {}", o.mode, o.uid, o.gid, o.mtime.0, o.mtime.1, o.nlink)
        }
    }
}

/// differences between two scans (symbolic text, at most `cap`)
fn diff_scans(sb: &Sandbox, a: &BTreeMap<PathKey, Obs>, b: &BTreeMap<PathKey, Obs>, cap: usize) -> Vec<String> {
    let mut out = vec![];
    let mut keys: Vec<&PathKey> = a.keys().chain(b.keys()).collect();
    keys.sort();
    keys.dedup();
    for k in keys {
        let (x, y) = (a.get(k), b.get(k));
        let same = match (x, y) {
            // inode numbers are not part of the comparison
            (Some(x), Some(y)) => x.kind == y.kind && x.mode == y.mode && x.mtime == y.mtime && x.uid == y.uid && x.gid == y.gid && x.nlink == y.nlink,
            (None, None) => true,
            _ => false,
        };
        if !same {
            if out.len() < cap {
                out.push(format!("`{}`: {} => {}", if k.is_empty() { ".".to_string() } else { show_key(k) }, obs_text(sb, x), obs_text(sb, y)));
            } else {
                out.push("...".into());
                break;
            }
        }
    }
    out
}

// ---------------------------------------------------------------------------------------------
// pre-existing destination states

#[derive(Clone, Debug, PartialEq, Eq)]
enum Link {
    Raw(Vec<u8>),
    /// absolute path into the sandbox's `outside` directory
    Outside(&'static str),
}

#[derive(Clone, Debug, PartialEq, Eq)]
enum PKind {
    File(Arc<Vec<u8>>),
    Dir,
    Symlink(Link),
    Fifo,
    /// a second name of the regular file at this (other) path of the pre-existing state
    HardlinkTo(PathKey),
}

impl PKind {
    fn tname(&self) -> &'static str {
        match self {
            PKind::File(_) | PKind::HardlinkTo(_) => "file",
            PKind::Dir => "dir",
            PKind::Symlink(_) => "symlink",
            PKind::Fifo => "fifo",
        }
    }
}

#[derive(Clone, Debug, PartialEq, Eq)]
struct PEntry {
    kind: PKind,
    mode: u32,
    mtime: (i64, i32),
}

type PreState = BTreeMap<PathKey, PEntry>;

fn parent_of(k: &PathKey) -> PathKey {
    k[..k.len().saturating_sub(1)].to_vec()
}

fn is_under(k: &PathKey, anc: &PathKey) -> bool {
    k.len() > anc.len() && k[..anc.len()] == anc[..]
}

fn p_is_dir(p: &PreState, k: &PathKey) -> bool {
    k.is_empty() || matches!(p.get(k), Some(PEntry { kind: PKind::Dir, .. }))
}

/// content and mtime of the regular file at `k` (hard links resolved)
fn p_file<'a>(p: &'a PreState, k: &PathKey) -> Option<(&'a Arc<Vec<u8>>, (i64, i32), u32)> {
    match p.get(k)? {
        PEntry { kind: PKind::File(b), mtime, mode } => Some((b, *mtime, *mode)),
        PEntry { kind: PKind::HardlinkTo(t), .. } => match p.get(t)? {
            PEntry { kind: PKind::File(b), mtime, mode } => Some((b, *mtime, *mode)),
            _ => None,
        },
        _ => None,
    }
}

fn link_bytes(sb: &Sandbox, l: &Link) -> Vec<u8> {
    match l {
        Link::Raw(b) => b.clone(),
        Link::Outside(rel) => sb.outside.join(rel).as_os_str().as_bytes().to_vec(),
    }
}

fn materialise(sb: &Sandbox, p: &PreState) -> std::io::Result<()> {
    for (k, e) in p {
        let path = sb.dest.join(path_of(k));
        match &e.kind {
            PKind::File(b) => std::fs::write(&path, b.as_slice())?,
            PKind::Dir => std::fs::create_dir(&path)?,
            PKind::Symlink(l) => std::os::unix::fs::symlink(OsStr::from_bytes(&link_bytes(sb, l)), &path)?,
            PKind::Fifo => mkfifo(&path)?,
            PKind::HardlinkTo(_) => {}
        }
    }
    for (k, e) in p {
        if let PKind::HardlinkTo(t) = &e.kind {
            std::fs::hard_link(sb.dest.join(path_of(t)), sb.dest.join(path_of(k)))?;
        }
    }
    // children before parents, so that directory mtimes stick
    for (k, e) in p.iter().rev() {
        let path = sb.dest.join(path_of(k));
        match &e.kind {
            PKind::HardlinkTo(_) => {}
            PKind::Symlink(_) => set_mtime(&path, e.mtime)?,
            _ => {
                std::fs::set_permissions(&path, std::fs::Permissions::from_mode(e.mode))?;
                set_mtime(&path, e.mtime)?;
            }
        }
    }
    Ok(())
}

fn pre_digest(p: &PreState) -> u64 {
    let mut parts: Vec<Vec<u8>> = vec![];
    for (k, e) in p {
        parts.push(k.join(&b'/'));
        parts.push(match &e.kind {
            PKind::File(b) => [b"f".as_slice(), &hash64(&[b.as_slice()]).to_le_bytes()].concat(),
            PKind::Dir => b"d".to_vec(),
            PKind::Symlink(Link::Raw(t)) => [b"l".as_slice(), t].concat(),
            PKind::Symlink(Link::Outside(r)) => [b"o".as_slice(), r.as_bytes()].concat(),
            PKind::Fifo => b"p".to_vec(),
            PKind::HardlinkTo(t) => [b"h".as_slice(), &t.join(&b'/')].concat(),
        });
        parts.push(format!("{:o} {:?}", e.mode, e.mtime).into_bytes());
    }
    let refs: Vec<&[u8]> = parts.iter().map(Vec::as_slice).collect();
    hash64(&refs)
}

fn model_digest(m: &FsModel) -> u64 {
    let mut parts: Vec<Vec<u8>> = vec![];
    for (k, e) in &m.entries {
        parts.push(k.join(&b'/'));
        parts.push(match &e.kind {
            Kind::File(b) => hash64(&[b.as_slice()]).to_le_bytes().to_vec(),
            Kind::Dir => b"d".to_vec(),
            Kind::Symlink(t) => t.clone(),
            Kind::Fifo => b"p".to_vec(),
        });
        parts.push(format!("{:o} {:?} {} {}", e.mode, e.mtime, e.inode, e.links).into_bytes());
    }
    let refs: Vec<&[u8]> = parts.iter().map(Vec::as_slice).collect();
    hash64(&refs)
}

/// the state a plain restore of `m` would leave behind
fn pre_from_model(m: &FsModel) -> PreState {
    let mut p = PreState::new();
    let mut first: BTreeMap<u64, PathKey> = BTreeMap::new();
    for (k, e) in &m.entries {
        let kind = match &e.kind {
            Kind::File(b) => {
                if e.links > 1 {
                    if let Some(f) = first.get(&e.inode) {
                        PKind::HardlinkTo(f.clone())
                    } else {
                        let _ = first.insert(e.inode, k.clone());
                        PKind::File(b.clone())
                    }
                } else {
                    PKind::File(b.clone())
                }
            }
            Kind::Dir => PKind::Dir,
            Kind::Symlink(t) => PKind::Symlink(Link::Raw(t.clone())),
            Kind::Fifo => PKind::Fifo,
        };
        let _ = p.insert(k.clone(), PEntry { kind, mode: e.mode & 0o777, mtime: e.mtime });
    }
    p
}

const OUTSIDE_TARGETS: [&str; 5] = ["file1", "dir1", "missing", "dir1/sub", "file2"];
const MODES: [u32; 5] = [0o644, 0o600, 0o755, 0o444, 0o700];

fn other_mtime(rng: &mut Rng, t: (i64, i32)) -> (i64, i32) {
    match rng.usize(4) {
        0 => (t.0, if t.1 == 7 { 8 } else { 7 }),                  // same second, other nanoseconds
        1 => (t.0 + 1, t.1),
        2 => (t.0 - rng.range(1, 1_000_000) as i64, 0),
        _ => (t.0 + rng.range(2, 100_000) as i64, rng.below(1_000_000_000) as i32),
    }
}

fn flip(rng: &mut Rng, b: &[u8]) -> Vec<u8> {
    let mut v = b.to_vec();
    if v.is_empty() {
        return v;
    }
    for _ in 0..rng.range(1, 3) {
        let pos = rng.usize(v.len());
        let end = (pos + rng.range(1, 6000) as usize).min(v.len());
        for x in &mut v[pos..end] {
            *x ^= 0x5a;
        }
    }
    v
}

fn garbage(rng: &mut Rng, n: usize) -> Vec<u8> {
    // never zero, so that a kept byte is visible against a zero run
    rng.bytes(n).into_iter().map(|b| b | 1).collect()
}

fn pick_link(rng: &mut Rng, sibling: Option<&Vec<u8>>) -> Link {
    match rng.weighted(&[5, 2, 1]) {
        0 => Link::Outside(*rng.pick(&OUTSIDE_TARGETS)),
        1 => Link::Raw(b"c14-dangling-target".to_vec()),
        _ => Link::Raw(sibling.cloned().unwrap_or_else(|| b"c14-other".to_vec())),
    }
}

struct MixCtx {
    /// probability (in 1/8) that an entry is mutated at all
    rate: u64,
    /// a pre-existing fifo where the snapshot has a regular file makes `restore` block in open(2)
    /// unless `delete` removes it first; generated rarely because each such case costs the watchdog time
    fifo_at_file: bool,
}

/// per-entry mutation of the snapshot content ("mixed" profile)
fn pre_mixed(m: &FsModel, case_seed: u64, orig_index: &BTreeMap<PathKey, usize>, plain: &[usize], ctx: &MixCtx) -> PreState {
    let mut p = PreState::new();
    let mut last_file: Option<PathKey> = None;
    for (k, e) in &m.entries {
        if !p_is_dir(&p, &parent_of(k)) {
            continue;
        }
        let idx = orig_index.get(k).copied().unwrap_or(usize::MAX);
        // the mutation of an entry depends on the case seed and the entry's name only
        let mut rng = Rng::new(hash64(&[&case_seed.to_le_bytes(), b"entry", &k.join(&b'/')]));
        let same = PEntry {
            kind: match &e.kind {
                Kind::File(b) => PKind::File(b.clone()),
                Kind::Dir => PKind::Dir,
                Kind::Symlink(t) => PKind::Symlink(Link::Raw(t.clone())),
                Kind::Fifo => PKind::Fifo,
            },
            mode: e.mode & 0o777,
            mtime: e.mtime,
        };
        let mutate = !plain.contains(&idx) && rng.below(8) < ctx.rate;
        let pe: Option<PEntry> = if !mutate {
            Some(same)
        } else {
            let mode = if rng.chance(1, 2) { e.mode & 0o777 } else { *rng.pick(&MODES) };
            let sibling = k.last().map(|n| [n.as_slice(), b".c14"].concat());
            match &e.kind {
                Kind::File(b) => {
                    let n = b.len();
                    let choice = rng.weighted(&[4, 2, if n > 0 { 3 } else { 0 }, 2, if n > 0 { 4 } else { 0 }, if n > 0 { 3 } else { 0 }, if n > 0 { 4 } else { 0 }, 4, 2, 4, 1, if last_file.is_some() { 2 } else { 0 }]);
                    match choice {
                        0 => None,
                        1 => Some(PEntry { mode, ..same }),
                        2 => Some(PEntry { kind: PKind::File(Arc::new(flip(&mut rng, b))), mode, mtime: e.mtime }),
                        3 => Some(PEntry { kind: PKind::File(b.clone()), mode, mtime: other_mtime(&mut rng, e.mtime) }),
                        4 => Some(PEntry { kind: PKind::File(Arc::new(flip(&mut rng, b))), mode, mtime: other_mtime(&mut rng, e.mtime) }),
                        5 => Some(PEntry { kind: PKind::File(Arc::new(garbage(&mut rng, n))), mode, mtime: other_mtime(&mut rng, e.mtime) }),
                        6 => {
                            let l = rng.usize(n);
                            let v = if rng.chance(1, 2) { b[..l].to_vec() } else { garbage(&mut rng, l) };
                            let mtime = if rng.chance(1, 2) { e.mtime } else { other_mtime(&mut rng, e.mtime) };
                            Some(PEntry { kind: PKind::File(Arc::new(v)), mode, mtime })
                        }
                        7 => {
                            let extra = rng.range(1, 9000) as usize;
                            let v = if rng.chance(1, 2) { [b.as_slice(), &garbage(&mut rng, extra)].concat() } else { garbage(&mut rng, n + extra) };
                            let mtime = if rng.chance(1, 2) { e.mtime } else { other_mtime(&mut rng, e.mtime) };
                            Some(PEntry { kind: PKind::File(Arc::new(v)), mode, mtime })
                        }
                        8 => Some(PEntry { kind: PKind::Dir, mode: 0o755, mtime: other_mtime(&mut rng, e.mtime) }),
                        9 => Some(PEntry { kind: PKind::Symlink(pick_link(&mut rng, sibling.as_ref())), mode: 0o777, mtime: other_mtime(&mut rng, e.mtime) }),
                        10 => {
                            if ctx.fifo_at_file {
                                Some(PEntry { kind: PKind::Fifo, mode, mtime: e.mtime })
                            } else {
                                None
                            }
                        }
                        _ => {
                            let t = last_file.clone().unwrap();
                            let (_, mtime, mode) = p_file(&p, &t).map(|(b, t, m)| (b.clone(), t, m)).unwrap();
                            Some(PEntry { kind: PKind::HardlinkTo(t), mode, mtime })
                        }
                    }
                }
                Kind::Dir => match rng.weighted(&[3, 8, 2, 4, 1]) {
                    0 => None,
                    1 => Some(PEntry { kind: PKind::Dir, mode, mtime: other_mtime(&mut rng, e.mtime) }),
                    2 => Some(PEntry { kind: PKind::File(Arc::new(garbage(&mut rng, 100))), mode, mtime: e.mtime }),
                    3 => Some(PEntry { kind: PKind::Symlink(pick_link(&mut rng, sibling.as_ref())), mode: 0o777, mtime: e.mtime }),
                    _ => Some(PEntry { kind: PKind::Fifo, mode, mtime: e.mtime }),
                },
                Kind::Symlink(t) => match rng.weighted(&[3, 2, 4, 2, 2, 1]) {
                    0 => None,
                    1 => Some(PEntry { mtime: other_mtime(&mut rng, e.mtime), ..same }),
                    2 => Some(PEntry { kind: PKind::Symlink(if rng.chance(1, 2) { Link::Raw([t.as_slice(), b"-old"].concat()) } else { Link::Outside(*rng.pick(&OUTSIDE_TARGETS)) }), mode: 0o777, mtime: e.mtime }),
                    3 => Some(PEntry { kind: PKind::File(Arc::new(garbage(&mut rng, 300))), mode, mtime: e.mtime }),
                    4 => Some(PEntry { kind: PKind::Dir, mode: 0o755, mtime: e.mtime }),
                    _ => Some(PEntry { kind: PKind::Fifo, mode, mtime: e.mtime }),
                },
                Kind::Fifo => match rng.weighted(&[3, 2, 2, 2, 2]) {
                    0 => None,
                    1 => Some(PEntry { mode, mtime: other_mtime(&mut rng, e.mtime), ..same }),
                    2 => Some(PEntry { kind: PKind::File(Arc::new(garbage(&mut rng, 300))), mode, mtime: e.mtime }),
                    3 => Some(PEntry { kind: PKind::Dir, mode: 0o755, mtime: e.mtime }),
                    _ => Some(PEntry { kind: PKind::Symlink(pick_link(&mut rng, sibling.as_ref())), mode: 0o777, mtime: e.mtime }),
                },
            }
        };
        if let Some(pe) = pe {
            let is_plain_file = matches!(pe.kind, PKind::File(_));
            let is_foreign_dir = pe.kind == PKind::Dir && !matches!(e.kind, Kind::Dir);
            let _ = p.insert(k.clone(), pe);
            if is_plain_file {
                last_file = Some(k.clone());
            }
            if is_foreign_dir {
                // a directory in the way of a non-directory: give it content
                for j in 0..rng.usize(3) {
                    let mut ck = k.clone();
                    ck.push(format!("inner{j}").into_bytes());
                    let _ = p.insert(ck, PEntry { kind: PKind::File(Arc::new(garbage(&mut rng, 50))), mode: 0o644, mtime: (1_650_000_000, 0) });
                }
            }
        }
    }
    p
}

/// entries that are in no snapshot path: files, directories with content, symlinks (also into
/// `outside`), fifos, second names of existing files
fn add_extras(p: &mut PreState, m: &FsModel, rng: &mut Rng, n: usize, outside_links: bool) {
    const NAMES: [&str; 6] = ["0-extra", "Extra", "m-extra", "zz-extra", "~extra", "extra.d"];
    for j in 0..n {
        let dirs: Vec<PathKey> = std::iter::once(vec![]).chain(p.iter().filter(|(_, e)| e.kind == PKind::Dir).map(|(k, _)| k.clone())).collect();
        let mut k = rng.pick(&dirs).clone();
        let name = if rng.chance(3, 4) { format!("{}{j}", rng.pick(&NAMES)).into_bytes() } else { gen_name(rng, true) };
        k.push(name);
        if p.contains_key(&k) || m.entries.contains_key(&k) || k.len() > 7 {
            continue;
        }
        let mtime = (1_650_000_000 + rng.range(0, 1_000_000) as i64, *rng.pick(&[0, 5, 999_999_999]));
        let mode = *rng.pick(&MODES);
        let files: Vec<PathKey> = p.iter().filter(|(_, e)| matches!(e.kind, PKind::File(_))).map(|(k, _)| k.clone()).collect();
        match rng.weighted(&[6, 4, 4, 1, if files.is_empty() { 0 } else { 1 }]) {
            0 => {
                let len = rng.range(0, 3000) as usize;
                let _ = p.insert(k, PEntry { kind: PKind::File(Arc::new(garbage(rng, len))), mode, mtime });
            }
            1 => {
                let _ = p.insert(k.clone(), PEntry { kind: PKind::Dir, mode: *rng.pick(&[0o755, 0o700, 0o555]), mtime });
                for c in 0..rng.usize(3) {
                    let mut ck = k.clone();
                    ck.push(format!("child{c}").into_bytes());
                    let kind = if outside_links && rng.chance(1, 4) { PKind::Symlink(Link::Outside(*rng.pick(&OUTSIDE_TARGETS))) } else { PKind::File(Arc::new(garbage(rng, 20))) };
                    let _ = p.insert(ck, PEntry { kind, mode: 0o644, mtime });
                }
            }
            2 => {
                let l = if outside_links && rng.chance(2, 3) { Link::Outside(*rng.pick(&OUTSIDE_TARGETS)) } else { Link::Raw(b"somewhere/else".to_vec()) };
                let _ = p.insert(k, PEntry { kind: PKind::Symlink(l), mode: 0o777, mtime });
            }
            3 => {
                let _ = p.insert(k, PEntry { kind: PKind::Fifo, mode, mtime });
            }
            _ => {
                let t = rng.pick(&files).clone();
                let (mtime, mode) = p_file(p, &t).map(|(_, t, m)| (t, m)).unwrap();
                let _ = p.insert(k, PEntry { kind: PKind::HardlinkTo(t), mode, mtime });
            }
        }
    }
}

// ---------------------------------------------------------------------------------------------
// hostile snapshots

#[derive(Clone)]
struct RawEntry {
    /// structural path (decides the tree the node lands in)
    spath: PathKey,
    /// the name stored in the tree node
    name: Vec<u8>,
    entry: Entry,
}

struct RawSource {
    entries: Vec<RawEntry>,
}

impl ReadSource for RawSource {
    type Open = Cursor<Vec<u8>>;
    type Iter = std::vec::IntoIter<RusticResult<ReadSourceEntry<Cursor<Vec<u8>>>>>;

    fn size(&self) -> RusticResult<Option<u64>> {
        Ok(None)
    }

    fn entries(&self) -> Self::Iter {
        let mut v = vec![];
        for r in &self.entries {
            let node = node_of(&r.name, &r.entry);
            let open = match &r.entry.kind {
                Kind::File(b) => Some(Cursor::new(b.to_vec())),
                _ => None,
            };
            v.push(Ok(ReadSourceEntry { path: path_of(&r.spath), node, open }));
        }
        v.into_iter()
    }
}

fn plain_entry(kind: Kind, now_s: i64, inode: u64, links: u64) -> Entry {
    let mode = match &kind {
        Kind::Dir => 0o755,
        Kind::Symlink(_) => 0o777,
        _ => 0o644,
    };
    Entry { kind, mode, mtime: (now_s - 5000, 0), ctime: (now_s - 5000, 0), uid: 0, gid: 0, inode, links }
}

/// the benign model plus the hostile nodes of `kind`
fn hostile_entries(kind: &str, m: &FsModel, sb: &Sandbox, now_s: i64) -> Vec<RawEntry> {
    let mut map: BTreeMap<PathKey, (Vec<u8>, Entry)> = BTreeMap::new();
    for (k, e) in &m.entries {
        let _ = map.insert(k.clone(), (k.last().unwrap().clone(), e.clone()));
    }
    let evil = || Kind::File(Arc::new(b"written by a hostile snapshot\n".to_vec()));
    let abs = |rel: &str| sb.outside.join(rel).as_os_str().as_bytes().to_vec();
    let key = |parts: &[&str]| -> PathKey { parts.iter().map(|s| s.as_bytes().to_vec()).collect() };
    let mut add = |spath: PathKey, name: Vec<u8>, e: Entry| {
        // make room: nothing of the model may live at or below a hostile structural path
        let below: Vec<PathKey> = map.keys().filter(|k| **k == spath || is_under(k, &spath)).cloned().collect();
        for b in below {
            let _ = map.remove(&b);
        }
        let _ = map.insert(spath, (name, e));
    };
    match kind {
        "dotdot-file" => add(key(&["hh0"]), b"../c14-evil".to_vec(), plain_entry(evil(), now_s, 9001, 1)),
        "dotdot-chain" => add(key(&["hh0"]), b"../../c14-evil".to_vec(), plain_entry(evil(), now_s, 9001, 1)),
        "dotdot-nested" => {
            add(key(&["hd"]), b"hd".to_vec(), plain_entry(Kind::Dir, now_s, 9000, 1));
            add(key(&["hd", "h1"]), b"../../c14-evil".to_vec(), plain_entry(evil(), now_s, 9001, 1));
        }
        "dotdot-dir" => {
            add(key(&["hh0"]), b"..".to_vec(), plain_entry(Kind::Dir, now_s, 9000, 1));
            add(key(&["hh0", "c"]), b"c14-evil".to_vec(), plain_entry(evil(), now_s, 9001, 1));
        }
        "dotdot-symlink" => add(key(&["hh0"]), b"../c14-evil-link".to_vec(), plain_entry(Kind::Symlink(b"anywhere".to_vec()), now_s, 9001, 1)),
        "slash-dotdot" => add(key(&["hh0"]), b"sub/../../c14-evil".to_vec(), plain_entry(evil(), now_s, 9001, 1)),
        "abs-file" => add(key(&["hh0"]), abs("c14-abs-evil"), plain_entry(evil(), now_s, 9001, 1)),
        "abs-dir" => {
            add(key(&["hh0"]), abs("c14-absdir"), plain_entry(Kind::Dir, now_s, 9000, 1));
            add(key(&["hh0", "c"]), b"c14-evil".to_vec(), plain_entry(evil(), now_s, 9001, 1));
        }
        "abs-overwrite" => add(key(&["hh0"]), abs("file1"), plain_entry(evil(), now_s, 9001, 1)),
        "symlink-then-hardlink" => {
            add(key(&["hh0"]), b"ha0".to_vec(), plain_entry(evil(), now_s, 424_242, 2));
            add(key(&["hh1"]), b"hs0".to_vec(), plain_entry(Kind::Symlink(abs("dir1")), now_s, 9002, 1));
            add(key(&["hh2"]), b"hs0/c14-evil".to_vec(), plain_entry(evil(), now_s, 424_242, 2));
        }
        "slash-inside" => add(key(&["hh0"]), b"sub/c14-inner".to_vec(), plain_entry(evil(), now_s, 9001, 1)),
        "dot-dir" => {
            add(key(&["hh0"]), b".".to_vec(), plain_entry(Kind::Dir, now_s, 9000, 1));
            add(key(&["hh0", "c"]), b"c14-inner".to_vec(), plain_entry(evil(), now_s, 9001, 1));
        }
        _ => add(key(&["hh0"]), b".".to_vec(), plain_entry(evil(), now_s, 9001, 1)),
    }
    map.into_iter().map(|(spath, (name, entry))| RawEntry { spath, name, entry }).collect()
}

// ---------------------------------------------------------------------------------------------
// one restore case

#[derive(Clone, Debug)]
struct Opts {
    delete: bool,
    verify_existing: bool,
    sparse: bool,
    no_ownership: bool,
    numeric_id: bool,
    dry_first: bool,
}

impl Opts {
    fn draw(rng: &mut Rng) -> Self {
        Self {
            delete: rng.chance(1, 2),
            verify_existing: rng.chance(1, 2),
            sparse: rng.chance(1, 2),
            no_ownership: rng.chance(1, 3),
            numeric_id: rng.chance(1, 4),
            dry_first: rng.chance(1, 2),
        }
    }
    fn to_restore(&self) -> RestoreOptions {
        RestoreOptions::default()
            .delete(self.delete)
            .verify_existing(self.verify_existing)
            .no_ownership(self.no_ownership)
            .numeric_id(self.numeric_id)
            .sparse(if self.sparse { Some(SparseRestore::ByContent) } else { None })
    }
    fn text(&self) -> String {
        format!(
            "delete={} verify_existing={} sparse={} no_ownership={} numeric_id={} dry_run_first={}",
            self.delete, self.verify_existing, self.sparse, self.no_ownership, self.numeric_id, self.dry_first
        )
    }
}

#[derive(Debug, Default, Clone)]
struct PlanInfo {
    restore_size: u64,
    matched_size: u64,
    files: [u64; 5],
    dirs: [u64; 5],
}

fn plan_info(plan: &rustic_core::RestorePlan) -> PlanInfo {
    let f = |s: &rustic_core::FileDirStats| [s.restore, s.unchanged, s.verified, s.modify, s.additional];
    PlanInfo { restore_size: plan.restore_size, matched_size: plan.matched_size, files: f(&plan.stats.files), dirs: f(&plan.stats.dirs) }
}

/// like `Sim::run(&Mode::Free, ..)` but with a short watchdog: a restore that blocks (e.g. in
/// open(2) of a fifo) must not cost the default two minutes
fn run_capped<T: Send + 'static>(sim: &mut Sim, cap: Duration, f: impl FnOnce() -> RusticResult<T> + Send + 'static) -> Cmd<T> {
    let _ = common::take_panics();
    let out = sim.sched.run_free(&sim.cpus, cap, f);
    *sim.policies.entry(out.policy.to_string()).or_insert(0) += 1;
    sim.sim_ns += out.sim_ns;
    let panics = common::take_panics();
    match (out.stop, out.result) {
        (_, Some(Err(p))) => Cmd::Panic(panics.first().cloned().unwrap_or(p)),
        (Stop::Done, Some(Ok(Ok(v)))) => {
            if let Some(p) = panics.first() {
                Cmd::Panic(p.clone())
            } else {
                Cmd::Ok(v)
            }
        }
        (Stop::Done, Some(Ok(Err(e)))) => Cmd::Err(etext(&e)),
        (Stop::NoProgress, _) => {
            if let Some(p) = panics.first() {
                Cmd::Panic(p.clone())
            } else {
                Cmd::NoProgress
            }
        }
        (stop, _) => Cmd::Harness(format!("free run stopped with {stop:?}")),
    }
}

const WATCHDOG: Duration = Duration::from_secs(10);

fn do_restore(sim: &mut Sim, snap: &SnapshotFile, sub: &str, dest: &Path, ro: RestoreOptions, dry_only: bool) -> Cmd<PlanInfo> {
    let (store, key, snap2, dest_s, sub) = (sim.store.clone(), sim.key.clone(), snap.clone(), dest.to_str().expect("utf8 scratch path").to_string(), sub.to_string());
    run_capped(sim, WATCHDOG, move || {
        let repo = repo_open(&store, 7, &key)?.to_indexed()?;
        let node = repo.node_from_snapshot_and_path(&snap2, &sub)?;
        let d = LocalDestination::new(&dest_s, true, false)?;
        let ls = repo.ls(&node, &LsOptions::default())?;
        let plan = repo.prepare_restore(&ro, ls.clone(), &d, dry_only)?;
        let info = plan_info(&plan);
        if !dry_only {
            repo.restore(plan, &ro, ls, &d)?;
        }
        Ok(info)
    })
}

/// first sentence of an error message, ids and names abstracted
fn err_class(e: &str) -> String {
    // up to the first interpolated name (names may contain anything, even line breaks)
    let first = e.trim_start_matches("Error: ").split('`').next().unwrap_or("");
    classify(first).split(" (kind").next().unwrap_or("").trim().to_string()
}

/// abstract the I/O error inside a panic message of the restore workers: the enum variant
fn panic_variant(p: &str) -> String {
    let loc = short_loc(p);
    let file = loc.rsplit(" @ ").next().unwrap_or("").split(':').next().unwrap_or("").to_string();
    let variant = p.split("Err` value: ").nth(1).map(|s| s.chars().take_while(|c| c.is_ascii_alphanumeric()).collect::<String>());
    match variant {
        Some(v) if !v.is_empty() => format!("{file}:{v}"),
        _ => classify(&loc),
    }
}

fn mkind(e: &Entry) -> &'static str {
    match e.kind {
        Kind::File(_) => "file",
        Kind::Dir => "dir",
        Kind::Symlink(_) => "symlink",
        Kind::Fifo => "fifo",
    }
}

/// relation of the pre-existing entry to the snapshot entry at the same path
fn pre_class(p: &PreState, k: &PathKey, e: &Entry) -> &'static str {
    let Some(pe) = p.get(k) else { return "absent" };
    match (&e.kind, &pe.kind) {
        (Kind::File(b), PKind::File(_) | PKind::HardlinkTo(_)) => {
            let (pb, pm, _) = p_file(p, k).expect("file");
            if matches!(pe.kind, PKind::HardlinkTo(_)) || p.values().any(|x| x.kind == PKind::HardlinkTo(k.clone())) {
                "hardlinked"
            } else if pb.len() == b.len() {
                match (pb == b, pm == e.mtime) {
                    (true, true) => "identical",
                    (false, true) => "same-size-mtime",
                    (true, false) => "touched",
                    (false, false) => "same-size",
                }
            } else if pb.len() < b.len() {
                "shorter"
            } else {
                "longer"
            }
        }
        (Kind::Dir, PKind::Dir) | (Kind::Fifo, PKind::Fifo) => "identical",
        (Kind::Symlink(t), PKind::Symlink(l)) => match l {
            Link::Raw(r) if r == t => "identical",
            Link::Raw(_) => "other-target",
            Link::Outside(_) => "other-target-outside",
        },
        (_, PKind::Symlink(Link::Outside(_))) => "symlink-outside",
        (_, k) => k.tname(),
    }
}

#[derive(Default)]
struct Verdict {
    violations: Vec<(String, String)>,
    fires: Vec<String>,
    /// number of `viol` calls (also those whose fingerprint was already recorded)
    flags: u64,
}

impl Verdict {
    fn viol(&mut self, fp: String, detail: String) {
        self.flags += 1;
        if !self.violations.iter().any(|v| v.0 == fp) {
            self.violations.push((fp, detail));
        }
    }
    fn fire(&mut self, k: impl Into<String>) {
        self.fires.push(k.into());
    }
}

#[derive(Debug)]
enum Outcome {
    Ok,
    Err(String),
    Panic(String),
    Hang,
}

/// does some snapshot path hold a pre-existing entry of another type?
fn has_conflict(m: &FsModel, p: &PreState) -> bool {
    m.entries.iter().any(|(k, e)| p.get(k).is_some_and(|pe| pe.kind.tname() != mkind(e)))
}

/// culprit of a modification outside the destination (benign snapshot)
fn outside_culprit(m: &FsModel, p: &PreState) -> String {
    for (k, e) in &m.entries {
        if let Some(PEntry { kind: PKind::Symlink(Link::Outside(_)), .. }) = p.get(k) {
            if !matches!(e.kind, Kind::Symlink(_)) {
                return format!("through-preexisting-symlink:{}", mkind(e));
            }
        }
    }
    for (k, e) in &m.entries {
        if let Some(PEntry { kind: PKind::Symlink(Link::Outside(_)), .. }) = p.get(k) {
            return format!("through-preexisting-symlink:{}", mkind(e));
        }
    }
    if p.iter().any(|(k, pe)| !m.entries.contains_key(k) && matches!(pe.kind, PKind::Symlink(Link::Outside(_)))) {
        return "through-extra-symlink".into();
    }
    "no-link-to-outside-in-destination".into()
}

/// the state oracle for a benign snapshot
#[allow(clippy::too_many_arguments)]
fn oracle(v: &mut Verdict, sb: &Sandbox, m: &FsModel, p: &PreState, q: &BTreeMap<PathKey, Obs>, o: &Opts, outcome: &Outcome, ctx: &str) {
    let keep = if o.delete { "delete" } else { "keep" };
    // Aliasing inside the destination: two pre-existing names of one inode, or a kept symlink that the
    // restore writes through. Both are flagged on their own (`hardlinked-preexisting…`,
    // `conflicting-entry-kept`, `outside-modified`); whatever else is wrong in such a case (another file
    // damaged through the shared inode / through the link, a blob copied from a file that changed
    // meanwhile) goes to one secondary fingerprint per cause instead of a misleading specific one.
    let alias: Option<&'static str> = if p.values().any(|pe| matches!(pe.kind, PKind::HardlinkTo(_))) {
        Some("hardlinked-files-in-destination")
    } else if !o.delete && m.entries.iter().any(|(k, e)| !matches!(e.kind, Kind::Symlink(_)) && matches!(p.get(k), Some(PEntry { kind: PKind::Symlink(_), .. }))) {
        Some("through-preexisting-symlink")
    } else {
        None
    };
    let gfp = |specific: String| -> String {
        match alias {
            Some(a) => format!("C14/secondary-damage:{a}"),
            None => specific,
        }
    };
    // 1. snapshot paths (only when restore claims success)
    if matches!(outcome, Outcome::Ok) {
        let mut broken: Vec<PathKey> = vec![];
        // hard-linked snapshot files: whatever is wrong with the first name is wrong with the others
        let mut tainted: Vec<u64> = vec![];
        for (k, e) in &m.entries {
            if broken.iter().any(|b| is_under(k, b)) {
                continue;
            }
            if e.links > 1 && tainted.contains(&e.inode) {
                continue;
            }
            let flags0 = v.flags;
            'entry: {
            let pc = pre_class(p, k, e);
            let sk = mkind(e);
            v.fire(format!("pre:{sk}-over-{pc}"));
            let pre_txt = || match p.get(k) {
                None => "absent".to_string(),
                Some(pe) => match &pe.kind {
                    PKind::File(b) => format!("file[{} bytes] mtime {:?}", b.len(), pe.mtime),
                    PKind::HardlinkTo(t) => format!("hard link to `{}`", show_key(t)),
                    PKind::Symlink(l) => format!("symlink->{}", sb.symbolic(&link_bytes(sb, l))),
                    k => k.tname().to_string(),
                },
            };
            let Some(ob) = q.get(k) else {
                let fp = format!("C14/snapshot-path-missing:{sk}-over-{}:{keep}", p.get(k).map_or("absent", |pe| pe.kind.tname()));
                v.viol(
                    if p.contains_key(k) { fp } else { gfp(fp) },
                    format!("{ctx}: restore returned Ok but `{}` ({sk}) does not exist; before: {}", show_key(k), pre_txt()),
                );
                broken.push(k.clone());
                break 'entry;
            };
            if ob.kind.tname() != sk {
                let kept = p.get(k).is_some_and(|pe| pe.kind.tname() == ob.kind.tname());
                if kept && !o.delete {
                    v.viol(
                        format!("C14/conflicting-entry-kept:{sk}"),
                        format!("{ctx}: restore returned Ok but `{}` is still the pre-existing {} ({}) where the snapshot has a {sk}", show_key(k), ob.kind.tname(), pre_txt()),
                    );
                } else {
                    v.viol(
                        gfp(format!("C14/wrong-type:{sk}-over-{}:{keep}", p.get(k).map_or("absent", |pe| pe.kind.tname()))),
                        format!("{ctx}: restore returned Ok but `{}` is a {} where the snapshot has a {sk}; before: {}", show_key(k), ob.kind.tname(), pre_txt()),
                    );
                }
                broken.push(k.clone());
                break 'entry;
            }
            if pc == "hardlinked" {
                // the pre-existing file shares its inode with another pre-existing name: whatever is
                // wrong with it afterwards has one cause (the inode is rewritten in place)
                if let (Kind::File(want), OKind::File(got)) = (&e.kind, &ob.kind) {
                    // the pre-existing bytes/mtime of a hard-link name are those of the name it links to
                    let pre_key = match p.get(k).map(|pe| &pe.kind) {
                        Some(PKind::HardlinkTo(t)) => t.clone(),
                        _ => k.clone(),
                    };
                    let unverified_same = !o.verify_existing && p_file(p, &pre_key).is_some_and(|(pb, pm, _)| pb.len() == want.len() && pm == e.mtime);
                    // a snapshot hard link of a file that was accepted by size+mtime without verification shows
                    // that file's (unverified) bytes under this name too: not judged, as in the general case below
                    let linked_to_unverified = e.links > 1
                        && !o.verify_existing
                        && m.entries.iter().any(|(k2, e2)| k2 != k && e2.links > 1 && e2.inode == e.inode && p_file(p, k2).is_some_and(|(pb, pm, _)| pb.len() == want.len() && pm == e2.mtime));
                    if want != got && !unverified_same && linked_to_unverified {
                        v.fire("hard-link-of-a-file-accepted-by-size-and-mtime-has-its-bytes (not judged)");
                    }
                    let content = want != got && !unverified_same && !linked_to_unverified;
                    let meta = ob.mode != e.mode & 0o7777 || ob.mtime != e.mtime || (!o.no_ownership && (ob.uid != e.uid || ob.gid != e.gid));
                    if content || meta {
                        v.viol(
                            format!("C14/hardlinked-preexisting-files-rewritten-in-place:{}", if content { "content" } else { "metadata" }),
                            format!(
                                "{ctx}: restore returned Ok but `{}` (before: {}, one inode with several names) now has {} bytes (want {}, equal: {}), mode {:o} (want {:o}), mtime {:?} (want {:?}), {} links",
                                show_key(k), pre_txt(), got.len(), want.len(), want == got, ob.mode, e.mode, ob.mtime, e.mtime, ob.nlink
                            ),
                        );
                    }
                    break 'entry;
                }
            }
            match (&e.kind, &ob.kind) {
                (Kind::File(want), OKind::File(got)) => {
                    if want != got {
                        // the statement conditions the bytes on verification or on a differing size/mtime
                        let unverified_same = !o.verify_existing && p_file(p, k).is_some_and(|(pb, pm, _)| pb.len() == want.len() && pm == e.mtime);
                        let first = want.iter().zip(got.iter()).position(|(a, b)| a != b).unwrap_or(want.len().min(got.len()));
                        // a snapshot hard link of a file that was accepted by size+mtime: the names share one
                        // inode in the snapshot, so the unverified bytes show under every name (not judged)
                        let linked_to_unverified = e.links > 1
                            && !o.verify_existing
                            && m.entries.iter().any(|(k2, e2)| k2 != k && e2.links > 1 && e2.inode == e.inode && p_file(p, k2).is_some_and(|(pb, pm, _)| pb.len() == want.len() && pm == e2.mtime));
                        if linked_to_unverified {
                            v.fire("hard-link-of-a-file-accepted-by-size-and-mtime-has-its-bytes (not judged)");
                        } else if unverified_same {
                            v.fire("content-differs-but-size-and-mtime-matched-without-verify (allowed)");
                        } else {
                            // stale bytes exactly where the snapshot has zeros: the signature of a skipped all-zero blob
                            let zero = o.sparse && want.len() == got.len() && want.iter().zip(got.iter()).all(|(a, b)| a == b || *a == 0);
                            v.viol(
                                gfp(if zero { "C14/wrong-content:zero-run-under-sparse".to_string() } else { format!("C14/wrong-content:{pc}") }),
                                format!(
                                    "{ctx}: restore returned Ok but `{}` has {} bytes (want {}), first difference at offset {first} (want {:?}, got {:?}); before ({pc}): {}",
                                    show_key(k),
                                    got.len(),
                                    want.len(),
                                    want.get(first),
                                    got.get(first),
                                    pre_txt()
                                ),
                            );
                        }
                    }
                }
                (Kind::Symlink(want), OKind::Symlink(got)) => {
                    if want != got {
                        let kept = matches!(p.get(k), Some(PEntry { kind: PKind::Symlink(l), .. }) if &link_bytes(sb, l) == got);
                        if kept && !o.delete {
                            v.viol(
                                "C14/symlink-target-not-updated".to_string(),
                                format!("{ctx}: restore returned Ok but symlink `{}` still points to {} (snapshot: {})", show_key(k), sb.symbolic(got), sb.symbolic(want)),
                            );
                        } else {
                            v.viol(gfp(format!("C14/wrong-link-target:{pc}:{keep}")), format!("{ctx}: symlink `{}` points to {} (snapshot: {}); before: {}", show_key(k), sb.symbolic(got), sb.symbolic(want), pre_txt()));
                        }
                        break 'entry;
                    }
                }
                _ => {}
            }
            if !matches!(e.kind, Kind::Symlink(_)) {
                if ob.mode != e.mode & 0o7777 {
                    v.viol(gfp(format!("C14/wrong-mode:{sk}")), format!("{ctx}: `{}` has mode {:o}, snapshot {:o}; before ({pc}): {}", show_key(k), ob.mode, e.mode, pre_txt()));
                }
                if ob.mtime != e.mtime {
                    v.viol(gfp(format!("C14/wrong-mtime:{sk}")), format!("{ctx}: `{}` has mtime {:?}, snapshot {:?}; before ({pc}): {}", show_key(k), ob.mtime, e.mtime, pre_txt()));
                }
            }
            if !o.no_ownership && (ob.uid != e.uid || ob.gid != e.gid) {
                v.viol(gfp(format!("C14/wrong-owner:{sk}")), format!("{ctx}: `{}` is owned by {}:{}, snapshot {}:{}; before ({pc}): {}", show_key(k), ob.uid, ob.gid, e.uid, e.gid, pre_txt()));
            }
            }
            if v.flags != flags0 && e.links > 1 {
                tainted.push(e.inode);
            }
        }
        // informational: what else is in the destination
        let stray = q.keys().filter(|k| !k.is_empty() && !m.entries.contains_key(*k) && !p.contains_key(*k) && !broken.iter().any(|b| is_under(k, b))).count();
        if stray > 0 {
            v.fire("new-entry-in-destination-that-is-in-no-snapshot-path (not judged)");
        }
        if o.delete {
            let left = q.keys().filter(|k| !k.is_empty() && !m.entries.contains_key(*k) && !broken.iter().any(|b| is_under(k, b))).count();
            if left > 0 {
                v.fire("delete-left-extra-entries (not judged)");
            }
        }
    }
    // 2. extras must be untouched unless deletion was requested (whatever the outcome)
    if !o.delete && !matches!(outcome, Outcome::Hang) {
        for (k, pe) in p {
            if m.entries.contains_key(k) {
                continue;
            }
            // topmost ancestor-or-self that is not a snapshot path
            let mut r = k.clone();
            while r.len() > 1 && !m.entries.contains_key(&parent_of(&r)) {
                r = parent_of(&r);
            }
            let parent = parent_of(&r);
            let parent_ok = parent.is_empty() || (m.is_dir(&parent) && p_is_dir(p, &parent));
            if !parent_ok {
                continue; // lives below an entry that conflicts with the snapshot
            }
            let hard = matches!(&pe.kind, PKind::HardlinkTo(_)) || p.values().any(|x| x.kind == PKind::HardlinkTo(k.clone()));
            let what = match (&pe.kind, q.get(k)) {
                (_, None) => Some("removed"),
                (PKind::File(_) | PKind::HardlinkTo(_), Some(Obs { kind: OKind::File(got), .. })) => {
                    let (pb, _, _) = p_file(p, k).expect("file");
                    (pb != got).then_some("content")
                }
                (PKind::Dir, Some(Obs { kind: OKind::Dir, .. })) | (PKind::Fifo, Some(Obs { kind: OKind::Fifo, .. })) => None,
                (PKind::Symlink(l), Some(Obs { kind: OKind::Symlink(got), .. })) => (&link_bytes(sb, l) != got).then_some("link-target"),
                _ => Some("type"),
            };
            let what = what.or_else(|| {
                let ob = q.get(k)?;
                if hard {
                    return None; // shares its inode with a path the restore may legitimately update
                }
                if !matches!(pe.kind, PKind::Symlink(_)) && ob.mode != pe.mode {
                    Some("mode")
                } else if ob.mtime != pe.mtime {
                    Some("mtime")
                } else if ob.uid != 0 || ob.gid != 0 {
                    Some("owner")
                } else {
                    None
                }
            });
            if let Some(what) = what {
                v.viol(
                    if hard { "C14/extra-entry-changed:content:hardlinked-to-restored-file".to_string() } else { gfp(format!("C14/extra-entry-changed:{what}")) },
                    format!("{ctx}: delete was not requested, but the pre-existing extra `{}` ({}) changed ({what}): now {}", show_key(k), pe.kind.tname(), obs_text(sb, q.get(k))),
                );
            }
        }
    }
}

fn describe_pre(sb: &Sandbox, p: &PreState) -> Vec<String> {
    p.iter()
        .map(|(k, e)| {
            let what = match &e.kind {
                PKind::File(b) => format!("file[{}]", b.len()),
                PKind::Dir => "dir".into(),
                PKind::Symlink(l) => format!("symlink->{}", sb.symbolic(&link_bytes(sb, l))),
                PKind::Fifo => "fifo".into(),
                PKind::HardlinkTo(t) => format!("hardlink-of {}", show_key(t)),
            };
            format!("{} {what}", show_key(k))
        })
        .collect()
}

struct CaseOut {
    verdict: Verdict,
    outcome_class: String,
    opts_text: String,
    pre_hash: u64,
    nontrivial: bool,
    sample: Value,
    stop: bool,
    harness: Option<String>,
}

// ---------------------------------------------------------------------------------------------

fn punch_holes(m: &mut FsModel, rng: &mut Rng) {
    // zero runs inside files, so that some blobs are all zero (the sparse restore skips them)
    let keys: Vec<PathKey> = m.entries.iter().filter(|(_, e)| matches!(&e.kind, Kind::File(b) if b.len() > 9000) && e.links == 1).map(|(k, _)| k.clone()).collect();
    for k in keys {
        if !rng.chance(1, 2) {
            continue;
        }
        let e = m.entries.get_mut(&k).unwrap();
        if let Kind::File(b) = &e.kind {
            let mut v = (**b).clone();
            let start = rng.usize(v.len() / 2);
            let len = (rng.range(4096, 70_000) as usize).min(v.len() - start);
            for x in &mut v[start..start + len] {
                *x = 0;
            }
            e.kind = Kind::File(Arc::new(v));
        }
    }
}

fn build(s: &Spec) -> (FsModel, BTreeMap<PathKey, usize>) {
    // indexes refer to the undropped model
    let full = gen_model(&mut Rng::new(s.model_seed), &s.gen, s.start_s);
    let orig_index: BTreeMap<PathKey, usize> = full.entries.keys().cloned().enumerate().map(|(i, k)| (k, i)).collect();
    let mut m = build_model(&s.gen, s.model_seed, &s.drop, s.start_s);
    punch_holes(&mut m, &mut Rng::new(s.model_seed ^ 0x401e5));
    (m, orig_index)
}

impl C14 {
    #[allow(clippy::too_many_arguments)]
    fn run_case(&self, s: &Spec, i: usize, sim: &mut Sim, sb: &Sandbox, snap: &SnapshotFile, m: &FsModel, orig_index: &BTreeMap<PathKey, usize>, hostile: Option<&str>) -> CaseOut {
        let case_seed = hash64(&[&s.subseed.to_le_bytes(), b"case", &(i as u64).to_le_bytes()]);
        let mut rng = Rng::new(case_seed);
        let o = Opts::draw(&mut rng);
        let mut verdict = Verdict::default();
        // a fifth of the benign cases restore a sub-directory of the snapshot (`snapshot:path`)
        let mut sub = String::new();
        let mut m_sub: Option<(FsModel, BTreeMap<PathKey, usize>)> = None;
        if hostile.is_none() && rng.chance(1, 5) {
            let dirs: Vec<&PathKey> = m
                .entries
                .iter()
                .filter(|(k, e)| e.kind == Kind::Dir && k.iter().all(|c| std::str::from_utf8(c).is_ok_and(|s| !s.is_empty() && s != "." && s != "..")) && m.entries.keys().any(|x| is_under(x, k)))
                .map(|(k, _)| k)
                .collect();
            if !dirs.is_empty() {
                let d = (*rng.pick(&dirs)).clone();
                sub = show_key(&d);
                let mut mm = FsModel::default();
                let mut ii = BTreeMap::new();
                for (k, e) in &m.entries {
                    if is_under(k, &d) {
                        let nk: PathKey = k[d.len()..].to_vec();
                        if let Some(i) = orig_index.get(k) {
                            let _ = ii.insert(nk.clone(), *i);
                        }
                        let _ = mm.entries.insert(nk, e.clone());
                    }
                }
                m_sub = Some((mm, ii));
                verdict.fire("restore-of-a-subdirectory");
            }
        }
        let (m, orig_index) = match &m_sub {
            Some((mm, ii)) => (mm, ii),
            None => (m, orig_index),
        };
        let fail = |msg: String| CaseOut { verdict: Verdict::default(), outcome_class: "harness".into(), opts_text: String::new(), pre_hash: 0, nontrivial: false, sample: Value::Null, stop: true, harness: Some(msg) };

        // destination state
        let (profile, mut p) = if hostile.is_some() {
            if rng.chance(1, 2) { ("empty", PreState::new()) } else { ("identical", pre_from_model(m)) }
        } else {
            match rng.weighted(&[1, 2, 9, 3, 2]) {
                0 => ("empty", PreState::new()),
                1 => ("identical", pre_from_model(m)),
                2 => {
                    let ctx = MixCtx { rate: *rng.pick(&[2u64, 4, 8]), fifo_at_file: o.delete || rng.chance(1, 60) };
                    ("mutated", pre_mixed(m, case_seed, orig_index, &s.plain, &ctx))
                }
                3 => {
                    let mut m2 = m.clone();
                    let _ = edit_model(&mut rng, &mut m2, &s.gen, s.start_s - 7200, 5);
                    ("edited", pre_from_model(&m2))
                }
                _ => {
                    let mut g = s.gen.clone();
                    g.max_entries = 8;
                    ("unrelated", pre_from_model(&gen_model(&mut rng.fork("unrelated"), &g, s.start_s - 86400)))
                }
            }
        };
        let mut xr = rng.fork("extras");
        if !s.no_extras && xr.chance(3, 5) {
            let n = xr.range(1, 4) as usize;
            add_extras(&mut p, m, &mut xr, n, hostile.is_none());
        }
        let pre_hash = pre_digest(&p);
        let ctx = format!("case {i} [{}; {}destination: {profile}, {} entries]", o.text(), if sub.is_empty() { String::new() } else { format!("restoring sub-directory `{sub}`; ") }, p.len());

        if let Err(e) = sb.rebuild().and_then(|()| materialise(sb, &p)) {
            return fail(format!("cannot build the sandbox: {e}"));
        }
        let scan_out = |sb: &Sandbox| scan(&sb.top, Some(&sb.dest));
        let (Ok(out0), Ok(dest0)) = (scan_out(sb), scan(&sb.dest, None)) else { return fail("cannot scan the sandbox".into()) };
        verdict.fire(format!("destination:{profile}"));
        for (flag, name) in [(o.delete, "opt:delete"), (o.verify_existing, "opt:verify_existing"), (o.sparse, "opt:sparse"), (o.no_ownership, "opt:no_ownership"), (o.numeric_id, "opt:numeric_id"), (o.dry_first, "opt:dry_run_first")] {
            if flag {
                verdict.fire(name);
            }
        }
        let culprit = |m: &FsModel, p: &PreState| match hostile {
            Some(kind) => format!("hostile-name:{}", hostile_class(kind)),
            None => outside_culprit(m, p),
        };

        // dry run: must change nothing
        if o.dry_first {
            let r = do_restore(sim, snap, &sub, &sb.dest, o.to_restore(), true);
            let (Ok(out1), Ok(dest1)) = (scan_out(sb), scan(&sb.dest, None)) else { return fail("cannot scan the sandbox".into()) };
            let d_out = diff_scans(sb, &out0, &out1, 6);
            let d_dest = diff_scans(sb, &dest0, &dest1, 6);
            if !d_out.is_empty() {
                verdict.viol(format!("C14/dry-run-modified-outside:{}", culprit(m, &p)), format!("{ctx}: prepare_restore(dry_run) changed things outside the destination: {}", d_out.join("; ")));
            }
            if !d_dest.is_empty() {
                verdict.viol("C14/dry-run-modified-destination".to_string(), format!("{ctx}: prepare_restore(dry_run) changed the destination: {}", d_dest.join("; ")));
            }
            match &r {
                Cmd::Ok(_) => {}
                Cmd::Err(_) => verdict.fire("dry-run-returned-error (tolerated)"),
                Cmd::Panic(pn) => {
                    if hostile.is_some() {
                        verdict.fire("hostile-dry-run-panicked (tolerated)");
                    } else {
                        verdict.viol(format!("C14/panic:{}", panic_variant(pn)), format!("{ctx}: prepare_restore(dry_run) panicked: {}", short_loc(pn)));
                    }
                }
                Cmd::NoProgress => {
                    verdict.viol("C14/no-progress:dry-run".to_string(), format!("{ctx}: prepare_restore(dry_run) did not return within {WATCHDOG:?}"));
                    return CaseOut { verdict, outcome_class: "dry-run-hang".into(), opts_text: format!("{} path={sub}", o.text()), pre_hash, nontrivial: true, sample: Value::Null, stop: true, harness: None };
                }
                Cmd::Harness(h) => return fail(h.clone()),
            }
        }

        // the restore
        let r = do_restore(sim, snap, &sub, &sb.dest, o.to_restore(), false);
        let (outcome, info) = match r {
            Cmd::Ok(info) => (Outcome::Ok, Some(info)),
            Cmd::Err(e) => (Outcome::Err(e), None),
            Cmd::Panic(pn) => (Outcome::Panic(pn), None),
            Cmd::NoProgress => (Outcome::Hang, None),
            Cmd::Harness(h) => return fail(h),
        };
        let (out2, dest2) = if matches!(outcome, Outcome::Hang) {
            // threads of the command are still alive: do not look at a moving target
            (out0.clone(), dest0.clone())
        } else {
            let (Ok(a), Ok(b)) = (scan_out(sb), scan(&sb.dest, None)) else { return fail("cannot scan the sandbox after the restore".into()) };
            (a, b)
        };
        let d_out = diff_scans(sb, &out0, &out2, 6);
        if !d_out.is_empty() {
            verdict.viol(
                format!("C14/outside-modified:{}", culprit(m, &p)),
                format!("{ctx}: restore ({}) changed things outside the destination directory: {}", match &outcome { Outcome::Ok => "returned Ok", Outcome::Err(_) => "returned Err", Outcome::Panic(_) => "panicked", Outcome::Hang => "hung" }, d_out.join("; ")),
            );
        }
        let conflict = has_conflict(m, &p);
        let mut hang_unknown = false;
        let outcome_class = match &outcome {
            Outcome::Ok => "ok".to_string(),
            Outcome::Err(e) => {
                if hostile.is_some() {
                    verdict.fire("hostile-restore-returned-error (tolerated)");
                } else if conflict && !o.delete {
                    verdict.fire("restore-refused-conflicting-entry-without-delete (tolerated)");
                } else {
                    verdict.viol(format!("C14/restore-failed:{}", err_class(e)), format!("{ctx}: no pre-existing entry conflicts in type with the snapshot{}, yet restore failed: {}", if conflict { " that delete would not remove" } else { "" }, sb.symbolic(e.as_bytes())));
                }
                format!("err:{}", err_class(e))
            }
            Outcome::Panic(pn) => {
                if hostile.is_some() {
                    verdict.fire("hostile-restore-panicked (tolerated)");
                } else {
                    verdict.viol(format!("C14/panic:{}", panic_variant(pn)), format!("{ctx}: restore panicked: {}", short_loc(pn)));
                }
                format!("panic:{}", panic_variant(pn))
            }
            Outcome::Hang => {
                let fifo = m.entries.iter().any(|(k, e)| matches!(e.kind, Kind::File(_)) && matches!(p.get(k), Some(PEntry { kind: PKind::Fifo, .. })));
                if fifo {
                    verdict.viol(
                        "C14/no-progress:file-over-fifo".to_string(),
                        format!("{ctx}: restore did not return within {WATCHDOG:?} (a pre-existing fifo sits where the snapshot has a regular file and delete is off: open(2) for writing blocks)"),
                    );
                } else {
                    // without a known cause this cannot be told from an overloaded machine
                    hang_unknown = true;
                }
                "hang".to_string()
            }
        };
        verdict.fire(format!("outcome:{}", outcome_class.split(':').next().unwrap_or("")));
        if let Some(i) = &info {
            if i.matched_size > 0 && i.restore_size > 0 {
                verdict.fire("plan:destination-matches-partly (some blobs kept, some written)");
            }
            if i.files[1] > 0 {
                verdict.fire("plan:file-accepted-by-size-and-mtime");
            }
            if i.files[2] > 0 {
                verdict.fire("plan:file-verified-by-content");
            }
            if i.files[3] > 0 {
                verdict.fire("plan:file-modified-in-place");
            }
            if i.files[4] + i.dirs[4] > 0 {
                verdict.fire("plan:additional-entries-seen");
            }
        }
        if hostile.is_none() {
            oracle(&mut verdict, sb, m, &p, &dest2, &o, &outcome, &ctx);
        }
        let nontrivial = if hostile.is_some() { true } else { !p.is_empty() && m.total_bytes() > 0 };
        let sample = json!({
            "options": o.text(), "snapshot_path": sub, "destination_profile": profile, "destination_before": describe_pre(sb, &p).into_iter().take(14).collect::<Vec<_>>(),
            "outcome": outcome_class, "plan": info.as_ref().map(|i| json!({"restore_size": i.restore_size, "matched_size": i.matched_size, "files[restore,unchanged,verified,modify,additional]": i.files, "dirs": i.dirs})),
        });
        if std::env::var("C14_DEBUG").is_ok() {
            eprintln!("{ctx}\n snapshot: {}\n case: {}\n violations: {:#?}", m.describe(), serde_json::to_string_pretty(&sample).unwrap_or_default(), verdict.violations);
        }
        let stop = matches!(outcome, Outcome::Hang);
        let harness = hang_unknown.then(|| format!("{ctx}: restore did not return within {WATCHDOG:?} and the destination holds nothing known to block it"));
        CaseOut { verdict, outcome_class, opts_text: format!("{} path={sub}", o.text()), pre_hash, nontrivial, sample, stop, harness }
    }
}

impl Prop for C14 {
    fn id(&self) -> &'static str {
        "C14"
    }
    fn scheduled(&self) -> bool {
        // commands run free, but FIFO-serialised on one CPU (one fixed, repeatable interleaving of
        // the restore's writer threads)
        true
    }
    fn runs(&self, tier: Tier) -> u64 {
        match tier {
            Tier::Quick => 9000,
            Tier::Thorough => 45000,
        }
    }
    fn rule(&self) -> &'static str {
        "one run = one repository (generated configuration with small chunks/packs) holding one snapshot of a generated tree (files with zero runs, hard links in half of the runs, symlinks, fifos, odd names), restored `cases` times (10 quick / 12 thorough) into a fresh tmpfs sandbox top/l1/l2/{outside,dest}; \
         each case draws restore options (delete, verify_existing, sparse=ByContent, no_ownership, numeric_id, dry-run of prepare_restore first), in a fifth of the benign cases a sub-directory of the snapshot as restore root, and a pre-existing destination: empty | identical | per-entry mutation of the snapshot content \
         (absent, other mode, same size+mtime/other bytes, same bytes/other mtime, other bytes/other mtime, garbage, truncated, longer, directory with content, symlink (dangling, to a sibling, into `outside` to a file/dir/missing name), fifo, second hard link of another file) | \
         edit script applied to the snapshot tree | unrelated generated tree; plus extra entries (files, dirs with content, symlinks also into `outside`, fifos, hard links of restored files). \
         20% of the runs archive a hostile snapshot through a ReadSource whose node names are `..`, `../x`, `../../x`, `a/../../x`, absolute paths (new file, new dir, existing file), `a/b`, `.`, or a symlink followed by a hard-linked node `link/x` (destination empty or identical). \
         Oracles per case: (1) everything under top except dest (names, types, modes, owners, sizes, mtimes, contents, link targets, link counts) is unchanged after the dry run and after the restore, whatever the outcome; \
         (2) the dry run changes nothing in dest; (3) if restore returns Ok (benign snapshot): every snapshot path has the snapshot's type, link target, mode, mtime, owner (unless no_ownership) and - if verify_existing is set or the pre-existing file differed in size or mtime - bytes; \
         (4) without delete every pre-existing entry that is not at/below a snapshot path is unchanged (type, bytes, target, mode, mtime, owner); (5) Err is accepted for hostile snapshots and when a pre-existing entry of another type sits at a snapshot path and delete is off, otherwise it is a violation; \
         a panic on a benign snapshot is a violation, a restore blocked for 10 s is one if a pre-existing fifo sits at a snapshot file path (else a harness error). \
         If the destination holds hard-linked names or (delete off) a symlink in the way of a non-symlink, those are flagged as such and any other deviation of the case goes to one `secondary-damage:<cause>` fingerprint. Not judged (only counted): extras left behind under delete, new stray entries inside dest, hard-link identity. \
         evaluations = restore cases; non-trivial = destination not empty and snapshot has file content (hostile: always); distinct = hash(snapshot tree, destination state, options, restore root)"
    }
    fn assumptions(&self) -> Vec<&'static str> {
        vec![
            "the process runs as root on tmpfs (chown works, permission bits do not stop the restore); nanosecond mtimes are kept by the file system",
            "a pre-existing entry of a different type at a snapshot path counts as something a correct restore must replace (the statement lists 'of a different type'); refusing with Err is tolerated when delete is off, silently keeping it is not",
            "hard-link identity of restored files is not judged here (C01 does, for an empty destination)",
        ]
    }
    fn components(&self) -> Value {
        json!({
            "real": ["rustic_core (prepare_restore, restore, LocalDestination, NodeStreamer, archiver)", "tmpfs file system calls", "rayon", "zstd", "aes256ctr_poly1305aes", "sha2"],
            "stub": ["SimStore in place of a storage service", "SimSource / RawSource (hostile node names) in place of LocalSource", "simulated CLOCK_REALTIME", "PRF getrandom", "PRF nonces"]
        })
    }

    fn generate(&self, subseed: u64, tier: Tier) -> Value {
        let mut rng = Rng::new(subseed);
        let mut cfg = RepoCfg::gen_small(&mut rng);
        if cfg.compression.is_some_and(|c| c > 3) {
            cfg.compression = Some(1);
        }
        let mut genp = GenParams::default();
        genp.max_entries = 12;
        genp.max_file = 90_000;
        genp.total_cap = 260_000;
        genp.sizes_of_interest = cfg.sizes_of_interest().into_iter().filter(|s| *s <= 70_000).collect();
        genp.hardlinks = rng.chance(1, 2);
        let hostile = rng.chance(1, 5).then(|| rng.pick(&HOSTILE_KINDS).to_string());
        if hostile.is_some() {
            genp.max_entries = 6;
            genp.max_file = 20_000;
        }
        let spec = Spec {
            pool: *rng.pick(&[1usize, 2, 3]),
            subseed,
            cfg,
            gen: genp,
            model_seed: rng.next_u64(),
            drop: vec![],
            hostile,
            cases: if tier == Tier::Quick { 10 } else { 12 },
            only: None,
            plain: vec![],
            no_extras: false,
            start_s: common::BASE_TIME_S + rng.range(0, 400 * 86400) as i64,
        };
        serde_json::to_value(spec).unwrap()
    }

    fn shrink(&self, spec: &Value) -> Vec<Value> {
        let s: Spec = serde_json::from_value(spec.clone()).unwrap();
        let mut out = vec![];
        let push = |out: &mut Vec<Value>, s: Spec| out.push(serde_json::to_value(s).unwrap());
        if s.only.is_none() {
            for i in 0..s.cases {
                let mut c = s.clone();
                c.only = Some(i);
                push(&mut out, c);
            }
            return out;
        }
        if !s.no_extras {
            let mut c = s.clone();
            c.no_extras = true;
            push(&mut out, c);
        }
        let n = gen_model(&mut Rng::new(s.model_seed), &s.gen, s.start_s).entries.len();
        for i in 0..n {
            if !s.drop.contains(&i) {
                let mut c = s.clone();
                c.drop.push(i);
                push(&mut out, c);
            }
        }
        for i in 0..n {
            if !s.drop.contains(&i) && !s.plain.contains(&i) {
                let mut c = s.clone();
                c.plain.push(i);
                push(&mut out, c);
            }
        }
        out
    }

    fn exec(&self, spec: &Value, env: &Env) -> Report {
        let s: Spec = serde_json::from_value(spec.clone()).expect("spec");
        let mut rep = Report::default();
        common::run_setup(s.subseed, s.start_s);
        let mut sim = Sim::new(s.subseed, s.cfg.clone(), &env.cpus, "c14");
        if let Cmd::Err(e) = sim.init() {
            rep.sample = json!({"skipped": "configuration refused by init", "error": e});
            rep.evaluations = 1;
            return rep;
        }
        let (m, orig_index) = build(&s);
        let sb = Sandbox::paths(&env.tmp);
        if let Err(e) = sb.rebuild() {
            rep.harness_errors.push(format!("cannot create the sandbox: {e}"));
            return rep;
        }

        // the snapshot
        let plan = ReadPlan { frag: vec![0, 4097, 70_000], eintr_every: 0, gate_reads_every: 0 };
        let snap = if let Some(kind) = &s.hostile {
            let src = RawSource { entries: hostile_entries(kind, &m, &sb, s.start_s) };
            let (store, key) = (sim.store.clone(), sim.key.clone());
            let r = sim.run(&Mode::Free, move || {
                let repo = repo_open(&store, 1, &key)?.to_indexed_ids()?;
                repo.archive(&BackupOptions::default(), &src, snap_template("c14-hostile")?, &[PathBuf::from("/sim")])
            });
            match r {
                Cmd::Ok(snap) => snap,
                Cmd::Err(e) => {
                    // a library that refuses such names at backup time satisfies the property trivially
                    rep.fire("hostile-snapshot-refused-by-backup", 1);
                    rep.sample = json!({"hostile": kind, "backup": format!("refused: {}", classify(&e))});
                    rep.evaluations = 1;
                    sim.finish_report(&mut rep);
                    rep.trace_hash = hash64(&[b"refused", classify(&e).as_bytes()]);
                    rm_rf(&sb.top);
                    return rep;
                }
                other => {
                    rep.fire("hostile-backup-did-not-complete", 1);
                    rep.sample = json!({"hostile": kind, "backup": other.class()});
                    rep.evaluations = 1;
                    sim.finish_report(&mut rep);
                    rep.trace_hash = hash64(&[b"backup", other.class().as_bytes()]);
                    rm_rf(&sb.top);
                    return rep;
                }
            }
        } else {
            match sim.backup(&Mode::Free, &m, 1, &BackupOptions::default(), &plan, "c14") {
                Cmd::Ok(snap) => snap,
                other => {
                    // backing up a generated tree is C01's business
                    rep.harness_errors.push(format!("backup of the model failed: {}", other.detail()));
                    rm_rf(&sb.top);
                    return rep;
                }
            }
        };
        if let Some(kind) = &s.hostile {
            rep.fire(&format!("hostile:{kind}"), 1);
        }

        let mdig = model_digest(&m);
        let mut log: Vec<Vec<u8>> = vec![mdig.to_le_bytes().to_vec()];
        let mut samples = vec![];
        let mut evaluations = 0u64;
        for i in 0..s.cases {
            if s.only.is_some_and(|o| o != i) {
                continue;
            }
            let out = self.run_case(&s, i, &mut sim, &sb, &snap, &m, &orig_index, s.hostile.as_deref());
            if let Some(h) = out.harness {
                rep.harness_errors.push(format!("case {i}: {h}"));
                break;
            }
            evaluations += 1;
            rep.states.push(out.pre_hash);
            for f in &out.verdict.fires {
                rep.fire(f, 1);
            }
            let mut fps: Vec<&str> = out.verdict.violations.iter().map(|v| v.0.as_str()).collect();
            fps.sort_unstable();
            log.push(format!("{i} {:016x} {} {:?}", out.pre_hash, out.outcome_class, fps).into_bytes());
            if out.nontrivial {
                rep.nontrivial.push(hash64(&[&mdig.to_le_bytes(), &out.pre_hash.to_le_bytes(), out.opts_text.as_bytes(), s.hostile.as_deref().unwrap_or("").as_bytes()]));
            }
            for (fp, d) in out.verdict.violations {
                if !rep.violations.iter().any(|v| v.fingerprint == fp) {
                    rep.violation(fp, d);
                }
            }
            if samples.len() < 2 {
                samples.push(out.sample);
            }
            if out.stop {
                break;
            }
        }
        rm_rf(&sb.top);
        sim.finish_report(&mut rep);
        let refs: Vec<&[u8]> = log.iter().map(Vec::as_slice).collect();
        rep.trace_hash = hash64(&refs);
        rep.evaluations = evaluations.max(1);
        rep.sample = json!({
            "config": s.cfg.describe(), "snapshot": m.describe(), "hostile_node_names": s.hostile, "pool": s.pool, "cases": samples,
        });
        rep
    }
}
