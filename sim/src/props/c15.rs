//! C15 Append-only and dry-run modes never remove or overwrite stored data.

use rustic_core::repofile::{SnapshotFile, SnapshotId};
use rustic_core::{BackupOptions, ConfigOptions, FileType, KeyOptions, RepairIndexOptions, RepairSnapshotsOptions, RewriteOptions, RewriteTreesOptions, RusticResult, last_modified_node};
use serde::{Deserialize, Serialize};
use serde_json::{Value, json};

use crate::audit::id_hex;
use crate::common;
use crate::harness::{Env, Prop, Report, Tier};
use crate::interpose;
use crate::model::{GenParams, ReadPlan, SimSource, edit_model};
use crate::props::c01::build_model_min;
use crate::props::c02::PruneSpec;
use crate::rng::{Rng, hash64};
use crate::sched::{Mode, Sched};
use crate::sim::{Cmd, Sim};
use crate::store::{Op, OpKind, SimStore, files_digest, ft_name};
use crate::world::{KeyMat, RepoCfg, config_for, repo_on, repo_open, snap_template};

pub struct C15;

#[derive(Clone, Debug, Serialize, Deserialize)]
pub struct Spec {
    pub pool: usize,
    pub subseed: u64,
    pub kind: String, // append-only | dry-run
    pub cfg: RepoCfg,
    pub gen: GenParams,
    pub model_seed: u64,
    pub nops: usize,
    pub scheduled: bool,
    pub start_s: i64,
}

fn protected(t: FileType) -> bool {
    matches!(t, FileType::Snapshot | FileType::Index | FileType::Pack)
}

fn first_bad(log: &[Op]) -> Option<String> {
    log.iter().find(|o| protected(o.tpe) && !o.identical && matches!(o.kind, OpKind::Remove | OpKind::Overwrite) && (o.ok || o.fault == Some("fail_after_effect"))).map(Op::label)
}

impl Prop for C15 {
    fn id(&self) -> &'static str {
        "C15"
    }
    fn scheduled(&self) -> bool {
        true
    }
    fn runs(&self, tier: Tier) -> u64 {
        match tier {
            Tier::Quick => 2000,
            Tier::Thorough => 30000,
        }
    }
    fn rule(&self) -> &'static str {
        "append-only kind: after a short history (in half of the runs ending with an interrupted backup that leaves unindexed packs) the repository is marked append-only, then a program of 5-15 random public operations runs, each through a fresh handle: backup, delete_snapshots, prune (options from the full grid), repair_index (+/- read_all), \
         repair_snapshots (+/- delete), rewrite_snapshots / rewrite_snapshots_and_trees (+/- forget), apply_config (anything but clearing the flag), add_key, delete_key, copy into the repository, merge, save_snapshots, and (through ONE handle) a config change that tries to clear the flag but is refused for another reason followed by delete_snapshots; oracle on the op log of every operation: \
         no remove and no overwrite of a snapshot, index or pack file; operations of the destructive set (delete_snapshots, prune, repair_index, repair_snapshots with delete, rewrite with forget, config change) return Err and the log shows no write/remove at all between their start and end; \
         the others still work (a backup in append-only mode yields a snapshot that reads back). dry-run kind: backup, repair_index, repair_snapshots, rewrite each with its dry-run flag on a state where the wet run (executed on a fork) does write: zero writes, zero removes; prune_plan alone writes nothing. \
         evaluations = operations judged; non-trivial = a destructive operation was attempted / the wet twin wrote something; distinct = hash(program)"
    }

    fn generate(&self, subseed: u64, _tier: Tier) -> Value {
        let mut rng = Rng::new(subseed);
        let mut cfg = RepoCfg::gen_small(&mut rng);
        if cfg.compression.is_some_and(|c| c > 3) {
            cfg.compression = Some(1);
        }
        let mut genp = GenParams::default();
        genp.max_entries = 6;
        genp.max_file = 30_000;
        genp.total_cap = 80_000;
        genp.special = false;
        genp.weird_names = false;
        let spec = Spec {
            pool: *rng.pick(&[1usize, 2]),
            subseed,
            kind: if rng.chance(2, 3) { "append-only".into() } else { "dry-run".into() },
            cfg,
            gen: genp,
            model_seed: rng.next_u64(),
            nops: rng.range(5, 15) as usize,
            scheduled: rng.chance(1, 5),
            start_s: common::BASE_TIME_S + rng.range(0, 400 * 86400) as i64,
        };
        serde_json::to_value(spec).unwrap()
    }

    fn shrink(&self, spec: &Value) -> Vec<Value> {
        let s: Spec = serde_json::from_value(spec.clone()).unwrap();
        let mut out = vec![];
        if s.nops > 1 {
            let mut c = s.clone();
            c.nops -= 1;
            out.push(serde_json::to_value(c).unwrap());
        }
        out
    }

    #[allow(clippy::too_many_lines)]
    fn exec(&self, spec: &Value, env: &Env) -> Report {
        let s: Spec = serde_json::from_value(spec.clone()).expect("spec");
        let mut rep = Report::default();
        common::run_setup(s.subseed, s.start_s);
        let mut rng = Rng::new(s.subseed ^ 0xc15);
        let mut sim = Sim::new(s.subseed, s.cfg.clone(), &env.cpus, "c15");
        if let Cmd::Err(e) = sim.init() {
            rep.sample = json!({"skipped": "configuration refused by init", "error": e});
            rep.evaluations = 1;
            return rep;
        }
        let plan = ReadPlan { frag: vec![0, 4097], eintr_every: 0, gate_reads_every: 0 };
        let mut model = build_model_min(&s.gen, s.model_seed, &[], s.start_s, 2);
        if let Err((fp, d)) = sim.build_history(&mut rng, &s.gen, &mut model, 3) {
            rep.harness_errors.push(format!("history failed ({fp}): {d}"));
            return rep;
        }
        let mut program = vec![];
        let mut evaluations = 0u64;
        let mut interesting = false;
        if s.kind == "append-only" {
            if rng.chance(1, 2) {
                // an interrupted backup leaves packs that no index lists (what an instant-delete prune would remove first)
                let now = interpose::clock_now() / 1_000_000_000;
                let mut m = model.clone();
                let _ = edit_model(&mut rng, &mut m, &s.gen, now, 3);
                sim.store.set_faults(vec![crate::store::Fault::CrashAt { actor: 1, k: 1 + rng.usize(2) }]);
                sim.strict_bg_panics = false;
                let r = sim.backup(&Mode::Free, &m, 1, &BackupOptions::default(), &plan, "c15");
                sim.strict_bg_panics = true;
                sim.store.set_faults(vec![]);
                if !r.is_ok() {
                    rep.fire("unindexed_packs_left_by_interrupted_backup", 1);
                }
            }
            let (st, ky) = (sim.store.clone(), sim.key.clone());
            if let r @ (Cmd::Err(_) | Cmd::Panic(_) | Cmd::NoProgress | Cmd::Harness(_)) = sim.run(&Mode::Free, move || repo_open(&st, 1, &ky)?.apply_config(&ConfigOptions::default().set_append_only(true)).map(|_| ())) {
                rep.violation(format!("C15/setting-append-only-{}", r.class()), r.detail());
                return rep;
            }
            for i in 0..s.nops {
                let choice = rng.usize(14);
                let mode = if s.scheduled && rng.chance(1, 2) { sim.draw_mode(true, &[0, 1], false) } else { Mode::Free };
                let (st, ky, sched, seed) = (sim.store.clone(), sim.key.clone(), sim.sched.clone(), sim.seed);
                let log0 = sim.store.log_len();
                let ids: Vec<SnapshotId> = sim.store.list_ids(FileType::Snapshot).into_iter().map(Into::into).collect();
                let pick_sn = ids.get(rng.usize(ids.len().max(1))).copied();
                let (name, destructive, r): (String, bool, Cmd<()>) = match choice {
                    0 | 1 => {
                        let now = interpose::clock_now() / 1_000_000_000;
                        let _ = edit_model(&mut rng, &mut model, &s.gen, now, 2);
                        let r = sim.backup(&mode, &model.clone(), 1, &BackupOptions::default(), &plan, "c15");
                        ("backup".into(), false, match r { Cmd::Ok(_) => Cmd::Ok(()), Cmd::Err(e) => Cmd::Err(e), Cmd::Panic(p) => Cmd::Panic(p), Cmd::NoProgress => Cmd::NoProgress, Cmd::Harness(h) => Cmd::Harness(h) })
                    }
                    2 => ("delete_snapshots".into(), true, sim.run(&mode, move || repo_open(&st, 1, &ky)?.delete_snapshots(&pick_sn.into_iter().collect::<Vec<_>>()))),
                    3 => {
                        let ps = PruneSpec::gen(&mut rng, s.cfg.version == 2);
                        let o = ps.to_opts();
                        (format!("prune {ps:?}"), true, sim.run(&mode, move || {
                            let repo = repo_open(&st, 1, &ky)?;
                            let plan = repo.prune_plan(&o)?;
                            repo.prune(&o, plan)
                        }))
                    }
                    4 => {
                        let ra = rng.chance(1, 2);
                        (format!("repair_index(read_all={ra})"), true, sim.run(&mode, move || repo_open(&st, 1, &ky)?.repair_index(&RepairIndexOptions::default().read_all(ra), false)))
                    }
                    5 => {
                        let delete = rng.chance(1, 2);
                        (format!("repair_snapshots(delete={delete})"), delete, sim.run(&mode, move || {
                            let repo = repo_open(&st, 1, &ky)?.to_indexed()?;
                            let all = repo.get_all_snapshots()?;
                            repo.repair_snapshots(&RepairSnapshotsOptions::default().delete(delete), all, false)
                        }))
                    }
                    6 | 7 => {
                        let forget = rng.chance(1, 2);
                        let trees = choice == 7;
                        (format!("rewrite{}(forget={forget})", if trees { "_and_trees" } else { "" }), forget, sim.run(&mode, move || {
                            let repo = repo_open(&st, 1, &ky)?.to_indexed()?;
                            let snaps: Vec<SnapshotFile> = repo.get_all_snapshots()?.into_iter().take(2).collect();
                            let mut o = RewriteOptions::default().forget(forget);
                            o.modification.set_label = Some("relabelled".into());
                            if trees {
                                let mut t = RewriteTreesOptions::default();
                                t.excludes.globs = vec!["!*.txt".into(), "!a*".into()];
                                repo.rewrite_snapshots_and_trees(snaps, &o, &t).map(|_| ())
                            } else {
                                repo.rewrite_snapshots(snaps, &o).map(|_| ())
                            }
                        }))
                    }
                    8 => {
                        let o = match rng.usize(3) {
                            0 => ConfigOptions::default().set_compression(2),
                            1 => ConfigOptions::default().set_treepack_size(bytesize::ByteSize::b(77_777)),
                            _ => ConfigOptions::default().set_append_only(true).set_datapack_size(bytesize::ByteSize::b(55_555)),
                        };
                        ("apply_config".into(), true, sim.run(&mode, move || repo_open(&st, 1, &ky)?.apply_config(&o).map(|_| ())))
                    }
                    9 => ("add_key+delete_key".into(), false, sim.run(&mode, move || {
                        let repo = repo_open(&st, 1, &ky)?;
                        let kid = repo.add_key("temporary", &KeyOptions::default())?;
                        repo.delete_key(&kid)
                    })),
                    10 => {
                        // copy into the append-only repository from a small other repository
                        let okey = KeyMat::from_seed(s.subseed ^ 0x07e4 ^ i as u64);
                        let ostore = SimStore::new("c15-other", Sched::new());
                        let ocfg = RepoCfg::default();
                        let m2 = model.clone();
                        let plan2 = plan.clone();
                        ("copy into".into(), false, sim.run(&mode, move || {
                            let other = repo_on(ostore.handle(5), None, None)?.init_with_config(&okey.creds(), &KeyOptions::default(), config_for(&okey, &ocfg)?)?.to_indexed_ids()?;
                            let src = SimSource::new(m2, sched, 5, plan2, seed);
                            let sn = other.archive(&BackupOptions::default(), &src, snap_template("other")?, &[std::path::PathBuf::from("/sim")])?;
                            let other = other.to_indexed()?;
                            let dst = repo_open(&st, 1, &ky)?.to_indexed_ids()?;
                            other.copy(&dst, [&sn])
                        }))
                    }
                    12 => {
                        // one handle: a config change that tries to clear the flag but is refused for another
                        // reason (stored config untouched), then a removal through the SAME handle - its view
                        // of the configuration must still be append-only
                        let bad = match rng.usize(3) {
                            0 => ConfigOptions::default().set_append_only(false).set_max_packsize_tolerate_percent(50u32),
                            1 => ConfigOptions::default().set_append_only(false).set_min_packsize_tolerate_percent(150u32),
                            _ => ConfigOptions::default().set_append_only(false).set_max_packsize_tolerate_percent(99u32).set_compression(1),
                        };
                        let sn = pick_sn;
                        ("refused_config_change+delete_snapshots(same handle)".into(), true, sim.run(&mode, move || {
                            let mut repo = repo_open(&st, 1, &ky)?;
                            match repo.apply_config(&bad) {
                                // accepted after all: the flag is legitimately gone, nothing to judge
                                Ok(_) => Err(rustic_core::RusticError::new(rustic_core::ErrorKind::Internal, "harness: premise failed, the config change was accepted")),
                                Err(_) => match sn {
                                    Some(id) => repo.delete_snapshots(&[id]),
                                    None => repo.delete_snapshots(&[]),
                                },
                            }
                        }))
                    }
                    11 => ("merge".into(), false, sim.run(&mode, move || {
                        let repo = repo_open(&st, 1, &ky)?.to_indexed()?;
                        let snaps: Vec<SnapshotFile> = repo.get_all_snapshots()?.into_iter().take(2).collect();
                        repo.merge_snapshots(&snaps, &last_modified_node, snap_template("merged")?).map(|_| ())
                    })),
                    _ => ("save_snapshots".into(), false, sim.run(&mode, move || {
                        let repo = repo_open(&st, 1, &ky)?;
                        let mut snaps: Vec<SnapshotFile> = repo.get_all_snapshots()?.into_iter().take(1).collect();
                        for sn in &mut snaps {
                            sn.label = "saved-again".into();
                        }
                        repo.save_snapshots(snaps)
                    })),
                };
                evaluations += 1;
                let log = sim.store.log_from(log0);
                let muts: Vec<&Op> = log.iter().filter(|o| o.kind.is_mutation()).collect();
                program.push(format!("{name} -> {}", r.class().chars().take(70).collect::<String>()));
                if let Some(bad) = first_bad(&log) {
                    rep.violation(format!("C15/append-only:{}:removed-or-overwrote-stored-data", name.split([' ', '(']).next().unwrap_or("")), format!("op {i} `{name}` performed `{bad}` on an append-only repository"));
                }
                match &r {
                    Cmd::Panic(p) => rep.violation(format!("C15/append-only:{}:panic:{}", name.split([' ', '(']).next().unwrap_or(""), common::classify(&common::short_loc(p))), p.clone()),
                    Cmd::NoProgress => rep.violation(format!("C15/append-only:{}:no-progress", name.split([' ', '(']).next().unwrap_or("")), "hang"),
                    Cmd::Harness(h) => rep.harness_errors.push(h.clone()),
                    _ => {}
                }
                if destructive {
                    interesting = true;
                    rep.fire("destructive_op_attempted", 1);
                    if r.is_ok() {
                        // a config "change" that changes nothing, or a delete of no snapshot, may legitimately be a no-op success
                        if !muts.is_empty() {
                            rep.violation(format!("C15/append-only:{}:destructive-op-succeeded", name.split([' ', '(']).next().unwrap_or("")), format!("op {i} `{name}` returned Ok and wrote {} file(s)", muts.len()));
                        } else if !name.starts_with("apply_config") {
                            rep.violation(format!("C15/append-only:{}:destructive-op-not-refused", name.split([' ', '(']).next().unwrap_or("")), format!("op {i} `{name}` returned Ok on an append-only repository"));
                        }
                    } else if matches!(r, Cmd::Err(_)) && !muts.is_empty() {
                        rep.violation(format!("C15/append-only:{}:refused-after-touching-storage", name.split([' ', '(']).next().unwrap_or("")), format!("op {i} `{name}` returned Err but had already performed {}", muts[0].label()));
                    }
                } else if let Cmd::Err(e) = &r {
                    // non-destructive operations keep working
                    rep.violation(format!("C15/append-only:{}:non-destructive-op-refused:{}", name.split([' ', '(']).next().unwrap_or(""), common::classify(e)), format!("op {i} `{name}`: {e}"));
                }
                rep.states.push(files_digest(&sim.store.files()));
                if !rep.violations.is_empty() {
                    break;
                }
                interpose::clock_advance(61_000_000_000);
            }
            // control: everything (incl. snapshots made in append-only mode) reads back
            if rep.violations.is_empty() {
                for (fp, d) in sim.verify(true) {
                    rep.violation(format!("C15/append-only:final:{fp}"), d);
                }
            }
        } else {
            // ---------- dry-run
            // make sure there is something for every command to do: lose a pack (snapshots damaged, index stale)
            let packs = sim.store.list_ids(FileType::Pack);
            if !packs.is_empty() {
                let _ = sim.store.remove_raw(FileType::Pack, &packs[rng.usize(packs.len())]);
            }
            let now = interpose::clock_now() / 1_000_000_000;
            let _ = edit_model(&mut rng, &mut model, &s.gen, now, 3);
            let frozen = sim.store.files();
            for cmd in ["backup", "repair_index", "repair_snapshots", "rewrite", "prune_plan"] {
                let mut results = vec![];
                for dry in [true, false] {
                    if cmd == "prune_plan" && !dry {
                        continue;
                    }
                    let mut f = sim.fork(frozen.clone(), "c15-dry");
                    let (st, ky, sched, seed, m2, plan2) = (f.store.clone(), f.key.clone(), f.sched.clone(), f.seed, model.clone(), plan.clone());
                    let r: Cmd<()> = f.run(&Mode::Free, move || -> RusticResult<()> {
                        match cmd {
                            "backup" => {
                                let repo = repo_open(&st, 1, &ky)?.to_indexed_ids()?;
                                let src = SimSource::new(m2, sched, 1, plan2, seed);
                                repo.archive(&BackupOptions::default().dry_run(dry), &src, snap_template("dry")?, &[std::path::PathBuf::from("/sim")]).map(|_| ())
                            }
                            "repair_index" => repo_open(&st, 1, &ky)?.repair_index(&RepairIndexOptions::default(), dry),
                            "repair_snapshots" => {
                                let repo = repo_open(&st, 1, &ky)?;
                                repo.repair_index(&RepairIndexOptions::default(), dry)?;
                                let repo = repo.to_indexed()?;
                                let all = repo.get_all_snapshots()?;
                                repo.repair_snapshots(&RepairSnapshotsOptions::default(), all, dry)
                            }
                            "rewrite" => {
                                let repo = repo_open(&st, 1, &ky)?.to_indexed()?;
                                let snaps = repo.get_all_snapshots()?;
                                let mut o = RewriteOptions::default().forget(true).dry_run(dry);
                                o.modification.set_label = Some("x".into());
                                repo.rewrite_snapshots(snaps, &o).map(|_| ())
                            }
                            _ => {
                                let repo = repo_open(&st, 1, &ky)?;
                                repo.prune_plan(&rustic_core::PruneOptions::default()).map(|_| ())
                            }
                        }
                    });
                    let muts: Vec<String> = f.store.log().iter().filter(|o| o.kind.is_mutation()).map(Op::label).collect();
                    results.push((dry, r.class(), muts));
                }
                evaluations += 1;
                let dry_muts = &results[0].2;
                let wet_muts = results.get(1).map(|x| x.2.len()).unwrap_or(0);
                if wet_muts > 0 {
                    interesting = true;
                }
                rep.fire(&format!("wet_twin_ops:{cmd}"), wet_muts as u64);
                program.push(format!("{cmd}: dry -> {} ({} ops), wet -> {} ops", results[0].1.chars().take(50).collect::<String>(), dry_muts.len(), wet_muts));
                if !dry_muts.is_empty() {
                    rep.violation(format!("C15/dry-run:{cmd}:wrote-or-removed"), format!("{cmd} in dry-run mode performed {:?}", dry_muts.iter().take(3).collect::<Vec<_>>()));
                }
                if results[0].1.starts_with("panic") {
                    rep.violation(format!("C15/dry-run:{cmd}:{}", results[0].1), "panic in dry-run".to_string());
                }
            }
        }
        sim.finish_report(&mut rep);
        rep.evaluations = evaluations.max(1);
        if interesting {
            rep.nontrivial.push(hash64(&[format!("{program:?}").as_bytes()]));
        }
        rep.sample = json!({"kind": s.kind, "program": program, "config": s.cfg.describe()});
        if !rep.violations.is_empty() {
            rep.trace = sim.trace.clone();
        }
        let _ = (id_hex, ft_name);
        rep
    }
}
