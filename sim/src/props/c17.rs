//! C17 The in-memory index answers exactly what the index files say.
//!
//! A scenario = one generated collection of index files (written by the simulator's own JSON
//! writer and AEAD encoder, not by the library) placed in a SimStore next to a real config/key,
//! then several *loads* of it through the real loader (`to_indexed`, `to_indexed_ids`,
//! `to_indexed().drop_data_from_index()`) under seeded schedules of the index-file reads, and
//! `has` / `get_id` / `total_size` queries compared with a map model of the collection.

use std::collections::{BTreeMap, BTreeSet};

use bytes::Bytes;
use rustic_core::repofile::{BlobType, IndexFile};
use rustic_core::{FileType, Id, IndexedTree, Repository};
use serde::{Deserialize, Serialize};
use serde_json::{Map, Value, json};

use crate::audit::{decode_file, encrypt, hash_id, id_hex, id_of_bytes};
use crate::common::{self, classify, etext, short_loc};
use crate::harness::{Env, Prop, Report, Tier};
use crate::rng::{Rng, hash64};
use crate::sched::{ClockSteps, Mode, Policy};
use crate::sim::{Cmd, Sim};
use crate::store::{Fault, OpKind, files_digest, ft_code};
use crate::world::{RepoCfg, repo_open};

pub struct C17;

#[derive(Clone, Debug, Serialize, Deserialize)]
pub struct Spec {
    pub pool: usize,
    pub subseed: u64,
    pub start_s: i64,
    /// repository format version (2 = index files may be zstd-compressed)
    pub version: u32,
    pub coll_seed: u64,
    /// number of index files, pack listings and (soft) blob listings of the collection
    pub files: usize,
    pub packs: usize,
    pub blobs: usize,
    /// packs listing blobs of both types (outside the property's domain; deviations are counted, not flagged)
    pub mixed: bool,
    /// boundary values for offsets, lengths, sizes
    pub boundary: bool,
    /// loads run under the gate scheduler (else free = FIFO-serial)
    pub sched: bool,
    pub force_fifo: bool,
    /// fault-free loads in full mode / in each of the two reduced modes
    pub full_loads: usize,
    pub reduced_loads: usize,
    /// loads with an injected fault: the k-th index read fails (every k), the index listing fails
    pub faults: bool,
    /// minimiser: index files / pack listings (generation ordinals) left out
    pub drop_files: Vec<usize>,
    pub drop_packs: Vec<usize>,
    /// minimiser: evaluate only this load of the plan
    pub only_load: Option<usize>,
}

// ---------------------------------------------------------------------------------------------
// the generated collection

type Raw = [u8; 32];

#[derive(Clone, Debug)]
struct GBlob {
    tree: bool,
    id: Raw,
    offset: u32,
    length: u32,
    raw: Option<u32>,
}

#[derive(Clone, Debug)]
struct GPack {
    ord: usize,
    id: Raw,
    blobs: Vec<GBlob>,
    size: Option<u32>,
    time: Option<i64>,
    marked: bool,
}

#[derive(Clone, Debug)]
struct GFile {
    ord: usize,
    packs: Vec<GPack>,
    supersedes: Option<Vec<Raw>>,
    zstd: bool,
    pretty: bool,
    /// write `"packs_to_delete": []` although it is empty
    explicit_empty_delete: bool,
    nonce: [u8; 16],
}

fn raw32(rng: &mut Rng) -> Raw {
    let mut r = [0u8; 32];
    r.copy_from_slice(&rng.bytes(32));
    r
}

fn neighbour(id: &Raw, up: bool) -> Raw {
    let mut r = *id;
    r[31] = if up { r[31].wrapping_add(1) } else { r[31].wrapping_sub(1) };
    r
}

fn special_ids() -> Vec<Raw> {
    let mut one = [0u8; 32];
    one[31] = 1;
    let mut fe = [0xffu8; 32];
    fe[31] = 0xfe;
    let mut hi = [0u8; 32];
    hi[0] = 0x80;
    vec![[0u8; 32], one, [0xffu8; 32], fe, hi]
}

fn draw_id(rng: &mut Rng, used: &[(bool, Raw)], tree: bool, pack_ids: &[Raw]) -> Raw {
    if used.is_empty() {
        return if rng.chance(1, 10) { *rng.pick(&special_ids()) } else { raw32(rng) };
    }
    match rng.weighted(&[50, 14, 10, 12, 6, 8]) {
        0 => raw32(rng),
        1 => {
            // the same blob once more (duplicate across packs / files)
            let same: Vec<&(bool, Raw)> = used.iter().filter(|u| u.0 == tree).collect();
            if same.is_empty() { raw32(rng) } else { rng.pick(&same).1 }
        }
        2 => {
            // an id that is already listed under the other type
            let other: Vec<&(bool, Raw)> = used.iter().filter(|u| u.0 != tree).collect();
            if other.is_empty() { raw32(rng) } else { rng.pick(&other).1 }
        }
        3 => neighbour(&rng.pick(used).1, rng.chance(1, 2)),
        4 => {
            if !pack_ids.is_empty() && rng.chance(1, 3) {
                *rng.pick(pack_ids)
            } else {
                *rng.pick(&special_ids())
            }
        }
        _ => {
            // shares all but the last two bytes with a listed id
            let mut r = rng.pick(used).1;
            let t = rng.bytes(2);
            r[30] = t[0];
            r[31] = t[1];
            r
        }
    }
}

fn draw_len(rng: &mut Rng, boundary: bool) -> u32 {
    if boundary && rng.chance(1, 5) {
        return *rng.pick(&[0u32, 1, 31, 32, 33, 1 << 24, 1 << 31, u32::MAX - 1, u32::MAX]);
    }
    match rng.weighted(&[3, 5, 2]) {
        0 => rng.range(33, 300) as u32,
        1 => rng.range(300, 70_000) as u32,
        _ => rng.range(70_000, 9_000_000) as u32,
    }
}

/// size of a pack as laid out by the repository format: blobs, header entries (37 bytes, 41 with
/// an uncompressed length), 32 bytes header encryption overhead, 4 bytes header length
fn format_pack_size(blobs: &[GBlob]) -> u64 {
    36 + blobs.iter().map(|b| u64::from(b.length) + if b.raw.is_some() { 41 } else { 37 }).sum::<u64>()
}

fn gen_collection(s: &Spec) -> Vec<GFile> {
    let mut rng = Rng::new(s.coll_seed);
    let mut files: Vec<GFile> = (0..s.files)
        .map(|i| {
            let mut nonce = [0u8; 16];
            nonce.copy_from_slice(&rng.bytes(16));
            GFile {
                ord: i,
                packs: vec![],
                supersedes: match rng.usize(4) {
                    0 => Some(vec![]),
                    1 => Some((0..rng.range(1, 3)).map(|_| raw32(&mut rng)).collect()),
                    _ => None,
                },
                zstd: s.version >= 2 && rng.chance(1, 2),
                pretty: rng.chance(1, 5),
                explicit_empty_delete: rng.chance(1, 6),
                nonce,
            }
        })
        .collect();
    if files.is_empty() {
        return files;
    }
    let mut used: Vec<(bool, Raw)> = vec![];
    let mut made: Vec<GPack> = vec![];
    let mut pack_ids: Vec<Raw> = vec![];
    let mut blobs_left = s.blobs;
    for pi in 0..s.packs {
        let relist = !made.is_empty() && rng.chance(1, 7);
        let mut p = if relist {
            // the same pack listed once more: usually with the other marking, in any file
            let mut q = rng.pick(&made).clone();
            if rng.chance(3, 4) {
                q.marked = !q.marked;
            }
            match rng.usize(6) {
                0 => q.size = Some(rng.range(0, 5_000_000) as u32),
                1 => {
                    for b in &mut q.blobs {
                        b.offset = b.offset.wrapping_add(7);
                    }
                }
                2 => q.time = Some(s.start_s - rng.range(0, 90 * 86400) as i64),
                3 => {
                    let keep = rng.usize(q.blobs.len() + 1);
                    q.blobs.truncate(keep);
                }
                _ => {}
            }
            if q.blobs.len() > blobs_left {
                q.blobs.truncate(blobs_left);
            }
            q
        } else {
            let tree = rng.chance(2, 5);
            let want = match rng.weighted(&[12, 20, 40, 20, 8]) {
                0 => 0,
                1 => 1,
                2 => rng.range(2, 6) as usize,
                3 => rng.range(7, 20) as usize,
                _ => rng.range(21, 60) as usize,
            };
            let nb = want.min(blobs_left);
            let id = raw32(&mut rng);
            let mut blobs = vec![];
            let mut off: u32 = if s.boundary && rng.chance(1, 8) { u32::MAX - 1000 } else { 0 };
            for _ in 0..nb {
                let btree = if s.mixed && rng.chance(1, 3) { !tree } else { tree };
                let bid = draw_id(&mut rng, &used, btree, &pack_ids);
                let length = draw_len(&mut rng, s.boundary);
                let raw = match rng.weighted(&[4, 5, if s.boundary { 1 } else { 0 }]) {
                    0 => None,
                    1 => Some(rng.range(1, 200_000) as u32),
                    _ => Some(*rng.pick(&[1u32, u32::MAX])),
                };
                let offset = if s.boundary && rng.chance(1, 6) { *rng.pick(&[0u32, 1, 1 << 31, u32::MAX - 1, u32::MAX]) } else { off };
                off = off.wrapping_add(length);
                blobs.push(GBlob { tree: btree, id: bid, offset, length, raw });
                used.push((btree, bid));
            }
            let size = match rng.weighted(&[5, 3, 2, if s.boundary { 2 } else { 0 }]) {
                0 => None,
                1 => Some(format_pack_size(&blobs).min(u64::from(u32::MAX)) as u32),
                2 => Some(rng.range(0, 40_000_000) as u32),
                _ => Some(*rng.pick(&[0u32, 1, u32::MAX - 1, u32::MAX])),
            };
            let time = if rng.chance(1, 2) { Some(s.start_s - rng.range(0, 400 * 86400) as i64) } else { None };
            GPack { ord: 0, id, blobs, size, time, marked: rng.chance(1, 4) }
        };
        // a pack without a recorded size has the size the format gives it; that must be a u32
        if p.size.is_none() && format_pack_size(&p.blobs) > u64::from(u32::MAX) {
            p.size = Some(rng.range(0, u64::from(u32::MAX)) as u32);
        }
        p.ord = pi;
        blobs_left -= p.blobs.len();
        pack_ids.push(p.id);
        let f = rng.usize(files.len());
        files[f].packs.push(p.clone());
        made.push(p);
    }
    files
}

fn collection_of(s: &Spec) -> Vec<GFile> {
    let mut files = gen_collection(s);
    files.retain(|f| !s.drop_files.contains(&f.ord));
    for f in &mut files {
        f.packs.retain(|p| !s.drop_packs.contains(&p.ord));
    }
    files
}

// ---------------------------------------------------------------------------------------------
// the simulator's own index-file writer

fn hexs(r: &Raw) -> String {
    hex::encode(r)
}

fn pack_json(p: &GPack) -> Value {
    let mut o = Map::new();
    let _ = o.insert("id".into(), json!(hexs(&p.id)));
    let blobs: Vec<Value> = p
        .blobs
        .iter()
        .map(|b| {
            let mut m = Map::new();
            let _ = m.insert("id".into(), json!(hexs(&b.id)));
            let _ = m.insert("type".into(), json!(if b.tree { "tree" } else { "data" }));
            let _ = m.insert("offset".into(), json!(b.offset));
            let _ = m.insert("length".into(), json!(b.length));
            if let Some(r) = b.raw {
                let _ = m.insert("uncompressed_length".into(), json!(r));
            }
            Value::Object(m)
        })
        .collect();
    let _ = o.insert("blobs".into(), Value::Array(blobs));
    if let Some(t) = p.time {
        let ts = jiff::Timestamp::from_second(t).expect("timestamp").to_string();
        let _ = o.insert("time".into(), json!(ts));
    }
    if let Some(sz) = p.size {
        let _ = o.insert("size".into(), json!(sz));
    }
    Value::Object(o)
}

fn file_bytes(f: &GFile, key: &[u8; 64]) -> (Id, Bytes) {
    let mut o = Map::new();
    if let Some(sup) = &f.supersedes {
        let _ = o.insert("supersedes".into(), json!(sup.iter().map(hexs).collect::<Vec<_>>()));
    }
    let _ = o.insert("packs".into(), Value::Array(f.packs.iter().filter(|p| !p.marked).map(pack_json).collect()));
    let del: Vec<Value> = f.packs.iter().filter(|p| p.marked).map(pack_json).collect();
    if !del.is_empty() || f.explicit_empty_delete {
        let _ = o.insert("packs_to_delete".into(), Value::Array(del));
    }
    let v = Value::Object(o);
    let js = if f.pretty { serde_json::to_vec_pretty(&v) } else { serde_json::to_vec(&v) }.expect("json");
    let plain = if f.zstd {
        let mut out = vec![2u8];
        out.extend_from_slice(&zstd::encode_all(&js[..], 1).expect("zstd"));
        out
    } else {
        js
    };
    let data = encrypt(key, &f.nonce, &plain);
    (hash_id(&data), Bytes::from(data))
}

// ---------------------------------------------------------------------------------------------
// the map model

/// (pack, offset, length, uncompressed length)
type Listing = (Id, u32, u32, Option<u32>);

#[derive(Default)]
struct Model {
    /// (is tree, id) -> listings under `packs`, by the type each blob carries
    strict: BTreeMap<(bool, Raw), BTreeSet<Listing>>,
    /// the same, but every blob of a pack filed under the type of the pack's first blob
    /// (differs from `strict` only for packs mixing blob types)
    alt: BTreeMap<(bool, Raw), BTreeSet<Listing>>,
    /// (is tree, id) listed under `packs_to_delete`
    marked: BTreeSet<(bool, Raw)>,
    /// Σ sizes of the listings under `packs`: [all-data packs, all-tree packs], and packs whose
    /// type the statement leaves open (no blobs, or blobs of both types)
    typed: [u64; 2],
    open: u64,
    /// Σ over distinct all-tree pack ids of the smallest listed size (a loader that counts a
    /// re-listed pack once); and the same over all packs, smallest / largest
    tree_dedup_lo: u64,
    all_dedup: (u64, u64),
    relisted: bool,
    listed_ids: BTreeSet<Raw>,
    pack_ids: BTreeSet<Raw>,
    feat: BTreeMap<&'static str, u64>,
}

fn pack_size_of(p: &GPack) -> u64 {
    p.size.map_or_else(|| format_pack_size(&p.blobs), u64::from)
}

fn build_model(files: &[GFile]) -> Model {
    let mut m = Model::default();
    let mut by_pack_all: BTreeMap<Raw, (u64, u64)> = BTreeMap::new();
    let mut by_pack_tree: BTreeMap<Raw, u64> = BTreeMap::new();
    let mut normal_packs: BTreeSet<Raw> = BTreeSet::new();
    let mut marked_packs: BTreeSet<Raw> = BTreeSet::new();
    let feat = |m: &mut Model, k: &'static str| *m.feat.entry(k).or_insert(0) += 1;
    for f in files {
        for p in &f.packs {
            let _ = m.pack_ids.insert(p.id);
            let pid = id_of_bytes(&p.id);
            for b in &p.blobs {
                let _ = m.listed_ids.insert(b.id);
            }
            if p.marked {
                feat(&mut m, "marked_pack");
                let _ = marked_packs.insert(p.id);
                for b in &p.blobs {
                    let _ = m.marked.insert((b.tree, b.id));
                }
                continue;
            }
            if !normal_packs.insert(p.id) {
                m.relisted = true;
                feat(&mut m, "pack_listed_twice_under_packs");
            }
            let size = pack_size_of(p);
            let all_tree = !p.blobs.is_empty() && p.blobs.iter().all(|b| b.tree);
            let all_data = !p.blobs.is_empty() && p.blobs.iter().all(|b| !b.tree);
            if p.blobs.is_empty() {
                feat(&mut m, "empty_pack");
            }
            if all_tree {
                m.typed[1] += size;
                let e = by_pack_tree.entry(p.id).or_insert(size);
                *e = (*e).min(size);
            } else if all_data {
                m.typed[0] += size;
            } else {
                m.open += size;
                if !p.blobs.is_empty() {
                    feat(&mut m, "mixed_pack");
                }
            }
            let e = by_pack_all.entry(p.id).or_insert((size, size));
            e.0 = e.0.min(size);
            e.1 = e.1.max(size);
            let first_tree = p.blobs.first().is_some_and(|b| b.tree);
            for b in &p.blobs {
                let l: Listing = (pid, b.offset, b.length, b.raw);
                let _ = m.strict.entry((b.tree, b.id)).or_default().insert(l);
                let _ = m.alt.entry((first_tree, b.id)).or_default().insert(l);
            }
        }
    }
    m.tree_dedup_lo = by_pack_tree.values().sum();
    m.all_dedup = (by_pack_all.values().map(|v| v.0).sum(), by_pack_all.values().map(|v| v.1).sum());
    let both = normal_packs.intersection(&marked_packs).count() as u64;
    if both > 0 {
        *m.feat.entry("pack_listed_normally_and_marked").or_insert(0) += both;
    }
    let mut dup = 0;
    let mut both_types = 0;
    for ((t, id), ls) in &m.strict {
        if ls.iter().map(|l| l.0).collect::<BTreeSet<_>>().len() > 1 {
            dup += 1;
        }
        if *t && m.strict.contains_key(&(false, *id)) {
            both_types += 1;
        }
    }
    let marked_only = m.marked.iter().filter(|k| !m.strict.contains_key(*k)).count() as u64;
    let also_marked = m.marked.iter().filter(|k| m.strict.contains_key(*k)).count() as u64;
    for (k, v) in [("blob_in_several_packs", dup), ("id_under_both_types", both_types), ("blob_listed_only_as_marked", marked_only), ("blob_listed_normally_and_marked", also_marked)] {
        if v > 0 {
            *m.feat.entry(k).or_insert(0) += v;
        }
    }
    m
}

// ---------------------------------------------------------------------------------------------
// loads and answers

#[derive(Clone, Copy, Debug, PartialEq, Eq)]
enum LMode {
    Full,
    Ids,
    Trees,
}

impl LMode {
    fn name(self) -> &'static str {
        match self {
            LMode::Full => "full",
            LMode::Ids => "ids-only",
            LMode::Trees => "trees-only",
        }
    }
    fn retains_has(self, tree: bool) -> bool {
        tree || self != LMode::Trees
    }
    fn retains_get(self, tree: bool) -> bool {
        tree || self == LMode::Full
    }
}

#[derive(Clone, Debug)]
struct Load {
    mode: LMode,
    /// 0 none, 1 = k-th read of an index file fails, 2 = the listing of index files fails
    fault: u8,
    k: usize,
}

struct Answers {
    per: Vec<(bool, Option<Listing>)>,
    total: [u64; 2],
}

enum LoadOut {
    OpenErr(String),
    LoadErr(String),
    Answers(Answers),
}

fn bt(tree: bool) -> BlobType {
    if tree { BlobType::Tree } else { BlobType::Data }
}

fn answers<S: IndexedTree>(repo: &Repository<S>, queries: &[(bool, Id)]) -> Answers {
    Answers {
        per: queries.iter().map(|(t, id)| (repo.verif_index_has(bt(*t), id), repo.verif_index_get(bt(*t), id))).collect(),
        total: [repo.verif_index_total_size(BlobType::Data), repo.verif_index_total_size(BlobType::Tree)],
    }
}

fn td(tree: bool) -> &'static str {
    if tree { "tree" } else { "data" }
}

/// Compare the answers of one load with the model. Returns (fingerprint suffix, detail) of every
/// deviation (one per suffix) and counts of tolerated deviations.
fn judge(model: &Model, mode: LMode, queries: &[(bool, Raw)], a: &Answers, tolerated: &mut BTreeMap<&'static str, u64>) -> Vec<(String, String)> {
    let mut out: Vec<(String, String)> = vec![];
    let mut push = |fp: String, detail: String| {
        if !out.iter().any(|(f, _)| *f == fp) {
            out.push((fp, detail));
        }
    };
    let empty = BTreeSet::new();
    for (i, (tree, id)) in queries.iter().enumerate() {
        let (has, get) = &a.per[i];
        let ls = model.strict.get(&(*tree, *id)).unwrap_or(&empty);
        let la = model.alt.get(&(*tree, *id)).unwrap_or(&empty);
        let exp_any = !ls.is_empty() || !la.is_empty();
        let exp_all = !ls.is_empty() && !la.is_empty();
        let culprit_absent = || {
            if model.marked.contains(&(*tree, *id)) {
                "listed-only-in-packs-to-delete"
            } else if model.strict.contains_key(&(!*tree, *id)) {
                "listed-under-the-other-type-only"
            } else if model.listed_ids.contains(&neighbour(id, true)) || model.listed_ids.contains(&neighbour(id, false)) {
                "neighbour-of-a-listed-id"
            } else if model.pack_ids.contains(id) {
                "pack-id"
            } else {
                "unlisted-id"
            }
        };
        let culprit_present = || {
            if ls.iter().map(|l| l.0).collect::<BTreeSet<_>>().len() > 1 {
                "blob-in-several-packs"
            } else if ls.len() > 1 {
                "pack-listed-more-than-once"
            } else if model.marked.contains(&(*tree, *id)) {
                "also-listed-in-packs-to-delete"
            } else if model.strict.contains_key(&(!*tree, *id)) {
                "id-under-both-types"
            } else {
                "listed-once"
            }
        };
        let what = format!("{} blob {}", td(*tree), hexs(id));
        // presence
        if *has && !exp_any {
            push(format!("has-true-for-blob-not-listed:{}:{}:{}", mode.name(), td(*tree), culprit_absent()), format!("{what}: has() = true, but no index file lists it under `packs` ({})", culprit_absent()));
        } else if !*has && exp_all && mode.retains_has(*tree) {
            push(format!("has-false-for-listed-blob:{}:{}:{}", mode.name(), td(*tree), culprit_present()), format!("{what}: has() = false, but it is listed under `packs`: {ls:?}"));
        } else if *has == ls.is_empty() && mode.retains_has(*tree) {
            *tolerated.entry("mixed_pack_blob_filed_under_first_blob_type(has)").or_insert(0) += 1;
        }
        // location
        match get {
            Some(l) => {
                if ls.contains(l) {
                } else if la.contains(l) {
                    *tolerated.entry("mixed_pack_blob_filed_under_first_blob_type(get)").or_insert(0) += 1;
                } else if exp_any {
                    push(
                        format!("get-returns-a-location-no-file-lists:{}:{}:{}", mode.name(), td(*tree), culprit_present()),
                        format!("{what}: get_id() = {l:?}, listings under `packs`: {ls:?}; under `packs_to_delete`: {}", model.marked.contains(&(*tree, *id))),
                    );
                } else {
                    push(format!("get-some-for-blob-not-listed:{}:{}:{}", mode.name(), td(*tree), culprit_absent()), format!("{what}: get_id() = {l:?}, but no index file lists it under `packs` ({})", culprit_absent()));
                }
            }
            None => {
                if exp_all && mode.retains_get(*tree) {
                    push(format!("get-none-for-listed-blob:{}:{}:{}", mode.name(), td(*tree), culprit_present()), format!("{what}: get_id() = None, but it is listed under `packs`: {ls:?}"));
                } else if !ls.is_empty() && la.is_empty() && mode.retains_get(*tree) {
                    *tolerated.entry("mixed_pack_blob_filed_under_first_blob_type(get)").or_insert(0) += 1;
                }
            }
        }
    }
    // size totals: [data, tree]
    let (d, t) = (a.total[0], a.total[1]);
    let (md, mt, mo) = (model.typed[0], model.typed[1], model.open);
    let tree_ok = t >= mt && t <= mt + mo;
    match mode {
        LMode::Full => {
            let ok = tree_ok && d >= md && t + d == mt + md + mo;
            if !ok {
                if model.relisted && t + d >= model.all_dedup.0 && t + d <= model.all_dedup.1 {
                    *tolerated.entry("total_size_counts_a_relisted_pack_once").or_insert(0) += 1;
                } else {
                    push(
                        "total-size-differs-from-listed-pack-sizes:full".to_string(),
                        format!("total_size(tree) = {t}, total_size(data) = {d}; listed under `packs`: tree packs {mt}, data packs {md}, packs without blobs / of both types {mo}"),
                    );
                }
            }
        }
        LMode::Ids | LMode::Trees => {
            if !tree_ok {
                if model.relisted && t >= model.tree_dedup_lo && t <= mt + mo {
                    *tolerated.entry("total_size_counts_a_relisted_pack_once").or_insert(0) += 1;
                } else {
                    push(format!("total-size-differs-from-listed-pack-sizes:{}", mode.name()), format!("total_size(tree) = {t}; listed under `packs`: tree packs {mt}, packs without blobs / of both types {mo}"));
                }
            }
            // the ids-only mode (what every backup loads) keeps the pack sizes: its data total feeds the
            // pack sizer and must equal the listed data pack sizes; the trees-only mode drops data altogether
            if mode == LMode::Ids && !(d >= md && d <= md + mo) {
                if model.relisted && t + d >= model.all_dedup.0 && t + d <= model.all_dedup.1 {
                    *tolerated.entry("total_size_counts_a_relisted_pack_once").or_insert(0) += 1;
                } else {
                    push("total-size-differs-from-listed-pack-sizes:ids-only:data".to_string(), format!("total_size(data) = {d}; listed under `packs`: data packs {md}, packs without blobs / of both types {mo}"));
                }
            }
        }
    }
    out
}

fn plan_of(s: &Spec, n_files: usize) -> Vec<Load> {
    let mut rng = Rng::new(s.subseed ^ 0xc17_0001);
    let mut plan = vec![];
    for _ in 0..s.full_loads.max(1) {
        plan.push(Load { mode: LMode::Full, fault: 0, k: 0 });
    }
    for _ in 0..s.reduced_loads.max(1) {
        plan.push(Load { mode: LMode::Ids, fault: 0, k: 0 });
        plan.push(Load { mode: LMode::Trees, fault: 0, k: 0 });
    }
    if s.faults {
        // every position of the failing index read once, and the failing listing
        let modes = [LMode::Full, LMode::Ids, LMode::Trees];
        for k in 0..n_files {
            plan.push(Load { mode: *rng.pick(&modes), fault: 1, k });
        }
        plan.push(Load { mode: *rng.pick(&modes), fault: 2, k: 0 });
    }
    plan
}

impl Prop for C17 {
    fn id(&self) -> &'static str {
        "C17"
    }
    fn scheduled(&self) -> bool {
        true
    }
    fn runs(&self, tier: Tier) -> u64 {
        match tier {
            Tier::Quick => 7000,
            Tier::Thorough => 100_000,
        }
    }
    fn rule(&self) -> &'static str {
        "one run = one generated collection of 0-6 index files (0-40 pack listings, up to ~200 blob listings; fresh, duplicated, both-type, neighbouring (+-1 in the last byte), shared-prefix and special ids; empty packs; packs under packs_to_delete; \
         the same pack listed again with the other marking / another size / shifted offsets / fewer blobs; sizes present, absent (format-computed) or boundary values; a tenth of the runs with boundary offsets/lengths, a twelfth with packs mixing blob types), \
         written by the simulator's own JSON writer (plain or zstd, compact or pretty) and AEAD encoder into a SimStore beside a real config; then fault-free loads through Repository::to_indexed (x3, thorough x4), to_indexed_ids (x2), \
         to_indexed().drop_data_from_index() (x2) with rayon pool 1-3, each under its own seeded gate schedule of the index-file reads (a fifth of the runs FIFO-serial instead), then one load per position k of a failing index-file read and one with the \
         index listing failing (mode drawn). After each load has(), get_id() and total_size() are queried through the verif hooks for both types of every listed id, its +-1 neighbours, every pack id, 5 special ids and 24 random ids, and compared \
         with a map model of the collection (under a fault: Err accepted, an Ok load is judged like any other). evaluations = loads judged; non-trivial = a completed load of a collection with >= 2 index files and at least one \
         duplicate / both-type / marked listing; distinct = hash(collection, mode, order in which the index files were read, fault)"
    }
    fn assumptions(&self) -> Vec<&'static str> {
        vec![
            "a pack listing without `size` has the size the repository format gives it (blobs + 37/41-byte header entries + 36); collections where that exceeds u32 are not generated",
            "which type a pack without blobs counts towards is left open (only the sum over both types and the per-type bounds are asserted); packs mixing blob types are outside the domain: deviations explained by filing the pack under its first blob's type are counted, not flagged",
            "reduced modes: absence of data-blob answers (get_id in ids-only, has/get_id in trees-only) and the data size total of the trees-only mode are not asserted; an answer that is given must still be one of the listings",
            "under an injected read/list fault an Err of the load is accepted; an Ok load is judged like a fault-free one",
        ]
    }

    fn generate(&self, subseed: u64, tier: Tier) -> Value {
        let mut rng = Rng::new(subseed);
        let files = match rng.weighted(&[1, 6, 8, 8, 6, 5, 5]) {
            0 => 0,
            n => n,
        };
        let packs = match rng.weighted(&[1, 2, 6, 8, 6]) {
            0 => 0,
            1 => 1,
            2 => rng.range(2, 6) as usize,
            3 => rng.range(7, 20) as usize,
            _ => rng.range(21, 40) as usize,
        };
        let blobs = match rng.weighted(&[1, 3, 8, 8]) {
            0 => 0,
            1 => rng.range(1, 8) as usize,
            2 => rng.range(9, 70) as usize,
            _ => rng.range(71, 200) as usize,
        };
        let sched = rng.chance(4, 5);
        let spec = Spec {
            pool: *rng.pick(&[1usize, 2, 2, 3, 3, 3]),
            subseed,
            start_s: common::BASE_TIME_S + rng.range(0, 400 * 86400) as i64,
            version: if rng.chance(1, 4) { 1 } else { 2 },
            coll_seed: rng.next_u64(),
            files,
            packs,
            blobs,
            mixed: rng.chance(1, 12),
            boundary: rng.chance(1, 10),
            sched,
            force_fifo: false,
            full_loads: if tier == Tier::Thorough { 4 } else { 3 },
            reduced_loads: 2,
            faults: true,
            drop_files: vec![],
            drop_packs: vec![],
            only_load: None,
        };
        serde_json::to_value(spec).unwrap()
    }

    fn shrink(&self, spec: &Value) -> Vec<Value> {
        let s: Spec = serde_json::from_value(spec.clone()).unwrap();
        let mut out = vec![];
        let push = |out: &mut Vec<Value>, s: Spec| out.push(serde_json::to_value(s).unwrap());
        let coll = collection_of(&s);
        let plan_len = plan_of(&s, coll.len()).len();
        if s.only_load.is_none() {
            for i in 0..plan_len {
                let mut c = s.clone();
                c.only_load = Some(i);
                push(&mut out, c);
            }
        }
        for f in &coll {
            let mut c = s.clone();
            c.drop_files.push(f.ord);
            push(&mut out, c);
        }
        for f in &coll {
            for p in &f.packs {
                let mut c = s.clone();
                c.drop_packs.push(p.ord);
                push(&mut out, c);
            }
        }
        if s.sched && !s.force_fifo {
            let mut c = s.clone();
            c.force_fifo = true;
            push(&mut out, c);
        }
        if s.faults && s.only_load.is_none() {
            let mut c = s.clone();
            c.faults = false;
            push(&mut out, c);
        }
        out
    }

    fn exec(&self, spec: &Value, env: &Env) -> Report {
        let s: Spec = serde_json::from_value(spec.clone()).expect("spec");
        let mut rep = Report::default();
        common::run_setup(s.subseed, s.start_s);
        let _ = common::take_panics();
        let cfg = RepoCfg { version: s.version, ..RepoCfg::default() };
        let mut base = Sim::new(s.subseed, cfg, &env.cpus, "c17");
        match base.init() {
            Cmd::Ok(()) => {}
            r => {
                rep.harness_errors.push(format!("init failed: {}", r.detail()));
                return rep;
            }
        }
        let key = base.key.aead_key();
        let coll = collection_of(&s);
        let model = build_model(&coll);
        // write the collection; premise: every file decodes (own decoder) to the listing counts of the model
        let mut file_ids: BTreeMap<Id, usize> = BTreeMap::new();
        for f in &coll {
            let (id, data) = file_bytes(f, &key);
            let parsed = decode_file(&key, &data).and_then(|j| serde_json::from_slice::<IndexFile>(&j).map_err(|e| e.to_string()));
            match parsed {
                Ok(x) => {
                    let want = (f.packs.iter().filter(|p| !p.marked).count(), f.packs.iter().filter(|p| p.marked).count());
                    if (x.packs.len(), x.packs_to_delete.len()) != want {
                        rep.harness_errors.push(format!("written index file {} decodes to {:?} pack listings, wanted {want:?}", f.ord, (x.packs.len(), x.packs_to_delete.len())));
                        return rep;
                    }
                }
                Err(e) => {
                    rep.harness_errors.push(format!("written index file {} does not decode: {e}", f.ord));
                    return rep;
                }
            }
            if file_ids.insert(id, f.ord).is_some() {
                rep.harness_errors.push("two generated index files are byte-identical".to_string());
                return rep;
            }
            base.store.put_raw(FileType::Index, &id, data);
        }
        let files = base.store.files();
        rep.states.push(files_digest(&files));

        // queries: both types of every listed id, its neighbours, pack ids, special and random ids
        let mut qids: BTreeSet<Raw> = BTreeSet::new();
        for id in &model.listed_ids {
            let _ = qids.insert(*id);
            let _ = qids.insert(neighbour(id, true));
            let _ = qids.insert(neighbour(id, false));
        }
        qids.extend(model.pack_ids.iter().copied());
        qids.extend(special_ids());
        let mut qrng = Rng::new(s.coll_seed ^ 0x9e37);
        for _ in 0..24 {
            let _ = qids.insert(raw32(&mut qrng));
        }
        let queries: Vec<(bool, Raw)> = qids.iter().flat_map(|id| [(false, *id), (true, *id)]).collect();
        let queries_id: Vec<(bool, Id)> = queries.iter().map(|(t, r)| (*t, id_of_bytes(r))).collect();

        let plan = plan_of(&s, coll.len());
        let interesting = coll.len() >= 2 && (model.feat.contains_key("blob_in_several_packs") || model.feat.contains_key("id_under_both_types") || model.feat.contains_key("marked_pack"));
        let coll_hash = hash64(&[&s.coll_seed.to_le_bytes(), format!("{:?}{:?}{}{}{}{}{}", s.drop_files, s.drop_packs, s.files, s.packs, s.blobs, s.mixed, s.boundary).as_bytes()]);
        let mut digest_parts: Vec<Vec<u8>> = vec![];
        let mut tolerated: BTreeMap<&'static str, u64> = BTreeMap::new();
        let mut load_samples = vec![];
        let mut winners: Vec<BTreeMap<usize, Listing>> = vec![];
        let mut full_trace: Vec<(String, i64)> = vec![];
        for (li, load) in plan.iter().enumerate() {
            if s.only_load.is_some_and(|o| o != li) {
                continue;
            }
            let mut sl = base.fork(files.clone(), "c17-load");
            sl.rng = Rng::new(hash64(&[&s.subseed.to_le_bytes(), b"load", &(li as u64).to_le_bytes()]));
            let mode = if s.sched {
                if s.force_fifo {
                    Mode::Sched { policy: Policy::Fifo, clock: ClockSteps { jumps: false }, step_cap: 4000 }
                } else {
                    sl.draw_mode(true, &[1], false)
                }
            } else {
                Mode::Free
            };
            match load.fault {
                1 => sl.store.set_faults(vec![Fault::FailRead { actor: 1, tpe: ft_code(FileType::Index), k: load.k }]),
                2 => sl.store.set_faults(vec![Fault::FailList { actor: 1, tpe: ft_code(FileType::Index), k: 0 }]),
                _ => {}
            }
            let (store, k2, lm, q2) = (sl.store.clone(), sl.key.clone(), load.mode, queries_id.clone());
            let drain = load.fault != 0;
            let r = sl.run(&mode, move || {
                let repo = match repo_open(&store, 1, &k2) {
                    Ok(r) => r,
                    Err(e) => return Ok(LoadOut::OpenErr(etext(&e))),
                };
                let out = match lm {
                    LMode::Full => match repo.to_indexed() {
                        Ok(r) => LoadOut::Answers(answers(&r, &q2)),
                        Err(e) => LoadOut::LoadErr(etext(&e)),
                    },
                    LMode::Ids => match repo.to_indexed_ids() {
                        Ok(r) => LoadOut::Answers(answers(&r, &q2)),
                        Err(e) => LoadOut::LoadErr(etext(&e)),
                    },
                    LMode::Trees => match repo.to_indexed() {
                        Ok(r) => {
                            let r = r.drop_data_from_index();
                            LoadOut::Answers(answers(&r, &q2))
                        }
                        Err(e) => LoadOut::LoadErr(etext(&e)),
                    },
                };
                if drain {
                    // A refused load leaves loader threads parked at their read gates. Wait for them
                    // inside the command, so that they run out under the scheduler (their reads are
                    // part of the recorded schedule) instead of into the next load.
                    let _ = rayon::broadcast(|_| ());
                }
                Ok(out)
            });
            // order in which the index files were read
            // (after an injected fault the released loader threads go on reading in an order nobody controls)
            let order: Vec<usize> =
                sl.store.log().iter().take_while(|op| op.fault.is_none()).filter(|op| op.kind == OpKind::ReadFull && op.tpe == FileType::Index && op.ok).filter_map(|op| file_ids.get(&op.id).copied()).collect();

            let fault_fired = sl.store.fired().values().sum::<u64>() > 0;
            full_trace.extend(sl.trace.iter().cloned());
            sl.finish_report(&mut rep);
            rep.evaluations += 1;
            let fault_name = match load.fault {
                1 => "fail_read(index)",
                2 => "fail_list(index)",
                _ => "none",
            };
            let mut outcome = String::new();
            let mut answers_digest = 0u64;
            match r {
                Cmd::Ok(LoadOut::Answers(a)) => {
                    let devs = judge(&model, load.mode, &queries, &a, &mut tolerated);
                    if load.fault != 0 && fault_fired {
                        if devs.is_empty() {
                            rep.fire("load_ok_and_complete_despite_fault", 1);
                        } else {
                            let fp = format!("C17/silently-incomplete-index-after-fault:{}:{}", load.mode.name(), fault_name);
                            if !rep.violations.iter().any(|v| v.fingerprint == fp) {
                                rep.violation(fp, format!("load {li} ({}) returned Ok although {fault_name} (k={}) fired; first deviation: {}: {}", load.mode.name(), load.k, devs[0].0, devs[0].1));
                            }
                        }
                    } else {
                        for (fp, d) in devs {
                            let fp = format!("C17/{fp}");
                            if !rep.violations.iter().any(|v| v.fingerprint == fp) {
                                rep.violation(fp, format!("load {li} ({}; index files read in order {order:?}): {d}", load.mode.name()));
                            }
                        }
                    }
                    // which of several listings won
                    let mut w = BTreeMap::new();
                    for (qi, (t, id)) in queries.iter().enumerate() {
                        if model.strict.get(&(*t, *id)).is_some_and(|l| l.len() > 1) {
                            if let Some(l) = a.per[qi].1 {
                                let _ = w.insert(qi, l);
                            }
                        }
                    }
                    if load.fault == 0 && load.mode != LMode::Trees {
                        winners.push(w.clone());
                    }
                    let mut h: Vec<u8> = vec![];
                    for (has, get) in &a.per {
                        h.push(u8::from(*has));
                        if let Some(l) = get {
                            h.extend_from_slice(id_hex(&l.0).as_bytes());
                            h.extend_from_slice(&l.1.to_le_bytes());
                            h.extend_from_slice(&l.2.to_le_bytes());
                            h.extend_from_slice(&l.3.unwrap_or(0).to_le_bytes());
                        }
                    }
                    h.extend_from_slice(&a.total[0].to_le_bytes());
                    h.extend_from_slice(&a.total[1].to_le_bytes());
                    answers_digest = hash64(&[&h]);
                    digest_parts.push(h);
                    outcome.push_str("ok");
                }
                Cmd::Ok(LoadOut::LoadErr(e)) => {
                    if load.fault != 0 && fault_fired {
                        rep.fire("load_refused_under_fault", 1);
                    } else {
                        let fp = format!("C17/index-load-failed:{}:{}", load.mode.name(), classify(&e));
                        if !rep.violations.iter().any(|v| v.fingerprint == fp) {
                            rep.violation(fp, format!("load {li}: {e}"));
                        }
                    }
                    outcome = format!("err:{}", classify(&e));
                }
                Cmd::Ok(LoadOut::OpenErr(e)) => {
                    rep.harness_errors.push(format!("load {li}: repository does not open: {e}"));
                    outcome.push_str("open-err");
                }
                Cmd::Err(e) => {
                    rep.harness_errors.push(format!("load {li}: unexpected error {e}"));
                    outcome.push_str("err?");
                }
                Cmd::Panic(p) => {
                    let fp = format!("C17/panic:{}:{}", load.mode.name(), classify(&short_loc(&p)));
                    if !rep.violations.iter().any(|v| v.fingerprint == fp) {
                        rep.violation(fp, format!("load {li} (fault {fault_name}): {p}"));
                    }
                    outcome.push_str("panic");
                }
                Cmd::NoProgress => {
                    let fp = format!("C17/no-progress:{}:{}", load.mode.name(), if load.fault == 0 { "fault-free" } else { fault_name });
                    if !rep.violations.iter().any(|v| v.fingerprint == fp) {
                        rep.violation(fp, format!("load {li}: the load neither returned nor parked at a gate"));
                    }
                    outcome.push_str("no-progress");
                }
                Cmd::Harness(h) => {
                    rep.harness_errors.push(format!("load {li}: {h}"));
                    outcome.push_str("harness");
                }
            }
            digest_parts.push(format!("{li}:{}:{fault_name}:{outcome}:{order:?}", load.mode.name()).into_bytes());
            if interesting && outcome == "ok" {
                rep.nontrivial.push(hash64(&[&coll_hash.to_le_bytes(), load.mode.name().as_bytes(), format!("{order:?}").as_bytes(), fault_name.as_bytes()]));
            }
            if load_samples.len() < 16 && (li < 2 || load.mode != LMode::Full && li < s.full_loads + 2 || load.fault != 0 && load.k < 1) {
                load_samples.push(json!({"mode": load.mode.name(), "fault": fault_name, "k": load.k, "outcome": outcome.chars().take(60).collect::<String>(), "index_files_read_in_order": order, "answers_digest": format!("{:08x}", answers_digest >> 32), "policy": sl.policies.keys().next()}));
            }
        }
        // did the arrival order decide which duplicate is returned?
        if winners.len() >= 2 && winners.iter().any(|w| w.iter().any(|(k, v)| winners[0].get(k).is_some_and(|x| x != v))) {
            *rep.probes.entry("c17:duplicate_winner_differs_between_loads".to_string()).or_insert(0) += 1;
        }
        for (k, v) in &model.feat {
            *rep.probes.entry(format!("c17:gen:{k}")).or_insert(0) += v;
        }
        for (k, v) in &tolerated {
            rep.fire(k, *v);
        }
        let mut parts: Vec<&[u8]> = digest_parts.iter().map(Vec::as_slice).collect();
        let th = crate::harness::trace_hash(&full_trace).to_le_bytes();
        parts.push(&th);
        rep.trace_hash = hash64(&parts);
        rep.evaluations = rep.evaluations.max(1);
        rep.sample = json!({
            "index_files": coll.iter().map(|f| json!({
                "packs": f.packs.iter().filter(|p| !p.marked).count(),
                "packs_to_delete": f.packs.iter().filter(|p| p.marked).count(),
                "blobs": f.packs.iter().map(|p| p.blobs.len()).sum::<usize>(),
                "encoding": if f.zstd { "zstd" } else { "plain" },
            })).collect::<Vec<_>>(),
            "features": model.feat,
            "distinct_listed_blobs": model.strict.len(),
            "queries_per_load": queries.len(),
            "pool": s.pool, "scheduled": s.sched, "boundary_values": s.boundary, "mixed_packs": s.mixed,
            "loads": load_samples,
        });
        if !rep.violations.is_empty() || std::env::var("VERIF_KEEP_TRACE").is_ok() {
            rep.trace = full_trace;
        }
        rep
    }
}
