//! C10 Backups running concurrently with prune or each other stay intact.

use std::collections::BTreeMap;

use rustic_core::repofile::SnapshotFile;
use rustic_core::{BackupOptions, FileType, LimitOption, PruneOptions, RusticResult};
use serde::{Deserialize, Serialize};
use serde_json::{Value, json};

use crate::audit::{StoreView, id_hex};
use crate::common;
use crate::harness::{Env, Prop, Report, Tier};
use crate::interpose;
use crate::model::{FsModel, GenParams, ReadPlan, edit_model};
use crate::props::c01::build_model_min;
use crate::rng::{Rng, hash64};
use crate::sched::{ClockSteps, Mode, Policy};
use crate::sim::{Cmd, Sim, SnapRec};
use crate::store::{Op, OpKind, apply_ops, files_digest, ft_code};
use crate::world::{RepoCfg, backup_model, repo_open};

pub struct C10;

#[derive(Clone, Debug, Serialize, Deserialize)]
pub struct Spec {
    pub pool: usize,
    pub subseed: u64,
    pub kind: String, // backup-prune | prune-backup | backup-backup | backup-prune-prune
    pub cfg: RepoCfg,
    pub gen: GenParams,
    pub model_seed: u64,
    /// Some((j, l)): actor A runs j ops, then B runs l ops (usize::MAX = to the end), then A, then B
    pub segments: Option<(usize, usize)>,
    pub repack: bool,
    pub start_s: i64,
}

fn prune_opts(repack: bool, keep_delete_s: i64) -> PruneOptions {
    let mut o = PruneOptions::default().keep_delete(jiff::Span::new().seconds(keep_delete_s)).keep_pack(jiff::Span::new());
    if repack {
        o = o.max_unused(LimitOption::Percentage(0)).max_repack(LimitOption::Unlimited);
    } else {
        o = o.max_unused(LimitOption::Unlimited);
    }
    o
}

impl Prop for C10 {
    fn id(&self) -> &'static str {
        "C10"
    }
    fn scheduled(&self) -> bool {
        true
    }
    fn runs(&self, tier: Tier) -> u64 {
        match tier {
            Tier::Quick => 1200,
            Tier::Thorough => 25000,
        }
    }
    fn rule(&self) -> &'static str {
        "one run = two commands (backup||prune, prune||backup, backup||backup, backup||two prune runs in a row; a quarter of the runs with everything stored before older than keep-delete, a quarter with packs already marked by an earlier prune whose keep-delete time has passed) with their own repository handles on one SimStore, every backend call of both (reads included) a gate; \
         70% of runs use the actor-segmented policy (A runs j ops, then B runs l ops or to its end, then A, then B — j and l drawn over the whole op sequence), the rest random/PCT/starve policies; \
         the prune is non-instant with keep-delete far above the simulated duration of the overlap; overlapping sources share content so the late backup re-uses blobs from packs the prune marks. \
         Oracles: at every prefix of the combined mutation log that removes a pack or publishes a snapshot, every blob referenced by a visible snapshot is physically present in a stored pack; \
         both commands finish (bounded liveness); after a further prune (still inside keep-delete; in a third of the runs skipped, so that the next prune runs only after the marks expired) check(read_data) is clean and every snapshot reads back equal to its model (backup||backup: without that prune); \
         the same after the clock passed keep-delete and another prune ran. evaluations = prefix audits + end oracles; non-trivial = the two actors' ops actually interleaved; distinct = hash(kind, model, trace)"
    }
    fn assumptions(&self) -> Vec<&'static str> {
        vec!["keep-delete (1 day) exceeds the simulated duration of every overlap (seconds to minutes), which is the property's premise"]
    }

    fn generate(&self, subseed: u64, _tier: Tier) -> Value {
        let mut rng = Rng::new(subseed);
        let mut cfg = RepoCfg::gen_small(&mut rng);
        if cfg.compression.is_some_and(|c| c > 3) {
            cfg.compression = Some(1);
        }
        let mut genp = GenParams::default();
        genp.max_entries = 6;
        genp.max_file = 30_000;
        genp.total_cap = 80_000;
        genp.special = false;
        genp.sizes_of_interest = vec![4096];
        let kind = ["backup-prune", "prune-backup", "backup-backup", "backup-prune-prune"][rng.usize(4)].to_string();
        let segments = if rng.chance(7, 10) {
            let j = rng.range(0, 22) as usize;
            let l = if rng.chance(1, 2) { usize::MAX } else { rng.range(1, 22) as usize };
            Some((j, l))
        } else {
            None
        };
        let spec = Spec { pool: *rng.pick(&[1usize, 2]), subseed, kind, cfg, gen: genp, model_seed: rng.next_u64(), segments, repack: rng.chance(2, 3), start_s: common::BASE_TIME_S + rng.range(0, 400 * 86400) as i64 };
        serde_json::to_value(spec).unwrap()
    }

    fn shrink(&self, spec: &Value) -> Vec<Value> {
        let s: Spec = serde_json::from_value(spec.clone()).unwrap();
        let mut out = vec![];
        if let Some((j, l)) = s.segments {
            for (j2, l2) in [(j / 2, l), (j.saturating_sub(1), l), (j, if l == usize::MAX { l } else { l / 2 })] {
                if (j2, l2) != (j, l) {
                    let mut c = s.clone();
                    c.segments = Some((j2, l2));
                    out.push(serde_json::to_value(c).unwrap());
                }
            }
        }
        out
    }

    #[allow(clippy::too_many_lines)]
    fn exec(&self, spec: &Value, env: &Env) -> Report {
        let s: Spec = serde_json::from_value(spec.clone()).expect("spec");
        let mut rep = Report::default();
        common::run_setup(s.subseed, s.start_s);
        let mut rng = Rng::new(s.subseed ^ 0xc10);
        let mut sim = Sim::new(s.subseed, s.cfg.clone(), &env.cpus, "c10");
        if let Cmd::Err(e) = sim.init() {
            rep.sample = json!({"skipped": "configuration refused by init", "error": e});
            rep.evaluations = 1;
            return rep;
        }
        let plan = ReadPlan { frag: vec![0, 4097], eintr_every: 0, gate_reads_every: 0 };
        // pre-state: three snapshots of an evolving source, the first one (or two) forgotten
        let m0 = build_model_min(&s.gen, s.model_seed, &[], s.start_s, 2);
        let mut m1 = m0.clone();
        let _ = edit_model(&mut Rng::new(s.model_seed ^ 1), &mut m1, &s.gen, s.start_s + 100, 3);
        let mut m2 = m1.clone();
        let _ = edit_model(&mut Rng::new(s.model_seed ^ 2), &mut m2, &s.gen, s.start_s + 200, 3);
        // the concurrent backups: overlap with *forgotten* content (m0) as well as with kept content
        let mut ma = m0.clone();
        let _ = edit_model(&mut Rng::new(s.model_seed ^ 3), &mut ma, &s.gen, s.start_s + 300, 2);
        let mut mb = m2.clone();
        let _ = edit_model(&mut Rng::new(s.model_seed ^ 4), &mut mb, &s.gen, s.start_s + 300, 2);
        let mut ids = vec![];
        for m in [&m0, &m1, &m2] {
            match sim.backup(&Mode::Free, m, 1, &BackupOptions::default(), &plan, "c10") {
                Cmd::Ok(snap) => ids.push(id_hex(&snap.id)),
                r => {
                    rep.violation(format!("C10/prestate-backup-{}", r.class()), r.detail());
                    return rep;
                }
            }
            interpose::clock_advance(60_000_000_000);
        }
        let nforget = 1 + rng.usize(2);
        if let r @ (Cmd::Err(_) | Cmd::Panic(_) | Cmd::NoProgress | Cmd::Harness(_)) = sim.forget(&Mode::Free, 1, &ids[..nforget].to_vec()) {
            rep.violation(format!("C10/prestate-forget-{}", r.class()), r.detail());
            return rep;
        }
        // in half of the runs everything stored so far is older than keep-delete when the overlap begins
        // (keep-delete counts from the moment a pack is marked, not from its creation)
        let keep_delete_s = 86_400;
        match rng.usize(4) {
            0 | 1 => {}
            2 => {
                interpose::clock_advance(3 * 86_400_000_000_000);
                rep.fire("prestate_older_than_keep_delete", 1);
            }
            _ => {
                // an earlier prune has already marked the packs of the forgotten content, and their
                // keep-delete time has passed when the overlap begins: the concurrent prune may remove them,
                // the concurrent backup (whose source shares that content) must not rely on them
                if let r @ (Cmd::Err(_) | Cmd::Panic(_) | Cmd::NoProgress | Cmd::Harness(_)) = sim.prune(&Mode::Free, 1, &prune_opts(s.repack, keep_delete_s)) {
                    rep.violation(format!("C10/prestate-prune-{}", r.class()), r.detail());
                    return rep;
                }
                interpose::clock_advance(3 * 86_400_000_000_000);
                rep.fire("prestate_with_marked_packs_past_keep_delete", 1);
            }
        }
        let s0 = sim.store.files();

        // ---------- the concurrent phase
        let policy = match s.segments {
            Some((j, l)) => Policy::Segments(vec![(1, j), (2, l), (1, usize::MAX), (2, usize::MAX)]),
            None => Policy::draw(&mut rng, &[0, 1, 2]),
        };
        let mode = Mode::Sched { policy, clock: ClockSteps { jumps: false }, step_cap: 6000 };
        let (store, key, sched, seed) = (sim.store.clone(), sim.key.clone(), sim.sched.clone(), sim.seed);
        let kind = s.kind.clone();
        let (ma2, mb2, plan2, repack) = (ma.clone(), mb.clone(), plan.clone(), s.repack);
        sim.store.clear_log();
        let t_start = interpose::clock_now();
        type Pair = (RusticResult<Option<SnapshotFile>>, RusticResult<Option<SnapshotFile>>);
        // a command that gives up with Err (allowed, see below) leaves TreeStreamerOnce loader threads whose
        // send().unwrap() panics once the consumer is gone: such background panics are judged after the
        // results are known (flagged only when both commands returned Ok)
        sim.strict_bg_panics = false;
        let bg0 = sim.bg_panics.len();
        let r: Cmd<Pair> = sim.run(&mode, move || {
            let do_backup = |actor: u32, m: FsModel, label: &'static str| -> RusticResult<Option<SnapshotFile>> {
                let repo = repo_open(&store, actor, &key)?.to_indexed_ids()?;
                Ok(Some(backup_model(&repo, &m, &sched, actor, &plan2, seed, &BackupOptions::default(), label)?.snap))
            };
            let twice = kind == "backup-prune-prune";
            let do_prune = |actor: u32| -> RusticResult<Option<SnapshotFile>> {
                // backup-prune-prune: two complete non-instant prune runs (fresh handles) while the backup is in progress
                for _ in 0..(if twice { 2 } else { 1 }) {
                    let repo = repo_open(&store, actor, &key)?;
                    let o = prune_opts(repack, keep_delete_s);
                    let p = repo.prune_plan(&o)?;
                    repo.prune(&o, p)?;
                }
                Ok(None)
            };
            let (a_backs_up, b_backs_up) = match kind.as_str() {
                "backup-prune" | "backup-prune-prune" => (true, false),
                "prune-backup" => (false, true),
                _ => (true, true),
            };
            let pair = std::thread::scope(|sc| {
                let ha = sc.spawn(|| if a_backs_up { do_backup(1, ma2.clone(), "c10a") } else { do_prune(1) });
                let hb = sc.spawn(|| if b_backs_up { do_backup(2, mb2.clone(), "c10b") } else { do_prune(2) });
                (ha.join(), hb.join())
            });
            match pair {
                (Ok(a), Ok(b)) => Ok((a, b)),
                _ => panic!("an actor thread panicked"),
            }
        });
        let overlap_s = (interpose::clock_now() - t_start) / 1_000_000_000;
        let log: Vec<Op> = sim.store.log();
        let (ra, rb) = match r {
            Cmd::Ok(p) => p,
            r => {
                // a hang or panic of either command under concurrency is a violation of its own
                rep.violation(format!("C10/{}-{}", s.kind, r.class()), r.detail());
                sim.finish_report(&mut rep);
                rep.trace = sim.trace.clone();
                return rep;
            }
        };
        sim.strict_bg_panics = true;
        if sim.bg_panics.len() > bg0 {
            if ra.is_ok() && rb.is_ok() {
                let p = sim.bg_panics[bg0].clone();
                rep.violation(format!("C10/{}-panic:{}", s.kind, common::classify(&common::short_loc(&p))), format!("panic of a library thread although both commands returned Ok: {p}"));
                sim.finish_report(&mut rep);
                rep.trace = sim.trace.clone();
                return rep;
            }
            rep.fire("background_thread_panic_after_a_command_gave_up", (sim.bg_panics.len() - bg0) as u64);
        }
        let mut evaluations = 0u64;
        let mut new_models: BTreeMap<String, FsModel> = BTreeMap::new();
        for (res, who, m) in [(&ra, "A", &ma), (&rb, "B", &mb)] {
            match res {
                Ok(Some(snap)) => {
                    let _ = new_models.insert(id_hex(&snap.id), m.clone());
                    let _ = sim.snaps.insert(id_hex(&snap.id), SnapRec { snap: snap.clone(), model: m.clone() });
                }
                Ok(None) => {}
                Err(e) => {
                    // A command that notices the other one (an index file or tree it listed is gone or
                    // not yet indexed) may give up with an error: nothing is lost by that. Counted, not flagged.
                    let _ = who;
                    rep.fire(&format!("command_gave_up:{}", common::classify(&common::etext(e)).chars().take(60).collect::<String>()), 1);
                }
            }
        }
        // did the actors interleave?
        let muts: Vec<&Op> = log.iter().filter(|o| o.kind.is_mutation()).collect();
        let switches = log.windows(2).filter(|w| w[0].actor != w[1].actor).count();

        // ---------- prefix audits: physical presence of everything referenced by visible snapshots
        let key = sim.key.aead_key();
        let all_mut: Vec<Op> = muts.iter().map(|o| (*o).clone()).collect();
        for k in 1..=all_mut.len() {
            let op = &all_mut[k - 1];
            let relevant = (op.kind == OpKind::Remove && op.tpe == FileType::Pack) || (op.tpe == FileType::Snapshot && op.kind != OpKind::Remove) || k == all_mut.len();
            if !relevant {
                continue;
            }
            let mut files = s0.clone();
            apply_ops(&mut files, &all_mut[..k]);
            rep.states.push(files_digest(&files));
            evaluations += 1;
            let view = StoreView::build(&key, &files);
            for (sid, snap) in &view.snapshots {
                if let Err(e) = view.reachable(&key, &files, &snap.tree) {
                    rep.violation(
                        format!("C10/{}:referenced-blob-physically-missing [after {} {}]", s.kind, op.kind.short(), crate::store::ft_name(op.tpe)),
                        format!("after mutation op {k} of {} ({}): snapshot {}: {e}", all_mut.len(), op.label(), id_hex(sid)),
                    );
                    break;
                }
            }
            if !rep.violations.is_empty() {
                break;
            }
        }

        // ---------- end oracles
        // in a third of the runs the next prune comes only after the marks have expired: it must still bring
        // back what the late backup re-used, not delete it
        let late_first = s.kind != "backup-backup" && rng.chance(1, 3);
        if late_first {
            rep.fire("next_prune_only_after_keep_delete_expired", 1);
        }
        if rep.violations.is_empty() && !late_first {
            if s.kind != "backup-backup" {
                // still inside keep-delete: a further prune brings back what the late backup re-used
                if let r @ (Cmd::Err(_) | Cmd::Panic(_) | Cmd::NoProgress | Cmd::Harness(_)) = sim.prune(&Mode::Free, 3, &prune_opts(s.repack, keep_delete_s)) {
                    rep.violation(format!("C10/{}:follow-up-prune-{}", s.kind, r.class()), r.detail());
                }
            }
            evaluations += 1;
            for (fp, d) in sim.verify(true) {
                rep.violation(format!("C10/{}:after-follow-up:{fp}", s.kind), d);
            }
        }
        if rep.violations.is_empty() {
            interpose::clock_advance((keep_delete_s + 3600) * 1_000_000_000);
            if let r @ (Cmd::Err(_) | Cmd::Panic(_) | Cmd::NoProgress | Cmd::Harness(_)) = sim.prune(&Mode::Free, 3, &prune_opts(true, keep_delete_s)) {
                rep.violation(format!("C10/{}:late-prune-{}", s.kind, r.class()), r.detail());
            }
            evaluations += 1;
            for (fp, d) in sim.verify(true) {
                rep.violation(format!("C10/{}:after-keep-delete-passed:{fp}", s.kind), d);
            }
        }
        sim.finish_report(&mut rep);
        rep.evaluations = evaluations.max(1);
        if switches >= 2 {
            rep.nontrivial.push(hash64(&[s.kind.as_bytes(), &s.model_seed.to_le_bytes(), &rep.trace_hash.to_le_bytes()]));
        }
        rep.fire("actor_switches", switches as u64);
        rep.sample = json!({
            "kind": s.kind, "segments": s.segments, "repack": s.repack, "config": s.cfg.describe(), "overlap_simulated_s": overlap_s, "keep_delete_s": keep_delete_s,
            "ops": log.len(), "mutations": all_mut.len(), "actor_switches": switches,
            "op_log_head": log.iter().take(30).map(|o| o.label()).collect::<Vec<_>>(),
        });
        if !rep.violations.is_empty() {
            rep.trace = sim.trace.clone();
        }
        let _ = ft_code(FileType::Pack);
        rep
    }
}
