//! C12 Copy, merge, rewrite and repair preserve all content they keep.

use std::cmp::Ordering;
use std::collections::{BTreeMap, BTreeSet};
use std::os::unix::ffi::OsStrExt;

use rustic_core::repofile::{BlobType, Node, SnapshotFile};
use rustic_core::{BackupOptions, FileType, Id, KeyOptions, RepairIndexOptions, RepairSnapshotsOptions, RewriteOptions, RewriteTreesOptions, RusticResult, last_modified_node};
use serde::{Deserialize, Serialize};
use serde_json::{Value, json};

use crate::audit::{StoreView, id_hex};
use crate::common;
use crate::harness::{Env, Prop, Report, Tier};
use crate::interpose;
use crate::model::{Entry, FsModel, GenParams, Kind, PathKey, ReadPlan, default_entry, edit_model, key_of, show_key};
use crate::props::c01::build_model_min;
use crate::readback::{ReadBack, ReadBackOpts, list_snapshot, read_back};
use crate::rng::{Rng, hash64};
use crate::sched::{Mode, Sched};
use crate::sim::{Cmd, Sim};
use crate::store::{OpKind, SimStore, files_digest};
use crate::world::{ChunkerCfg, KeyMat, RepoCfg, config_for, repo_on, repo_open, snap_template};

pub struct C12;

#[derive(Clone, Debug, Serialize, Deserialize)]
pub struct Spec {
    pub pool: usize,
    pub subseed: u64,
    pub kind: String, // copy | merge | rewrite | repair
    pub cfg: RepoCfg,
    pub gen: GenParams,
    pub model_seed: u64,
    pub nsnaps: usize,
    pub scheduled: bool,
    pub variant: u64,
    pub start_s: i64,
}

/// reference merge of models; None if a tie between different entries makes the winner ambiguous
fn ref_merge(models: &[&FsModel], oldest_wins: bool) -> Option<FsModel> {
    fn rec(out: &mut FsModel, dir: &PathKey, cands: &[&FsModel], oldest_wins: bool) -> bool {
        let mut names: BTreeSet<Vec<u8>> = BTreeSet::new();
        for m in cands {
            for k in m.entries.keys() {
                if k.len() == dir.len() + 1 && k[..dir.len()] == dir[..] {
                    let _ = names.insert(k.last().unwrap().clone());
                }
            }
        }
        for name in names {
            let mut k = dir.clone();
            k.push(name);
            let entries: Vec<(&FsModel, &Entry)> = cands.iter().filter_map(|m| m.entries.get(&k).map(|e| (*m, e))).collect();
            let better = |a: &Entry, b: &Entry| if oldest_wins { a.mtime < b.mtime } else { a.mtime > b.mtime };
            let mut win = entries[0].1;
            for (_, e) in &entries[1..] {
                if better(e, win) {
                    win = e;
                }
            }
            // ambiguity: another candidate with the same mtime but different content
            if entries.iter().any(|(_, e)| e.mtime == win.mtime && *e != win) {
                return false;
            }
            let _ = out.entries.insert(k.clone(), win.clone());
            if win.kind == Kind::Dir {
                let dirs: Vec<&FsModel> = entries.iter().filter(|(_, e)| e.kind == Kind::Dir).map(|(m, _)| *m).collect();
                if !rec(out, &k, &dirs, oldest_wins) {
                    return false;
                }
            }
        }
        true
    }
    let mut out = FsModel::default();
    rec(&mut out, &vec![], models, oldest_wins).then_some(out)
}

/// does `name` match the plain exclude grammar: "*.ext" or an exact basename
fn glob_matches(glob: &str, name: &[u8]) -> bool {
    if let Some(ext) = glob.strip_prefix('*') {
        name.ends_with(ext.as_bytes()) && name.len() >= ext.len()
    } else {
        name == glob.as_bytes()
    }
}

fn excluded(k: &PathKey, globs: &[String]) -> bool {
    globs.iter().any(|g| match g.strip_prefix('/') {
        // anchored literal path: the entry itself and everything below it
        Some(path) => {
            let comps: Vec<&[u8]> = path.split('/').map(str::as_bytes).collect();
            k.len() >= comps.len() && comps.iter().zip(k.iter()).all(|(a, b)| *a == b.as_slice())
        }
        None => k.iter().any(|c| glob_matches(g, c)),
    })
}

/// Adds directories `pairA` and `pairB` (names made unique) with identical content and metadata:
/// files, a sub-directory with a file. Returns paths inside `pairA` suitable for an anchored exclude.
fn add_twin_dirs(rng: &mut Rng, model: &mut FsModel, now_s: i64) -> Vec<PathKey> {
    let mut a: Vec<u8> = b"pairA".to_vec();
    let mut b: Vec<u8> = b"pairB".to_vec();
    while model.entries.contains_key(&vec![a.clone()]) || model.entries.contains_key(&vec![b.clone()]) {
        a.push(b'_');
        b.push(b'_');
    }
    let dir = default_entry(rng, Kind::Dir, now_s);
    let sub = default_entry(rng, Kind::Dir, now_s);
    let mut files: Vec<(Vec<Vec<u8>>, Entry)> = vec![];
    let nfiles = rng.range(1, 3) as usize;
    for i in 0..nfiles {
        let name = [&b"secret.txt"[..], b"keep.bin", b"notes.log"][i].to_vec();
        let len = *rng.pick(&[0usize, 1, 300, 5000, 20_000]);
        let data = rng.bytes(len);
        let mut e = default_entry(rng, Kind::File(std::sync::Arc::new(data)), now_s);
        e.inode = 900_000 + i as u64;
        files.push((vec![name], e));
    }
    let data = rng.bytes(700);
    let mut e = default_entry(rng, Kind::File(std::sync::Arc::new(data)), now_s);
    e.inode = 900_010;
    files.push((vec![b"sub".to_vec(), b"inner.txt".to_vec()], e));
    let mut picks = vec![];
    for top in [&a, &b] {
        let _ = model.entries.insert(vec![top.clone()], dir.clone());
        let _ = model.entries.insert(vec![top.clone(), b"sub".to_vec()], sub.clone());
        for (rel, e) in &files {
            let mut k = vec![top.clone()];
            k.extend(rel.iter().cloned());
            let _ = model.entries.insert(k, e.clone());
        }
    }
    for (rel, _) in &files {
        let mut k = vec![a.clone()];
        k.extend(rel.iter().cloned());
        picks.push(k);
    }
    picks.push(vec![a.clone(), b"sub".to_vec()]);
    // also the other twin, so that both visiting orders are exercised
    picks.push(vec![b.clone(), files[0].0[0].clone()]);
    picks
}

/// find the snapshot in `listed` that corresponds to a source snapshot (same tree and time)
fn find_copy<'a>(listed: &'a [SnapshotFile], src: &SnapshotFile) -> Option<&'a SnapshotFile> {
    listed.iter().find(|s| s.tree == src.tree && s.time == src.time)
}

impl Prop for C12 {
    fn id(&self) -> &'static str {
        "C12"
    }
    fn scheduled(&self) -> bool {
        true
    }
    fn runs(&self, tier: Tier) -> u64 {
        match tier {
            Tier::Quick => 6000,
            Tier::Thorough => 100000,
        }
    }
    fn rule(&self) -> &'static str {
        "one kind per run on a repository holding 2-4 snapshots of an evolving source (edit scripts incl. type changes by re-generation, tree-colliding content, shared blobs). \
         copy: into a destination with another key, version/compression, pack sizes, same or different chunker, empty or already holding some of the snapshots, copying a seeded subset then the rest, in a third of the runs followed by the loss of a destination pack, repair_index there, forgetting the copies there and copying all snapshots again (healing): every copied snapshot reads back in the destination equal to its source model, destination check(read_data) clean. \
         merge: 2-4 snapshots under last_modified_node or oldest-wins; the merged snapshot reads back equal to a reference merge on the models (per name the winner by the ordering; if the winner is a directory all directory candidates are merged recursively); runs with ambiguous ties are skipped. \
         rewrite: exclude sets from a plain grammar (!*.ext, !basename, !/anchored/path of an entry; in half of the runs the source holds two directories with identical subtrees - one tree blob under two paths - and an exclude anchored inside one of them); result equals the model minus matches, everything else bit-identical incl. metadata; with forget the original is gone, without both exist; an exclude set that matches nothing writes nothing. \
         repair: on an undamaged repository repair_snapshots writes nothing; after losing one data or tree pack (then repair_index, as documented) every file the repaired snapshot keeps under its own name has exactly its original content, and the repaired snapshot reads completely. \
         evaluations = snapshots compared; non-trivial = copy moved >= 1 pack / merge inputs overlap in >= 1 name with differing entries / rewrite removed >= 1 entry / repair marked >= 1 file; distinct = hash(kind, models, options)"
    }
    fn assumptions(&self) -> Vec<&'static str> {
        vec![
            "names are plain ASCII in this scenario (merge orders nodes by escaped name, rewrite globs would treat metacharacters specially); C01 covers arbitrary-byte names",
            "merge orderings are last_modified_node and its reverse; an ordering that ties on different entries has no defined winner and such runs are skipped",
        ]
    }

    fn generate(&self, subseed: u64, _tier: Tier) -> Value {
        let mut rng = Rng::new(subseed);
        let mut cfg = RepoCfg::gen_small(&mut rng);
        if cfg.compression.is_some_and(|c| c > 3) {
            cfg.compression = Some(1);
        }
        let mut genp = GenParams::default();
        genp.max_entries = 9;
        genp.max_file = 40_000;
        genp.total_cap = 150_000;
        genp.weird_names = false;
        genp.hardlinks = false;
        genp.sizes_of_interest = vec![4096];
        let spec = Spec {
            pool: *rng.pick(&[1usize, 2, 3]),
            subseed,
            kind: ["copy", "merge", "rewrite", "repair"][rng.usize(4)].to_string(),
            cfg,
            gen: genp,
            model_seed: rng.next_u64(),
            nsnaps: rng.range(2, 4) as usize,
            scheduled: rng.chance(1, 4),
            variant: rng.next_u64(),
            start_s: common::BASE_TIME_S + rng.range(0, 400 * 86400) as i64,
        };
        serde_json::to_value(spec).unwrap()
    }

    fn shrink(&self, spec: &Value) -> Vec<Value> {
        let s: Spec = serde_json::from_value(spec.clone()).unwrap();
        let mut out = vec![];
        if s.nsnaps > 2 {
            let mut c = s.clone();
            c.nsnaps -= 1;
            out.push(serde_json::to_value(c).unwrap());
        }
        if s.scheduled {
            let mut c = s.clone();
            c.scheduled = false;
            out.push(serde_json::to_value(c).unwrap());
        }
        out
    }

    #[allow(clippy::too_many_lines)]
    fn exec(&self, spec: &Value, env: &Env) -> Report {
        let s: Spec = serde_json::from_value(spec.clone()).expect("spec");
        let mut rep = Report::default();
        common::run_setup(s.subseed, s.start_s);
        let mut rng = Rng::new(s.subseed ^ 0xc12);
        let mut sim = Sim::new(s.subseed, s.cfg.clone(), &env.cpus, "c12");
        if let Cmd::Err(e) = sim.init() {
            rep.sample = json!({"skipped": "configuration refused by init", "error": e});
            rep.evaluations = 1;
            return rep;
        }
        let plan = ReadPlan { frag: vec![0, 4097], eintr_every: 0, gate_reads_every: 0 };
        // ---------- source snapshots
        let mut model = build_model_min(&s.gen, s.model_seed, &[], s.start_s, 3);
        let mut twin_paths: Vec<PathKey> = vec![];
        if s.kind == "rewrite" && rng.chance(1, 2) {
            // two directories with identical subtrees (one tree blob reachable under two paths), so that an
            // exclude anchored at one path must not touch the other
            twin_paths = add_twin_dirs(&mut rng, &mut model, s.start_s);
        }
        let mut snaps: Vec<(SnapshotFile, FsModel)> = vec![];
        for g in 0..s.nsnaps {
            if g > 0 {
                let now = interpose::clock_now() / 1_000_000_000;
                if s.kind == "merge" && rng.chance(1, 3) {
                    // an unrelated tree with overlapping names of possibly different types
                    model = build_model_min(&s.gen, s.model_seed.wrapping_add(g as u64 * 1000), &[], now, 2);
                } else {
                    let _ = edit_model(&mut rng, &mut model, &s.gen, now, 4);
                }
            }
            match sim.backup(&Mode::Free, &model.clone(), 1, &BackupOptions::default(), &plan, "c12") {
                Cmd::Ok(sn) => snaps.push((sn, model.clone())),
                r => {
                    rep.violation(format!("C12/source-backup-{}", r.class()), r.detail());
                    return rep;
                }
            }
            interpose::clock_advance(3_600_000_000_000);
        }
        let mode = sim.draw_mode(s.scheduled, &[0, 1], false);
        let mut evaluations = 0u64;
        let mut nontrivial = false;
        let mut sample = json!({});
        let (store, key) = (sim.store.clone(), sim.key.clone());
        match s.kind.as_str() {
            "copy" => {
                let dkey = KeyMat::from_seed(s.subseed ^ 0xd57);
                let dstore = SimStore::new("c12-dst", sim.sched.clone());
                let mut dcfg = RepoCfg::gen_small(&mut rng);
                if dcfg.compression.is_some_and(|c| c > 3) {
                    dcfg.compression = Some(2);
                }
                if s.variant % 2 == 0 {
                    dcfg.chunker = s.cfg.chunker.clone();
                } else if dcfg.chunker == ChunkerCfg::Default {
                    dcfg.chunker = ChunkerCfg::Fixed { size: 8192 };
                }
                let (ds, dk, dc) = (dstore.clone(), dkey.clone(), dcfg.clone());
                if let r @ (Cmd::Err(_) | Cmd::Panic(_) | Cmd::NoProgress | Cmd::Harness(_)) =
                    sim.run(&Mode::Free, move || repo_on(ds.handle(2), None, None)?.init_with_config(&dk.creds(), &KeyOptions::default(), config_for(&dk, &dc)?).map(|_| ()))
                {
                    rep.sample = json!({"skipped": "destination init refused", "error": r.detail()});
                    rep.evaluations = 1;
                    return rep;
                }
                // first a subset (destination then already holds some blobs), then everything
                let first: Vec<SnapshotFile> = snaps.iter().enumerate().filter(|(i, _)| (s.variant >> (8 + i)) & 1 == 1).map(|(_, x)| x.0.clone()).collect();
                let all: Vec<SnapshotFile> = snaps.iter().map(|x| x.0.clone()).collect();
                let log0 = dstore.log_len();
                for (round, set) in [first, all].into_iter().enumerate() {
                    if set.is_empty() {
                        continue;
                    }
                    let (st, ky, ds, dk) = (store.clone(), key.clone(), dstore.clone(), dkey.clone());
                    let m = if round == 1 { mode.clone() } else { Mode::Free };
                    let r = sim.run(&m, move || {
                        let src = repo_open(&st, 1, &ky)?.to_indexed()?;
                        let dst = repo_on(ds.handle(2), None, None)?.open(&dk.creds())?.to_indexed_ids()?;
                        let rel = dst.relevant_copy_snapshots(|_| true, &set)?;
                        let todo: Vec<SnapshotFile> = rel.into_iter().filter(|c| c.relevant).map(|c| c.sn).collect();
                        src.copy(&dst, todo.iter())
                    });
                    if !r.is_ok() {
                        rep.violation(format!("C12/copy-{}", r.class()), r.detail());
                    }
                }
                // healing by copying again: the destination loses a pack (its index is repaired, so the blobs are
                // known to be gone), then all snapshots are copied once more - root trees that are still there
                // must not make copy skip what lies below them
                if rng.chance(1, 3) && rep.violations.is_empty() {
                    let packs = dstore.list_ids(FileType::Pack);
                    if !packs.is_empty() {
                        let victim = packs[rng.usize(packs.len())];
                        let _ = dstore.remove_raw(FileType::Pack, &victim);
                        rep.fire("destination_pack_lost_before_copying_again", 1);
                        let (ds, dk) = (dstore.clone(), dkey.clone());
                        let r = sim.run(&Mode::Free, move || repo_on(ds.handle(2), None, None)?.open(&dk.creds())?.repair_index(&rustic_core::RepairIndexOptions::default(), false));
                        if !r.is_ok() {
                            rep.violation(format!("C12/copy-heal-repair-index-{}", r.class()), r.detail());
                        }
                        // the damaged copies are forgotten in the destination (no prune), then copied again
                        let all2: Vec<SnapshotFile> = snaps.iter().map(|x| x.0.clone()).collect();
                        let (st, ky, ds, dk) = (store.clone(), key.clone(), dstore.clone(), dkey.clone());
                        let r = sim.run(&Mode::Free, move || {
                            let dst = repo_on(ds.handle(2), None, None)?.open(&dk.creds())?;
                            let ids: Vec<_> = dst.get_all_snapshots()?.iter().map(|s| s.id).collect();
                            dst.delete_snapshots(&ids)?;
                            let src = repo_open(&st, 1, &ky)?.to_indexed()?;
                            let dst = dst.to_indexed_ids()?;
                            let rel = dst.relevant_copy_snapshots(|_| true, &all2)?;
                            let todo: Vec<SnapshotFile> = rel.into_iter().filter(|c| c.relevant).map(|c| c.sn).collect();
                            src.copy(&dst, todo.iter())
                        });
                        if !r.is_ok() {
                            rep.violation(format!("C12/copy-again-{}", r.class()), r.detail());
                        }
                    }
                }
                let packs_written = dstore.log_from(log0).iter().filter(|o| o.tpe == FileType::Pack && o.kind == OpKind::Write).count();
                nontrivial = packs_written > 0;
                rep.fire("packs_written_in_destination", packs_written as u64);
                // read back in the destination
                let (ds, dk) = (dstore.clone(), dkey.clone());
                let expect: Vec<(SnapshotFile, FsModel)> = snaps.clone();
                let mut r2 = rng.fork("rb");
                let r = sim.run(&Mode::Free, move || -> RusticResult<Vec<(String, String)>> {
                    let mut f = vec![];
                    let dst = repo_on(ds.handle(3), None, None)?.open(&dk.creds())?.to_indexed()?;
                    let listed = dst.get_all_snapshots()?;
                    if listed.len() != expect.len() {
                        f.push(("copy:snapshot-count".to_string(), format!("destination lists {} snapshots, {} were copied", listed.len(), expect.len())));
                    }
                    for (src, model) in &expect {
                        match find_copy(&listed, src) {
                            None => f.push(("copy:snapshot-missing-in-destination".to_string(), format!("source snapshot {}", id_hex(&src.id)))),
                            Some(c) => match read_back(&dst, c, model, &ReadBackOpts::default(), &mut r2) {
                                ReadBack::Equal => {}
                                rb @ ReadBack::Err(..) => f.push(("copy:copied-snapshot-unreadable".to_string(), format!("copy of {}: {}", id_hex(&src.id), rb.short()))),
                                rb => f.push(("copy:copied-snapshot-differs".to_string(), format!("copy of {}: {}", id_hex(&src.id), rb.short()))),
                            },
                        }
                    }
                    match dst.check(rustic_core::CheckOptions::default().read_data(true)) {
                        Ok(res) => {
                            let errs = common::check_errors(&res);
                            if let Some(e) = errs.first() {
                                f.push((format!("copy:destination-check-error:{}", common::classify(e)), errs.join(" | ")));
                            }
                        }
                        Err(e) => f.push(("copy:destination-check-failed".to_string(), common::etext(&e))),
                    }
                    Ok(f)
                });
                evaluations += snaps.len() as u64;
                match r {
                    Cmd::Ok(f) => {
                        for (fp, d) in f {
                            rep.violation(format!("C12/{fp}"), d);
                        }
                    }
                    r => rep.violation(format!("C12/copy-readback-{}", r.class()), r.detail()),
                }
                rep.states.push(files_digest(&dstore.files()));
                sample = json!({"kind": "copy", "source_config": s.cfg.describe(), "destination_config": dcfg.describe(), "snapshots": snaps.len(), "packs_written_in_destination": packs_written});
            }
            "merge" => {
                let oldest = s.variant % 3 == 0;
                let models: Vec<&FsModel> = snaps.iter().map(|x| &x.1).collect();
                let reference = ref_merge(&models, oldest);
                let inputs: Vec<SnapshotFile> = snaps.iter().map(|x| x.0.clone()).collect();
                let r = sim.run(&mode, move || {
                    let repo = repo_open(&store, 1, &key)?.to_indexed()?;
                    let cmp_old = |a: &Node, b: &Node| -> Ordering { b.meta.mtime.cmp(&a.meta.mtime) };
                    if oldest { repo.merge_snapshots(&inputs, &cmp_old, snap_template("merged")?) } else { repo.merge_snapshots(&inputs, &last_modified_node, snap_template("merged")?) }
                });
                match (r, reference) {
                    (Cmd::Ok(merged), Some(reference)) => {
                        evaluations += 1;
                        nontrivial = models.windows(2).any(|w| w[0].entries.iter().any(|(k, e)| w[1].entries.get(k).is_some_and(|o| o != e)));
                        let (st, ky) = (sim.store.clone(), sim.key.clone());
                        let mut r2 = rng.fork("rb");
                        let refm = reference.clone();
                        match sim.run(&Mode::Free, move || {
                            let repo = repo_open(&st, 9, &ky)?.to_indexed()?;
                            Ok(read_back(&repo, &merged, &refm, &ReadBackOpts::default(), &mut r2))
                        }) {
                            Cmd::Ok(ReadBack::Equal) => {}
                            Cmd::Ok(rb @ ReadBack::Err(..)) => rep.violation("C12/merge:merged-snapshot-unreadable", rb.short()),
                            Cmd::Ok(rb) => rep.violation("C12/merge:result-differs-from-reference-merge", format!("ordering {}: {}", if oldest { "oldest wins" } else { "last_modified_node" }, rb.short())),
                            r => rep.violation(format!("C12/merge-readback-{}", r.class()), r.detail()),
                        }
                        // inputs untouched
                        for (fp, d) in sim.verify(true) {
                            rep.violation(format!("C12/merge:inputs:{fp}"), d);
                        }
                    }
                    (Cmd::Ok(_), None) => rep.fire("merge_skipped_ambiguous_tie", 1),
                    (r, _) => rep.violation(format!("C12/merge-{}", r.class()), r.detail()),
                }
                sample = json!({"kind": "merge", "inputs": snaps.iter().map(|x| x.1.describe()).collect::<Vec<_>>(), "ordering": if oldest { "oldest wins" } else { "last_modified_node" }});
            }
            "rewrite" => {
                // exclude set from the plain grammar
                let mut globs: Vec<String> = vec![];
                let names: Vec<Vec<u8>> = snaps[0].1.entries.keys().filter_map(|k| k.last().cloned()).collect();
                if !twin_paths.is_empty() {
                    // anchored at one twin only
                    let k = &twin_paths[rng.usize(twin_paths.len())];
                    globs.push(format!("/{}", k.iter().map(|c| String::from_utf8_lossy(c).to_string()).collect::<Vec<_>>().join("/")));
                    rep.fire("anchored_exclude_inside_a_twin_directory", 1);
                }
                let keys: Vec<&PathKey> = snaps[0].1.entries.keys().collect();
                for _ in 0..rng.range(1, 3) {
                    match rng.usize(6) {
                        4 | 5 if !keys.is_empty() => {
                            // anchored path of an existing entry
                            let k = keys[rng.usize(keys.len())];
                            globs.push(format!("/{}", k.iter().map(|c| String::from_utf8_lossy(c).to_string()).collect::<Vec<_>>().join("/")));
                        }
                        0 => globs.push("*.txt".into()),
                        1 => globs.push("*.log".into()),
                        2 if !names.is_empty() => {
                            let n: &Vec<u8> = &names[rng.usize(names.len())];
                            globs.push(String::from_utf8_lossy(n).to_string());
                        }
                        _ => globs.push("no-such-name".into()),
                    }
                }
                globs.sort();
                globs.dedup();
                let forget = s.variant % 2 == 0;
                let (target, tmodel) = snaps[0].clone();
                let mut expected = tmodel.clone();
                expected.entries.retain(|k, _| !excluded(k, &globs));
                let removed = tmodel.entries.len() - expected.entries.len();
                let (g2, t2) = (globs.clone(), target.clone());
                let log0 = sim.store.log_len();
                let r = sim.run(&mode, move || {
                    let repo = repo_open(&store, 1, &key)?.to_indexed()?;
                    let mut t = RewriteTreesOptions::default();
                    t.excludes.globs = g2.iter().map(|g| format!("!{g}")).collect();
                    repo.rewrite_snapshots_and_trees(vec![t2], &RewriteOptions::default().forget(forget), &t)
                });
                match r {
                    Cmd::Ok(newsnaps) => {
                        evaluations += 1;
                        nontrivial = removed > 0;
                        let wrote = sim.store.log_from(log0).iter().filter(|o| o.kind.is_mutation()).count();
                        if removed == 0 {
                            // nothing matches: the snapshot may be re-saved (summary update), but no content may change
                            rep.fire("rewrite_without_match", 1);
                        }
                        let _ = wrote;
                        let (st, ky) = (sim.store.clone(), sim.key.clone());
                        let mut r2 = rng.fork("rb");
                        let (exp2, orig_id, orig_model) = (expected.clone(), target.id, tmodel.clone());
                        let res = sim.run(&Mode::Free, move || -> RusticResult<Vec<(String, String)>> {
                            let mut f = vec![];
                            let repo = repo_open(&st, 9, &ky)?.to_indexed()?;
                            let listed = repo.get_all_snapshots()?;
                            let orig = listed.iter().find(|sn| sn.id == orig_id);
                            if forget && !newsnaps.is_empty() && orig.is_some() {
                                f.push(("rewrite:original-still-present-despite-forget".into(), String::new()));
                            }
                            if (!forget || newsnaps.is_empty()) && orig.is_none() {
                                f.push(("rewrite:original-vanished-without-forget".into(), String::new()));
                            }
                            if let Some(o) = orig {
                                match read_back(&repo, o, &orig_model, &ReadBackOpts::default(), &mut r2) {
                                    ReadBack::Equal => {}
                                    rb => f.push(("rewrite:original-changed".into(), rb.short())),
                                }
                            }
                            for n in &newsnaps {
                                // the returned snapshots carry the old id; find the stored one by tree
                                let stored = listed.iter().find(|sn| sn.tree == n.tree && sn.id != orig_id).or_else(|| listed.iter().find(|sn| sn.tree == n.tree));
                                match stored {
                                    None => f.push(("rewrite:new-snapshot-not-stored".into(), String::new())),
                                    Some(sn) => match read_back(&repo, sn, &exp2, &ReadBackOpts::default(), &mut r2) {
                                        ReadBack::Equal => {}
                                        rb @ ReadBack::Err(..) => f.push(("rewrite:rewritten-snapshot-unreadable".into(), rb.short())),
                                        rb => f.push(("rewrite:result-differs-from-model-minus-excludes".into(), rb.short())),
                                    },
                                }
                            }
                            Ok(f)
                        });
                        match res {
                            Cmd::Ok(f) => {
                                for (fp, d) in f {
                                    rep.violation(format!("C12/{fp}"), format!("globs {globs:?} forget={forget}: {d}"));
                                }
                            }
                            r => rep.violation(format!("C12/rewrite-readback-{}", r.class()), r.detail()),
                        }
                    }
                    r => rep.violation(format!("C12/rewrite-{}", r.class()), r.detail()),
                }
                sample = json!({"kind": "rewrite", "globs": globs, "forget": forget, "entries_removed": removed, "model": tmodel.describe()});
            }
            _ => {
                // repair
                let damage = s.variant % 3; // 0: none, 1: data pack, 2: tree pack
                let mut lost: BTreeSet<(BlobType, Id)> = BTreeSet::new();
                if damage > 0 {
                    let files = sim.store.files();
                    let view = StoreView::build(&sim.key.aead_key(), &files);
                    let want = if damage == 1 { BlobType::Data } else { BlobType::Tree };
                    let packs: Vec<Id> = view.packs.iter().filter(|(_, i)| i.entries.first().is_some_and(|e| e.tpe == want)).map(|(id, _)| *id).collect();
                    if !packs.is_empty() {
                        let victim = packs[rng.usize(packs.len())];
                        for e in &view.packs[&victim].entries {
                            if view.physical.get(&(e.tpe, e.id)).is_some_and(|p| p.len() == 1) {
                                let _ = lost.insert((e.tpe, e.id));
                            }
                        }
                        let _ = sim.store.remove_raw(FileType::Pack, &victim);
                        rep.fire(if damage == 1 { "lost_file(data pack)" } else { "lost_file(tree pack)" }, 1);
                        let (st, ky) = (sim.store.clone(), sim.key.clone());
                        if let r @ (Cmd::Err(_) | Cmd::Panic(_) | Cmd::NoProgress | Cmd::Harness(_)) = sim.run(&Mode::Free, move || repo_open(&st, 1, &ky)?.repair_index(&RepairIndexOptions::default(), false)) {
                            rep.violation(format!("C12/repair:repair-index-{}", r.class()), r.detail());
                        }
                    }
                }
                let log0 = sim.store.log_len();
                let (st, ky) = (sim.store.clone(), sim.key.clone());
                let r = sim.run(&mode, move || {
                    let repo = repo_open(&st, 1, &ky)?.to_indexed()?;
                    let all = repo.get_all_snapshots()?;
                    repo.repair_snapshots(&RepairSnapshotsOptions::default(), all, false)
                });
                if !r.is_ok() {
                    rep.violation(format!("C12/repair-{}", r.class()), r.detail());
                }
                let muts = sim.store.log_from(log0).iter().filter(|o| o.kind.is_mutation()).count();
                if lost.is_empty() && muts > 0 {
                    rep.violation("C12/repair:undamaged-repository-modified", format!("repair_snapshots performed {muts} write/remove ops on an undamaged repository"));
                }
                // every file kept under its own name has its original content
                let (st, ky) = (sim.store.clone(), sim.key.clone());
                let originals: Vec<(SnapshotFile, FsModel)> = snaps.clone();
                let res = sim.run(&Mode::Free, move || -> RusticResult<(Vec<(String, String)>, usize)> {
                    let mut f = vec![];
                    let mut marked = 0usize;
                    let repo = repo_open(&st, 9, &ky)?.to_indexed()?;
                    for sn in repo.get_all_snapshots()? {
                        // which original does it stem from?
                        let orig_id = sn.original.unwrap_or(sn.id);
                        let Some((_, model)) = originals.iter().find(|(o, _)| o.id == orig_id || o.id == sn.id) else { continue };
                        let listing = match list_snapshot(&repo, &sn) {
                            Ok(l) => l,
                            Err((w, e)) => {
                                f.push(("repair:snapshot-unreadable-after-repair".into(), format!("{}: {w}: {e}", id_hex(&sn.id))));
                                continue;
                            }
                        };
                        for (path, node) in &listing {
                            if !node.is_file() {
                                continue;
                            }
                            let name = node.name();
                            if name.as_bytes().ends_with(b".repaired") {
                                marked += 1;
                                continue;
                            }
                            let k = key_of(path);
                            let mut out = vec![];
                            if let Err(e) = repo.dump(node, &mut out) {
                                f.push(("repair:kept-file-unreadable".into(), format!("{}: `{}`: {}", id_hex(&sn.id), show_key(&k), e.display_log())));
                                continue;
                            }
                            match model.entries.get(&k).map(|e| &e.kind) {
                                Some(Kind::File(b)) if **b == out => {}
                                Some(Kind::File(b)) => f.push(("repair:kept-unmarked-file-has-wrong-content".into(), format!("{}: `{}`: {} bytes instead of {}", id_hex(&sn.id), show_key(&k), out.len(), b.len()))),
                                _ => f.push(("repair:file-not-in-original".into(), format!("{}: `{}`", id_hex(&sn.id), show_key(&k)))),
                            }
                        }
                    }
                    Ok((f, marked))
                });
                evaluations += snaps.len() as u64;
                match res {
                    Cmd::Ok((f, marked)) => {
                        nontrivial = marked > 0 || (damage > 0 && !lost.is_empty());
                        rep.fire("files_marked_repaired", marked as u64);
                        for (fp, d) in f {
                            rep.violation(format!("C12/{fp}"), d);
                        }
                    }
                    r => rep.violation(format!("C12/repair-readback-{}", r.class()), r.detail()),
                }
                if lost.is_empty() {
                    for (fp, d) in sim.verify(true) {
                        rep.violation(format!("C12/repair:undamaged:{fp}"), d);
                    }
                }
                let damage_name = ["none", "data pack lost", "tree pack lost"][damage as usize];
                sample = json!({"kind": "repair", "damage": damage_name, "unique_blobs_lost": lost.len(), "ops_by_repair": muts});
            }
        }
        sim.finish_report(&mut rep);
        rep.evaluations = evaluations.max(1);
        if nontrivial {
            rep.nontrivial.push(hash64(&[s.kind.as_bytes(), &s.model_seed.to_le_bytes(), &s.variant.to_le_bytes()]));
        }
        rep.sample = sample;
        if !rep.violations.is_empty() {
            rep.trace = sim.trace.clone();
        }
        let _: BTreeMap<u8, u8> = BTreeMap::new();
        let _ = Sched::new;
        rep
    }
}
