//! C18 Accepted configurations work; refused or unnamed settings change nothing.
//!
//! One run = one repository life: an initialisation with drawn `ConfigOptions` (through the real
//! `Repository::init`, or through `ConfigOptions::apply` + `init_with_config` on a version-1 or
//! version-2 base config), followed by 1..4 `apply_config` calls, each through a fresh handle.
//! Every option field is drawn from {unset, 0, 1, boundary-1, boundary, boundary+1, interior, huge}.
//!
//! Oracle
//! * a refused init/change performed no mutating store operation and left every stored byte as it
//!   was (the config file in particular);
//! * an accepted change altered only the settings it names: the stored config is decrypted and
//!   parsed as plain JSON by the simulator (no `ConfigFile` type involved) before and after, and
//!   diffed key by key, including keys the options cannot name (id, polynomial, is_hot);
//! * a change naming a version below the stored one is never accepted;
//! * no call panics or hangs, whatever the value;
//! * after every accepted step a smoke run through fresh handles: backup of a small model sized to
//!   the chunker parameters, read-back == model, check(read_data) clean, (restore to tmpfs ==
//!   model), (forget + prune with limits from {0 %, 99 %, 100 %, 150 %, u64::MAX %, 0 B, 1 B, huge,
//!   unlimited}, then read-back and check again). Backup/check/restore must succeed; prune may
//!   return an error but not panic, and an `Ok` prune must leave the snapshots readable.

use std::collections::{BTreeMap, BTreeSet};
use std::time::{Duration, Instant};

use bytesize::ByteSize;
use rustic_core::repofile::{Chunker, ConfigFile, SnapshotFile, SnapshotId};
use rustic_core::{BackupOptions, CheckOptions, ConfigOptions, FileType, Id, KeyOptions, PruneOptions, RusticResult};
use serde::{Deserialize, Serialize};
use serde_json::{Map, Value, json};

use crate::audit::{decode_file, id_hex};
use crate::common::{self, classify, etext, short_loc};
use crate::harness::{Env, Prop, Report, Tier};
use crate::interpose;
use crate::model::{Entry, FsModel, GenParams, Kind, ReadPlan, default_entry, edit_model, gen_content};
use crate::props::c02::{Limit, PruneSpec};
use crate::readback::{ReadBack, ReadBackOpts, read_back};
use crate::restore_check::restore_and_compare;
use crate::rng::{Rng, hash64};
use crate::sched::{panic_text, set_affinity, set_fifo};
use crate::sim::{Cmd, Sim, SnapRec};
use crate::store::{files_digest, ft_name};
use crate::world::{backup_model, repo_on, repo_open};

pub struct C18;

// ---------------------------------------------------------------------------------------------
// options

/// mirror of `ConfigOptions` (which is neither serialisable nor comparable)
#[derive(Clone, Debug, Default, PartialEq, Serialize, Deserialize)]
pub struct Opt {
    #[serde(default, skip_serializing_if = "Option::is_none")]
    pub version: Option<u32>,
    /// 0 = rabin, 1 = fixed size
    #[serde(default, skip_serializing_if = "Option::is_none")]
    pub chunker: Option<u8>,
    #[serde(default, skip_serializing_if = "Option::is_none")]
    pub chunk_size: Option<u64>,
    #[serde(default, skip_serializing_if = "Option::is_none")]
    pub chunk_min_size: Option<u64>,
    #[serde(default, skip_serializing_if = "Option::is_none")]
    pub chunk_max_size: Option<u64>,
    #[serde(default, skip_serializing_if = "Option::is_none")]
    pub compression: Option<i32>,
    #[serde(default, skip_serializing_if = "Option::is_none")]
    pub append_only: Option<bool>,
    #[serde(default, skip_serializing_if = "Option::is_none")]
    pub treepack_size: Option<u64>,
    #[serde(default, skip_serializing_if = "Option::is_none")]
    pub treepack_size_limit: Option<u64>,
    #[serde(default, skip_serializing_if = "Option::is_none")]
    pub treepack_growfactor: Option<u32>,
    #[serde(default, skip_serializing_if = "Option::is_none")]
    pub datapack_size: Option<u64>,
    #[serde(default, skip_serializing_if = "Option::is_none")]
    pub datapack_size_limit: Option<u64>,
    #[serde(default, skip_serializing_if = "Option::is_none")]
    pub datapack_growfactor: Option<u32>,
    #[serde(default, skip_serializing_if = "Option::is_none")]
    pub min_packsize_tolerate_percent: Option<u32>,
    #[serde(default, skip_serializing_if = "Option::is_none")]
    pub max_packsize_tolerate_percent: Option<u32>,
    #[serde(default, skip_serializing_if = "Option::is_none")]
    pub extra_verify: Option<bool>,
}

pub const FIELDS: [&str; 16] = [
    "version",
    "chunker",
    "chunk_size",
    "chunk_min_size",
    "chunk_max_size",
    "compression",
    "append_only",
    "treepack_size",
    "treepack_size_limit",
    "treepack_growfactor",
    "datapack_size",
    "datapack_size_limit",
    "datapack_growfactor",
    "min_packsize_tolerate_percent",
    "max_packsize_tolerate_percent",
    "extra_verify",
];

impl Opt {
    pub fn to_opts(&self) -> ConfigOptions {
        let mut o = ConfigOptions::default();
        o.set_version = self.version;
        o.set_chunker = self.chunker.map(|c| if c == 0 { Chunker::Rabin } else { Chunker::FixedSize });
        o.set_chunk_size = self.chunk_size.map(ByteSize::b);
        o.set_chunk_min_size = self.chunk_min_size.map(ByteSize::b);
        o.set_chunk_max_size = self.chunk_max_size.map(ByteSize::b);
        o.set_compression = self.compression;
        o.set_append_only = self.append_only;
        o.set_treepack_size = self.treepack_size.map(ByteSize::b);
        o.set_treepack_size_limit = self.treepack_size_limit.map(ByteSize::b);
        o.set_treepack_growfactor = self.treepack_growfactor;
        o.set_datapack_size = self.datapack_size.map(ByteSize::b);
        o.set_datapack_size_limit = self.datapack_size_limit.map(ByteSize::b);
        o.set_datapack_growfactor = self.datapack_growfactor;
        o.set_min_packsize_tolerate_percent = self.min_packsize_tolerate_percent;
        o.set_max_packsize_tolerate_percent = self.max_packsize_tolerate_percent;
        o.set_extra_verify = self.extra_verify;
        o
    }

    /// the settings this option set names: stored-config key -> value as it would be stored
    pub fn named(&self) -> BTreeMap<&'static str, Value> {
        let mut m = BTreeMap::new();
        let mut put = |k: &'static str, v: Option<Value>| {
            if let Some(v) = v {
                let _ = m.insert(k, v);
            }
        };
        put("version", self.version.map(Value::from));
        put("chunker", self.chunker.map(|c| Value::from(if c == 0 { "Rabin" } else { "FixedSize" })));
        put("chunk_size", self.chunk_size.map(Value::from));
        put("chunk_min_size", self.chunk_min_size.map(Value::from));
        put("chunk_max_size", self.chunk_max_size.map(Value::from));
        put("compression", self.compression.map(|c| Value::from(i64::from(c))));
        put("append_only", self.append_only.map(Value::from));
        put("treepack_size", self.treepack_size.map(Value::from));
        put("treepack_size_limit", self.treepack_size_limit.map(Value::from));
        put("treepack_growfactor", self.treepack_growfactor.map(Value::from));
        put("datapack_size", self.datapack_size.map(Value::from));
        put("datapack_size_limit", self.datapack_size_limit.map(Value::from));
        put("datapack_growfactor", self.datapack_growfactor.map(Value::from));
        put("min_packsize_tolerate_percent", self.min_packsize_tolerate_percent.map(Value::from));
        put("max_packsize_tolerate_percent", self.max_packsize_tolerate_percent.map(Value::from));
        put("extra_verify", self.extra_verify.map(Value::from));
        m
    }

    fn unset(&mut self, field: &str) {
        match field {
            "version" => self.version = None,
            "chunker" => self.chunker = None,
            "chunk_size" => self.chunk_size = None,
            "chunk_min_size" => self.chunk_min_size = None,
            "chunk_max_size" => self.chunk_max_size = None,
            "compression" => self.compression = None,
            "append_only" => self.append_only = None,
            "treepack_size" => self.treepack_size = None,
            "treepack_size_limit" => self.treepack_size_limit = None,
            "treepack_growfactor" => self.treepack_growfactor = None,
            "datapack_size" => self.datapack_size = None,
            "datapack_size_limit" => self.datapack_size_limit = None,
            "datapack_growfactor" => self.datapack_growfactor = None,
            "min_packsize_tolerate_percent" => self.min_packsize_tolerate_percent = None,
            "max_packsize_tolerate_percent" => self.max_packsize_tolerate_percent = None,
            "extra_verify" => self.extra_verify = None,
            _ => {}
        }
    }

    fn describe(&self) -> Value {
        serde_json::to_value(self).unwrap_or(Value::Null)
    }
}

const MIB: u64 = 1 << 20;
const DEF_AVG: u64 = MIB;
const DEF_MIN: u64 = 512 * 1024;
const DEF_MAX: u64 = 8 * MIB;

/// what the generator believes the configuration to be (only used to aim the generator at
/// accepted-but-extreme combinations; the oracle never looks at it)
#[derive(Clone, Debug)]
struct Guess {
    version: u32,
    fixed: bool,
    avg: u64,
    min: u64,
    max: u64,
}

impl Guess {
    fn new(version: u32) -> Self {
        Self { version, fixed: false, avg: DEF_AVG, min: DEF_MIN, max: DEF_MAX }
    }
    /// would `ConfigOptions::apply` as read in the source accept this? (generator aid only)
    fn apply(&mut self, o: &Opt) -> bool {
        let mut g = self.clone();
        if let Some(v) = o.version {
            if !(1..=2).contains(&v) || v < g.version {
                return false;
            }
            g.version = v;
        }
        if let Some(c) = o.chunker {
            g.fixed = c != 0;
        }
        g.avg = o.chunk_size.unwrap_or(g.avg);
        g.min = o.chunk_min_size.unwrap_or(g.min);
        g.max = o.chunk_max_size.unwrap_or(g.max);
        if !g.fixed && (g.avg == 0 || g.avg & (g.avg - 1) != 0 || g.min > g.avg || g.max < g.avg) {
            return false;
        }
        if let Some(c) = o.compression {
            if (g.version == 1 && c != 0) || !(-131_072..=22).contains(&c) {
                return false;
            }
        }
        for s in [o.treepack_size, o.treepack_size_limit, o.datapack_size, o.datapack_size_limit].into_iter().flatten() {
            if s > u64::from(u32::MAX) {
                return false;
            }
        }
        if o.min_packsize_tolerate_percent.is_some_and(|p| p > 100) || o.max_packsize_tolerate_percent.is_some_and(|p| p > 0 && p < 100) {
            return false;
        }
        *self = g;
        true
    }
}

fn pick_u64(rng: &mut Rng, good: &[u64], edge: &[u64], good_share: u64) -> u64 {
    if rng.chance(good_share, 10) { *rng.pick(good) } else { *rng.pick(edge) }
}

const PACK_GOOD: [u64; 20] = [0, 0, 0, 1, 1, 1, 500, 500, 4096, 4096, 4096, 20_000, 20_000, 100_000, 100_000, 4 * MIB, 4 * MIB, 0x7fff_ffff, 0xffff_fffe, 0xffff_ffff];
const PACK_EDGE: [u64; 3] = [1 << 32, (1 << 32) + 1, u64::MAX];
const GROW: [u32; 18] = [0, 0, 0, 1, 1, 2, 32, 32, 32, 32, 1000, 1000, 4096, 65_535, 65_536, 65_536, 0x8000_0000, u32::MAX];
const MINPCT_GOOD: [u32; 5] = [0, 1, 30, 99, 100];
const MINPCT_EDGE: [u32; 3] = [101, 1000, u32::MAX];
const MAXPCT_GOOD: [u32; 6] = [0, 100, 101, 150, 1000, u32::MAX];
const MAXPCT_EDGE: [u32; 3] = [1, 50, 99];
const COMP_GOOD: [i32; 16] = [-131_072, -1000, -8, -7, -1, 0, 0, 1, 1, 3, 3, 9, 19, 19, 20, 22];
const COMP_EDGE: [i32; 4] = [23, -131_073, i32::MIN, i32::MAX];

fn gen_field(rng: &mut Rng, o: &mut Opt, field: &str, g: &Guess, good: u64) {
    match field {
        "version" => o.version = Some(if rng.chance(good, 10) { *rng.pick(&[g.version, 2]) } else { *rng.pick(&[0u32, 1, 2, 3, u32::MAX]) }),
        "chunker" => o.chunker = Some(rng.below(2) as u8),
        "chunk_size" => {
            o.chunk_size = Some(if rng.chance(good, 10) {
                1u64 << *rng.pick(&[0u32, 1, 6, 7, 9, 12, 13, 16, 20, 21, 23, 30, 40, 62, 63])
            } else {
                *rng.pick(&[0u64, 3, 63, 65, 4095, 4097, 5000, 10_007, MIB + 1, u64::MAX])
            });
        }
        "chunk_min_size" => {
            o.chunk_min_size = Some(if rng.chance(good, 10) {
                *rng.pick(&[4095u64, 4096, 4097, 8192, 65_536, DEF_MIN, g.avg / 2, g.avg])
            } else {
                *rng.pick(&[0u64, 1, 63, 64, 65, 511, 512, 4094, g.avg.saturating_add(1), 1 << 40, u64::MAX])
            });
        }
        "chunk_max_size" => {
            o.chunk_max_size = Some(if rng.chance(good, 10) {
                *rng.pick(&[g.avg, g.avg.saturating_add(1), g.avg.saturating_mul(2), g.avg.saturating_mul(8), DEF_MAX, 1 << 40, u64::MAX])
            } else {
                *rng.pick(&[0u64, 1, 64, 4096, g.avg.saturating_sub(1)])
            });
        }
        "compression" => {
            o.compression = Some(if g.version == 1 && rng.chance(1, 2) {
                0
            } else if rng.chance(good, 10) {
                *rng.pick(&COMP_GOOD)
            } else {
                *rng.pick(&COMP_EDGE)
            });
        }
        "append_only" => o.append_only = Some(rng.chance(1, 3)),
        "treepack_size" => o.treepack_size = Some(pick_u64(rng, &PACK_GOOD, &PACK_EDGE, good)),
        "treepack_size_limit" => o.treepack_size_limit = Some(pick_u64(rng, &PACK_GOOD, &PACK_EDGE, good)),
        "treepack_growfactor" => o.treepack_growfactor = Some(*rng.pick(&GROW)),
        "datapack_size" => o.datapack_size = Some(pick_u64(rng, &PACK_GOOD, &PACK_EDGE, good)),
        "datapack_size_limit" => o.datapack_size_limit = Some(pick_u64(rng, &PACK_GOOD, &PACK_EDGE, good)),
        "datapack_growfactor" => o.datapack_growfactor = Some(*rng.pick(&GROW)),
        "min_packsize_tolerate_percent" => o.min_packsize_tolerate_percent = Some(if rng.chance(good, 10) { *rng.pick(&MINPCT_GOOD) } else { *rng.pick(&MINPCT_EDGE) }),
        "max_packsize_tolerate_percent" => o.max_packsize_tolerate_percent = Some(if rng.chance(good, 10) { *rng.pick(&MAXPCT_GOOD) } else { *rng.pick(&MAXPCT_EDGE) }),
        "extra_verify" => o.extra_verify = Some(rng.chance(1, 2)),
        _ => {}
    }
}

/// a chunker parameter family: coherent by construction, with boundary values; one constraint is
/// broken on purpose now and then
fn gen_chunker_family(rng: &mut Rng, o: &mut Opt) {
    if rng.chance(1, 3) {
        o.chunker = Some(1);
        o.chunk_size = Some(*rng.pick(&[0u64, 1, 2, 63, 64, 65, 1000, 4095, 4096, 4097, 5000, 65_536, MIB, 1 << 40, u64::MAX]));
        if rng.chance(1, 4) {
            // rabin-only settings are not validated for the fixed-size chunker
            o.chunk_min_size = Some(*rng.pick(&[0u64, 1, u64::MAX]));
        }
        return;
    }
    o.chunker = if rng.chance(2, 3) { Some(0) } else { None };
    let k = *rng.pick(&[0u32, 6, 9, 12, 12, 12, 12, 13, 13, 13, 13, 14, 14, 16, 16, 16, 17, 20, 20, 23, 30, 40, 62, 63]);
    let avg = 1u64 << k;
    o.chunk_size = Some(avg);
    // most of the families stay at or above the read-ahead buffer size
    let mut mins: Vec<u64> = if rng.chance(9, 10) { vec![4095, 4096, 4097, 8192, avg / 2, avg - 1, avg] } else { vec![0, 1, 63, 64, 65, 512, 4094, avg / 2, avg] };
    mins.retain(|m| *m <= avg);
    if mins.is_empty() {
        mins.push(avg);
    }
    let mut min = *rng.pick(&mins);
    let mut max = *rng.pick(&[avg, avg.saturating_add(1), avg.saturating_mul(2), avg.saturating_mul(8), u64::MAX]);
    match rng.below(12) {
        0 => min = avg.saturating_add(1),
        1 => max = avg.saturating_sub(1),
        _ => {}
    }
    o.chunk_min_size = Some(min);
    o.chunk_max_size = Some(max);
}

fn gen_opt(rng: &mut Rng, g: &Guess, at_init: bool) -> Opt {
    let mut o = Opt::default();
    match rng.weighted(&[25, 25, 18, 15, 12, 5, 3]) {
        0 => {
            // one field, any value
            let f = *rng.pick(&FIELDS);
            gen_field(rng, &mut o, f, g, 6);
        }
        1 => gen_chunker_family(rng, &mut o),
        2 => {
            let fields = ["treepack_size", "treepack_size_limit", "treepack_growfactor", "datapack_size", "datapack_size_limit", "datapack_growfactor", "min_packsize_tolerate_percent", "max_packsize_tolerate_percent"];
            for _ in 0..rng.range(1, 4) {
                let f = *rng.pick(&fields);
                gen_field(rng, &mut o, f, g, 9);
            }
        }
        3 => {
            for _ in 0..rng.range(2, 4) {
                let f = *rng.pick(&FIELDS);
                gen_field(rng, &mut o, f, g, 9);
            }
        }
        4 => {
            // versions and compression: upgrades, downgrade attempts, levels for either version
            o.version = Some(*rng.pick(&[0u32, 1, 1, 2, 2, 2, 3]));
            if rng.chance(2, 3) {
                gen_field(rng, &mut o, "compression", g, 8);
            }
        }
        5 => {
            for f in FIELDS {
                if f != "append_only" && f != "version" {
                    gen_field(rng, &mut o, f, g, 10);
                }
            }
            gen_chunker_family(rng, &mut o);
        }
        // an option set that names nothing must change nothing
        _ => return o,
    }
    if at_init && rng.chance(1, 8) && o.extra_verify.is_none() {
        // a setting for later changes to (not) touch
        o.extra_verify = Some(rng.chance(1, 2));
    }
    if at_init && o.append_only == Some(true) && rng.chance(1, 2) {
        o.append_only = None;
    }
    o
}

fn gen_limit(rng: &mut Rng) -> Limit {
    match rng.below(3) {
        0 => Limit::Pct(*rng.pick(&[0u64, 1, 5, 50, 99, 100, 101, 150, u64::MAX])),
        1 => Limit::Size(*rng.pick(&[0u64, 1, 5000, 1 << 40, u64::MAX])),
        _ => Limit::Unlimited,
    }
}

/// the largest number of seconds a jiff::Span accepts
const SPAN_MAX_S: i64 = 631_107_417_600;

fn gen_prune(rng: &mut Rng) -> PruneSpec {
    PruneSpec {
        max_unused: gen_limit(rng),
        max_repack: gen_limit(rng),
        keep_pack_s: *rng.pick(&[0i64, 0, 0, 0, 60, -60, SPAN_MAX_S]),
        keep_delete_s: *rng.pick(&[0i64, 0, 0, 60, 23 * 3600, -60, SPAN_MAX_S, -SPAN_MAX_S]),
        instant_delete: rng.chance(1, 2),
        fast_repack: rng.chance(1, 3),
        repack_all: rng.chance(1, 5),
        repack_uncompressed: rng.chance(1, 6),
        no_resize: rng.chance(1, 4),
        repack_cacheable_only: *rng.pick(&[None, None, Some(true), Some(false)]),
    }
}

// ---------------------------------------------------------------------------------------------
// spec

#[derive(Clone, Debug, Serialize, Deserialize)]
pub struct Step {
    pub opt: Opt,
    /// smoke run after this step (if accepted): restore to tmpfs too
    pub restore: bool,
    /// smoke run after this step (if accepted): forget the oldest snapshot and prune
    pub prune: Option<PruneSpec>,
}

#[derive(Clone, Debug, Serialize, Deserialize)]
pub struct Spec {
    pub pool: usize,
    pub subseed: u64,
    /// None: `Repository::init(ConfigOptions)`; Some(v): `ConfigOptions::apply` on a fresh
    /// version-v config + `init_with_config`
    pub base_version: Option<u32>,
    pub init: Step,
    pub changes: Vec<Step>,
    pub model_seed: u64,
    pub plan: ReadPlan,
    pub start_s: i64,
    /// minimiser bookkeeping (see `shrink`); no influence on the execution
    #[serde(default)]
    pub shrink_phase: u8,
}

/// step 0 = the initialisation, step i = change i
fn step_mut(c: &mut Spec, i: usize) -> &mut Step {
    if i == 0 { &mut c.init } else { &mut c.changes[i - 1] }
}

fn gen_step(rng: &mut Rng, g: &mut Guess, at_init: bool, tier: Tier) -> Step {
    // aim: roughly 60 % accepted steps
    let mut opt = gen_opt(rng, g, at_init);
    let mut trial = g.clone();
    if !trial.apply(&opt) && rng.chance(1, 3) {
        opt = gen_opt(rng, g, at_init);
    }
    let _ = g.apply(&opt);
    let (pr, rs) = if tier == Tier::Quick { (5, 3) } else { (7, 5) };
    Step { opt, restore: rng.chance(rs, 10), prune: rng.chance(pr, 10).then(|| gen_prune(rng)) }
}

// ---------------------------------------------------------------------------------------------
// the simulator's view of the stored config

type Cfg = Map<String, Value>;

fn stored_config_bytes(sim: &Sim) -> Option<bytes::Bytes> {
    sim.store.get(FileType::Config, &Id::default())
}

fn decode_config(key: &[u8; 64], data: &[u8]) -> Result<Cfg, String> {
    let json = decode_file(key, data)?;
    match serde_json::from_slice::<Value>(&json).map_err(|e| format!("config is not JSON: {e}"))? {
        Value::Object(m) => Ok(m),
        _ => Err("config is not a JSON object".into()),
    }
}

fn cfg_u64(c: &Cfg, k: &str, default: u64) -> u64 {
    c.get(k).and_then(Value::as_u64).unwrap_or(default)
}

/// config without the per-repository random parts (for counting distinct cases)
fn cfg_shape(c: &Cfg) -> String {
    let mut c = c.clone();
    let _ = c.remove("id");
    let _ = c.remove("chunker_polynomial");
    Value::Object(c).to_string()
}

/// keys whose value differs (present/absent counts)
fn diff_keys(a: &Cfg, b: &Cfg) -> Vec<String> {
    let keys: BTreeSet<&String> = a.keys().chain(b.keys()).collect();
    keys.into_iter().filter(|k| a.get(*k) != b.get(*k)).cloned().collect()
}

/// culprit kind for failures located in the chunkers: which chunker parameter regime was stored
fn chunk_tag(cfg: &Cfg) -> &'static str {
    let fixed = cfg.get("chunker").and_then(Value::as_str) == Some("FixedSize");
    let avg = cfg_u64(cfg, "chunk_size", DEF_AVG);
    let min = cfg_u64(cfg, "chunk_min_size", DEF_MIN);
    if fixed {
        if avg == 0 { "fixed,chunk_size=0" } else { "fixed" }
    } else if avg == 0 {
        "rabin,chunk_size=0"
    } else if min < 64 {
        "rabin,chunk_min_size<64"
    } else if min < 4095 {
        "rabin,chunk_min_size<4095"
    } else {
        "rabin,chunk_min_size>=4095"
    }
}

/// generation parameters of the smoke model: sized so that the chunker produces several blobs but
/// never more than ~1500
fn model_params(cfg: &Cfg, big: bool) -> GenParams {
    let fixed = cfg.get("chunker").and_then(Value::as_str) == Some("FixedSize");
    let avg = cfg_u64(cfg, "chunk_size", DEF_AVG);
    let min = cfg_u64(cfg, "chunk_min_size", DEF_MIN);
    let max = cfg_u64(cfg, "chunk_max_size", DEF_MAX);
    let eff = if fixed { avg } else { min.saturating_add(avg) }.max(1);
    let cap = if big { 1_500_000u64 } else { 160_000 };
    // the ultra levels of zstd set up window-sized tables for every blob: keep the blob count low
    let blobs = match cfg.get("compression").and_then(Value::as_i64).unwrap_or(0) {
        20.. => 6,
        17..=19 => 60,
        _ => 1200,
    };
    let total = eff.saturating_mul(blobs).clamp(blobs.min(900), cap) as usize;
    let mut soi: Vec<usize> = vec![];
    let cands: Vec<u64> = if fixed { vec![avg] } else { vec![min, avg, max, min.saturating_add(4096)] };
    for c in cands.into_iter().chain([cfg_u64(cfg, "datapack_size", 0)]) {
        if c > 1 && (c as usize) < total {
            soi.push(c as usize);
        }
    }
    GenParams { max_entries: 4, max_file: total * 2 / 3, sizes_of_interest: soi, weird_names: true, special: false, hardlinks: false, tree_colliding: false, total_cap: total }
}

/// `rebuilt`: the model replaces an earlier one under the same names; all times are set to `now_s`,
/// which is later than anything the earlier model carried (size-or-mtime premise of parent matching)
fn build_model(rng: &mut Rng, p: &GenParams, now_s: i64, rebuilt: bool) -> FsModel {
    let mut m = FsModel::default();
    let mut budget = p.total_cap;
    let mut inode = 1000u64;
    let mut add = |m: &mut FsModel, key: Vec<&[u8]>, kind: Kind, rng: &mut Rng| {
        let mut e: Entry = default_entry(rng, kind, now_s);
        if rebuilt {
            e.mtime = (now_s, 1);
            e.ctime = (now_s, 1);
        }
        e.inode = inode;
        inode += 1;
        let _ = m.entries.insert(key.into_iter().map(<[u8]>::to_vec).collect(), e);
    };
    add(&mut m, vec![b"d"], Kind::Dir, rng);
    for key in [vec![&b"d"[..], &b"a.bin"[..]], vec![&b"b"[..]], vec![&b"c.txt"[..]]] {
        let mut c = gen_content(rng, p, budget);
        if key.len() == 2 && c.is_empty() {
            c = rng.bytes(p.max_file.min(budget).max(1));
        }
        budget = budget.saturating_sub(c.len());
        add(&mut m, key, Kind::File(std::sync::Arc::new(c)), rng);
    }
    m
}

// ---------------------------------------------------------------------------------------------

enum Outcome {
    Accepted(Option<bool>),
    Refused(String),
}

struct Run<'a> {
    sim: Sim,
    rep: Report,
    env: &'a Env,
    log: Vec<String>,
    steps_desc: Vec<Value>,
    evaluations: u64,
    model: Option<FsModel>,
    plan: ReadPlan,
    rng: Rng,
    big_models: bool,
    /// the configuration in force (for a config call: the stored one overlaid with the named settings)
    tag_cfg: Cfg,
    verbose: bool,
    t0: Instant,
}

impl Run<'_> {
    /// one line of the run's event log (digest = trace hash)
    fn note(&mut self, line: String) {
        if self.verbose {
            eprintln!("[{:>6} ms] {line}", self.t0.elapsed().as_millis());
        }
        self.log.push(line);
    }

    fn violation(&mut self, fp: String, detail: String) {
        if !self.rep.violations.iter().any(|v| v.fingerprint == fp) {
            self.note(format!("VIOLATION {fp}"));
            self.rep.violation(fp, detail);
        }
    }

    /// Run a library command on a fresh thread (FIFO-serialised on the worker CPU like
    /// `Sched::run_free`). Differences to `Sim::run`: a panic of any thread of the process during
    /// the command makes it `Cmd::Panic` whatever the command returns (the property is "never a
    /// panic"), and a command that has not returned 2 s after a panic is not waited for any longer
    /// (a panicking pipeline stage usually leaves the other stages blocked for good).
    fn cmd<T: Send + 'static>(&mut self, f: impl FnOnce() -> RusticResult<T> + Send + 'static) -> Cmd<T> {
        let _ = common::take_panics();
        let start_ns = interpose::clock_now();
        let (tx, rx) = std::sync::mpsc::channel();
        let cpus = self.sim.cpus.worker_cpus.clone();
        let fifo = self.sim.cpus.sched_cpu.is_some() && !cpus.is_empty();
        let handle = std::thread::Builder::new()
            .name("cmd".into())
            .spawn(move || {
                set_affinity(&cpus);
                if fifo {
                    let _ = set_fifo();
                }
                let r = std::panic::catch_unwind(std::panic::AssertUnwindSafe(f)).map_err(|e| panic_text(&*e));
                let _ = tx.send(r);
            })
            .expect("spawn command thread");
        let t0 = Instant::now();
        let mut panics: Vec<String> = vec![];
        let mut first_panic_at: Option<Instant> = None;
        let result = loop {
            match rx.try_recv() {
                Ok(r) => {
                    let _ = handle.join();
                    break Some(r);
                }
                Err(std::sync::mpsc::TryRecvError::Disconnected) => break None,
                Err(std::sync::mpsc::TryRecvError::Empty) => {
                    panics.extend(common::take_panics());
                    if !panics.is_empty() && first_panic_at.is_none() {
                        first_panic_at = Some(Instant::now());
                    }
                    if first_panic_at.is_some_and(|t| t.elapsed() > Duration::from_secs(2)) || t0.elapsed() > WALL_CAP {
                        break None;
                    }
                    std::thread::sleep(Duration::from_micros(300));
                }
            }
        };
        panics.extend(common::take_panics());
        *self.sim.policies.entry("free".to_string()).or_insert(0) += 1;
        self.sim.sim_ns += interpose::clock_now() - start_ns;
        if let Some(p) = panics.first() {
            if result.is_none() {
                self.rep.fire("command_blocked_for_good_after_panic", 1);
            }
            return Cmd::Panic(p.clone());
        }
        match result {
            Some(Err(p)) => Cmd::Panic(p),
            Some(Ok(Ok(v))) => Cmd::Ok(v),
            Some(Ok(Err(e))) => Cmd::Err(etext(&e)),
            None => Cmd::NoProgress,
        }
    }

    fn backup(&mut self, model: &FsModel) -> Cmd<SnapshotFile> {
        let (store, key, sched, model2, plan, seed) = (self.sim.store.clone(), self.sim.key.clone(), self.sim.sched.clone(), model.clone(), self.plan.clone(), self.sim.seed);
        let r = self.cmd(move || {
            let repo = repo_open(&store, 1, &key)?.to_indexed_ids()?;
            backup_model(&repo, &model2, &sched, 1, &plan, seed, &BackupOptions::default(), "c18").map(|b| b.snap)
        });
        if let Cmd::Ok(snap) = &r {
            if !snap.id.is_null() {
                let _ = self.sim.snaps.insert(id_hex(&snap.id), SnapRec { snap: snap.clone(), model: model.clone() });
            }
        }
        r
    }

    fn forget(&mut self, hex_id: &str) -> Cmd<()> {
        let (store, key) = (self.sim.store.clone(), self.sim.key.clone());
        let sid: SnapshotId = hex_id.parse::<Id>().expect("hex").into();
        let r = self.cmd(move || repo_open(&store, 1, &key)?.delete_snapshots(&[sid]));
        if r.is_ok() {
            let _ = self.sim.snaps.remove(hex_id);
        }
        r
    }

    fn prune(&mut self, opts: &PruneOptions) -> Cmd<()> {
        let (store, key, opts2) = (self.sim.store.clone(), self.sim.key.clone(), opts.clone());
        self.cmd(move || {
            let repo = repo_open(&store, 1, &key)?;
            let plan = repo.prune_plan(&opts2)?;
            repo.prune(&opts2, plan)
        })
    }

    /// through a fresh handle: every recorded snapshot is listed and reads back equal to its
    /// model, and check(read_data) reports no error. Findings are (fingerprint part, detail).
    fn read_back_and_check(&mut self) -> Cmd<Vec<(String, String)>> {
        let (store, key) = (self.sim.store.clone(), self.sim.key.clone());
        let snaps: Vec<SnapRec> = self.sim.snaps.values().cloned().collect();
        let mut rng = self.rng.fork("verify");
        self.cmd(move || {
            let mut findings: Vec<(String, String)> = vec![];
            let repo = match repo_open(&store, 90, &key).and_then(|r| r.to_indexed()) {
                Ok(r) => r,
                Err(e) => {
                    findings.push((format!("reopen-failed:{}", classify(&etext(&e))), etext(&e)));
                    return Ok(findings);
                }
            };
            let listed: Vec<String> = match repo.get_all_snapshots() {
                Ok(v) => v.iter().map(|s| id_hex(&s.id)).collect(),
                Err(e) => {
                    findings.push((format!("listing-snapshots-failed:{}", classify(&etext(&e))), etext(&e)));
                    return Ok(findings);
                }
            };
            for rec in &snaps {
                let h = id_hex(&rec.snap.id);
                if !listed.contains(&h) {
                    findings.push(("snapshot-vanished".into(), format!("snapshot {h} is no longer listed")));
                    continue;
                }
                match read_back(&repo, &rec.snap, &rec.model, &ReadBackOpts::default(), &mut rng) {
                    ReadBack::Equal => {}
                    rb => findings.push((format!("readback:{}", classify(&rb.short())), format!("snapshot {h}: {}", rb.short()))),
                }
            }
            match repo.check(CheckOptions::default().read_data(true)) {
                Ok(res) => {
                    let errs = common::check_errors(&res);
                    if let Some(first) = errs.first() {
                        findings.push((format!("check-reports-error:{}", classify(first)), format!("check reports {} error(s): {}", errs.len(), errs.join(" | "))));
                    }
                }
                Err(e) => findings.push((format!("check-failed:{}", classify(&etext(&e))), etext(&e))),
            }
            Ok(findings)
        })
    }

    /// a command result that is not Ok/Err: panic, hang, harness. Returns true if the run must stop.
    fn abnormal<T>(&mut self, r: &Cmd<T>, what: &str, ctx: &str) -> bool {
        match r {
            Cmd::Panic(p) => {
                let loc = short_loc(p);
                let tag = if loc.contains("/chunker") { format!("[{}]", chunk_tag(&self.tag_cfg)) } else { String::new() };
                self.violation(format!("C18/panic:{what}:{}{tag}", classify(&loc)), format!("{ctx}: {what} panicked: {loc}"));
                true
            }
            Cmd::NoProgress => {
                // slow is not stuck: only a command all of whose threads are blocked counts
                if all_other_threads_blocked() {
                    self.violation(format!("C18/no-progress:{what}"), format!("{ctx}: {what} did not finish within {} s and every thread of the process is blocked (deadlock)", WALL_CAP.as_secs()));
                } else {
                    self.rep.fire("command_still_computing_at_wall_cap(run abandoned, not judged)", 1);
                    self.note(format!("{what} still computing after {} s: run abandoned", WALL_CAP.as_secs()));
                }
                true
            }
            Cmd::Harness(h) => {
                self.rep.harness_errors.push(format!("{what}: {h}"));
                true
            }
            _ => false,
        }
    }

    /// the smoke run after an accepted step; Err(()) = stop the run
    fn smoke(&mut self, step: &Step, cfg: &Cfg, ctx: &str) -> Result<(), ()> {
        self.tag_cfg = cfg.clone();
        let now = interpose::clock_now() / 1_000_000_000;
        let genp = model_params(cfg, self.big_models);
        let model = match self.model.take() {
            None => build_model(&mut self.rng, &genp, now, false),
            // the chunker parameters shrank: the old model would make far too many blobs
            Some(m) if m.total_bytes() > genp.total_cap.saturating_mul(2) => build_model(&mut self.rng, &genp, now, true),
            Some(mut m) => {
                let _ = edit_model(&mut self.rng, &mut m, &genp, now, 2);
                m
            }
        };
        self.model = Some(model.clone());
        // backup
        let r = self.backup(&model);
        if self.abnormal(&r, "backup", ctx) {
            return Err(());
        }
        let snap: SnapshotFile = match r {
            Cmd::Ok(s) => s,
            Cmd::Err(e) => {
                self.violation(format!("C18/accepted-config-backup-fails:{}", classify(&e)), format!("{ctx}: backup on the accepted configuration returns an error: {e}"));
                return Err(());
            }
            _ => return Err(()),
        };
        self.note(format!("backup {} ({} bytes in {} files)", &id_hex(&snap.id)[..8], model.total_bytes(), model.n_files()));
        self.evaluations += 1;
        // read back every snapshot + check(read_data)
        self.verify("after-backup", ctx)?;
        // restore
        if step.restore {
            let (store, key, tmp, snap2, model2) = (self.sim.store.clone(), self.sim.key.clone(), self.env.tmp.clone(), snap.clone(), model.clone());
            let mut rng2 = self.rng.fork("restore");
            let r = self.cmd(move || {
                let repo = repo_open(&store, 5, &key)?.to_indexed()?;
                Ok(restore_and_compare(&repo, &snap2, &model2, &tmp, &mut rng2))
            });
            if self.abnormal(&r, "restore", ctx) {
                return Err(());
            }
            match r {
                Cmd::Ok(Ok(())) => self.note("restore == model".into()),
                Cmd::Ok(Err(e)) => {
                    self.violation(format!("C18/accepted-config-restore-fails:{}", classify(&e)), format!("{ctx}: restore to a directory: {e}"));
                    return Err(());
                }
                Cmd::Err(e) => {
                    self.violation(format!("C18/accepted-config-reopen-fails:{}", classify(&e)), format!("{ctx}: opening the repository for restore: {e}"));
                    return Err(());
                }
                _ => return Err(()),
            }
            self.evaluations += 1;
        }
        // forget + prune
        if let Some(ps) = &step.prune {
            if self.sim.snaps.len() >= 2 {
                // the oldest snapshot (by time, then id)
                let oldest = self.sim.snaps.iter().min_by_key(|(h, r)| (r.snap.time.timestamp().as_nanosecond(), (*h).clone())).map(|(h, _)| h.clone()).unwrap();
                let r = self.forget(&oldest);
                if self.abnormal(&r, "forget", ctx) {
                    return Err(());
                }
                match r {
                    Cmd::Err(e) => {
                        self.rep.fire("forget_returned_error", 1);
                        self.note(format!("forget -> Err {}", classify(&e)));
                    }
                    _ => self.note("forget oldest".into()),
                }
            }
            let before = files_digest(&self.sim.store.files());
            let mut ps = ps.clone();
            if cfg.get("compression").and_then(Value::as_i64).unwrap_or(0) >= 20 {
                // recompressing everything at an ultra level takes ~0.5 s per blob; nothing to learn from it
                ps.repack_all = false;
                ps.repack_uncompressed = false;
            }
            let ps = &ps;
            let r = self.prune(&ps.to_opts());
            if self.abnormal(&r, "prune", &format!("{ctx}, prune options {ps:?}")) {
                return Err(());
            }
            match r {
                Cmd::Err(e) => {
                    self.rep.fire("prune_returned_error", 1);
                    self.note(format!("prune {ps:?} -> Err {}", classify(&e)));
                    // an error is a legitimate answer; the snapshots must still be there
                }
                _ => {
                    let changed = files_digest(&self.sim.store.files()) != before;
                    self.rep.fire(if changed { "prune_ok_changed_store" } else { "prune_ok_nothing_to_do" }, 1);
                    self.note(format!("prune ok (store {})", if changed { "changed" } else { "unchanged" }));
                }
            }
            self.evaluations += 1;
            self.verify("after-prune", &format!("{ctx}, prune options {ps:?}"))?;
        }
        self.rep.states.push(files_digest(&self.sim.store.files()));
        interpose::clock_advance(61_000_000_000);
        Ok(())
    }

    fn verify(&mut self, phase: &str, ctx: &str) -> Result<(), ()> {
        let r = self.read_back_and_check();
        if self.abnormal(&r, "read-back-or-check", &format!("{ctx}: {phase}")) {
            return Err(());
        }
        let findings = match r {
            Cmd::Ok(f) => f,
            other => {
                self.rep.harness_errors.push(format!("{phase}: verification did not run: {}", other.detail()));
                return Err(());
            }
        };
        let Some((fp, d)) = findings.into_iter().next() else { return Ok(()) };
        if fp.starts_with("readback:") {
            self.violation(format!("C18/accepted-config-{phase}:{fp}[{}]", chunk_tag(&self.tag_cfg)), format!("{ctx}: {phase}: {d}"));
        } else {
            self.violation(format!("C18/accepted-config-{phase}:{fp}"), format!("{ctx}: {phase}: {d}"));
        }
        Err(())
    }

    /// refusal oracle: nothing was written, every stored byte is as before
    fn check_refusal(&mut self, what: &str, before: &crate::store::Files, log_from: usize, ctx: &str, err: &str) {
        let ops = self.sim.store.log_from(log_from);
        if let Some(op) = ops.iter().find(|o| o.kind.is_mutation()) {
            self.violation(format!("C18/refused-{what}-wrote:{}:{}", op.kind.short(), ft_name(op.tpe)), format!("{ctx}: refused with `{}` but performed `{}`", classify(err), op.label()));
        }
        let after = self.sim.store.files();
        if &after != before {
            let cfg_key = (crate::store::ft_code(FileType::Config), Id::default());
            let culprit = if after.get(&cfg_key) != before.get(&cfg_key) { "config" } else { "other-file" };
            self.violation(format!("C18/refused-{what}-changed-stored-bytes:{culprit}"), format!("{ctx}: refused with `{}` but the stored {culprit} differs afterwards", classify(err)));
        }
        let creates = ops.iter().filter(|o| o.kind == crate::store::OpKind::Create).count() as u64;
        self.rep.fire("refused_call_created_backend_location", creates);
    }
}

impl Prop for C18 {
    fn id(&self) -> &'static str {
        "C18"
    }
    fn scheduled(&self) -> bool {
        // no gate scheduling, but the FIFO-serialised single worker CPU makes free runs repeatable
        true
    }
    fn runs(&self, tier: Tier) -> u64 {
        match tier {
            Tier::Quick => 1200,
            Tier::Thorough => 12000,
        }
    }
    fn rule(&self) -> &'static str {
        "one run = one repository life: initialisation with drawn ConfigOptions (2/3 through Repository::init, 1/3 through ConfigOptions::apply on a fresh version-1/2 config + init_with_config) followed by 1..4 (quick; ..6 thorough) apply_config calls through fresh handles. \
         Option sets are drawn as: one field with any value | a coherent rabin/fixed chunker family with boundary sizes (0, 1, 63..65, 4094..4097, powers of two up to 2^63, u64::MAX; one constraint broken in 1/6) | 1..4 pack size/limit/growfactor/percent fields (0, 1, u32::MAX, 4 GiB, u64::MAX; 0/99/100/101 %) | 2..4 arbitrary fields | version 0..3 with compression (-131073..23, i32 extremes) | all fields | no field. \
         Oracle per step: no panic/hang; refused => no mutating store op and all stored bytes identical; accepted => stored config (decrypted and parsed as plain JSON by the simulator) differs from the previous one only in keys the options name; a version below the stored one is never accepted. \
         After every accepted step a smoke run on fresh handles: backup of a 3-file model sized to the chunker parameters (edited between steps), read-back of all snapshots == model, check(read_data) clean, restore to tmpfs == model (30 % of steps quick / 50 % thorough), forget oldest + prune with limits from {0,1,5,50,99,100,101,150,u64::MAX % | 0 B,1 B,5000 B,1 TiB,u64::MAX B | unlimited} and extreme keep spans (50 % / 70 %), then read-back + check again. Backup/check/restore must succeed; prune may return an error. \
         evaluations = config steps evaluated + smoke phases completed; non-trivial = a step naming >= 1 setting that was refused on an existing repository, or accepted and followed by a completed smoke run; distinct = hash(stored config before the step without id/polynomial, option set, prune options)"
    }
    fn assumptions(&self) -> Vec<&'static str> {
        vec![
            "commands run free (FIFO-serialised threads, one fixed interleaving); the deciding dimension is configuration sampling, not scheduling",
            "the store never fails: every error seen comes from the configuration or option values",
            "the code under test is built with overflow checks (test profile): arithmetic overflow counts as a panic",
            "hot/cold repositories (is_hot) are not exercised",
        ]
    }

    fn generate(&self, subseed: u64, tier: Tier) -> Value {
        let mut rng = Rng::new(subseed);
        let base_version = match rng.below(6) {
            0 => Some(1),
            1 => Some(2),
            _ => None,
        };
        let mut g = Guess::new(base_version.unwrap_or(2));
        let init = gen_step(&mut rng, &mut g, true, tier);
        let n = if tier == Tier::Quick { rng.weighted(&[0, 3, 4, 2, 1]) } else { rng.weighted(&[0, 2, 3, 3, 2, 1, 1]) };
        let changes = (0..n).map(|_| gen_step(&mut rng, &mut g, false, tier)).collect();
        let plan = ReadPlan {
            frag: match rng.usize(4) {
                0 => vec![],
                1 => vec![1, 7, 4096, 0],
                2 => vec![513, 4095, 4097, 65_536],
                _ => vec![0, 100_000],
            },
            eintr_every: *rng.pick(&[0usize, 0, 3]),
            gate_reads_every: 0,
        };
        let spec = Spec {
            pool: *rng.pick(&[1usize, 2, 3]),
            subseed,
            base_version,
            init,
            changes,
            model_seed: rng.next_u64(),
            plan,
            start_s: common::BASE_TIME_S + rng.range(0, 400 * 86400) as i64,
            shrink_phase: 0,
        };
        serde_json::to_value(spec).unwrap()
    }

    fn shrink(&self, spec: &Value) -> Vec<Value> {
        let s: Spec = serde_json::from_value(spec.clone()).unwrap();
        // Candidates are produced in phases; a candidate remembers its phase, so that after a
        // successful step the minimiser goes on from that phase instead of retrying everything
        // that failed before (the greedy loop of the harness restarts the list after each success).
        let mut out: Vec<(u8, Spec)> = vec![];
        let plain = Step { opt: Opt::default(), restore: false, prune: None };
        let is_plain = |st: &Step| st.opt == Opt::default() && !st.restore && st.prune.is_none();
        // phase 0 — jumps: a plain repository and one change only / no change at all
        if s.changes.len() > 1 || (s.changes.len() == 1 && !(is_plain(&s.init) && s.base_version.is_none())) {
            for i in (0..s.changes.len()).rev() {
                let mut c = s.clone();
                c.changes = vec![s.changes[i].clone()];
                c.init = plain.clone();
                c.base_version = None;
                c.plan = ReadPlan::default();
                out.push((0, c));
            }
        }
        if !s.changes.is_empty() {
            let mut c = s.clone();
            c.changes.clear();
            out.push((0, c));
        }
        // phase 1 — fewer changes, plain initialisation
        for i in (0..s.changes.len()).rev() {
            let mut c = s.clone();
            let _ = c.changes.remove(i);
            out.push((1, c));
        }
        if s.base_version.is_some() {
            let mut c = s.clone();
            c.base_version = None;
            out.push((1, c));
        }
        if s.init.opt != Opt::default() && !s.changes.is_empty() {
            let mut c = s.clone();
            c.init.opt = Opt::default();
            out.push((1, c));
        }
        // phase 2 — fewer smoke phases, plain reads
        if s.init.prune.is_some() || s.init.restore || s.changes.iter().any(|c| c.prune.is_some() || c.restore) {
            let mut c = s.clone();
            for i in 0..=s.changes.len() {
                let st = step_mut(&mut c, i);
                st.prune = None;
                st.restore = false;
            }
            out.push((2, c));
        }
        for i in 0..=s.changes.len() {
            let st = if i == 0 { &s.init } else { &s.changes[i - 1] };
            if st.prune.is_some() {
                let mut c = s.clone();
                step_mut(&mut c, i).prune = None;
                out.push((2, c));
            }
            if st.restore {
                let mut c = s.clone();
                step_mut(&mut c, i).restore = false;
                out.push((2, c));
            }
        }
        if !s.plan.frag.is_empty() || s.plan.eintr_every != 0 {
            let mut c = s.clone();
            c.plan = ReadPlan::default();
            out.push((2, c));
        }
        // phase 3 — drop whole families of settings, phase 4 — single settings
        const FAMILIES: [&[&str]; 4] = [
            &["chunker", "chunk_size", "chunk_min_size", "chunk_max_size"],
            &["treepack_size", "treepack_size_limit", "treepack_growfactor", "datapack_size", "datapack_size_limit", "datapack_growfactor"],
            &["min_packsize_tolerate_percent", "max_packsize_tolerate_percent"],
            &["version", "compression", "append_only", "extra_verify"],
        ];
        for i in 0..=s.changes.len() {
            let st = if i == 0 { &s.init } else { &s.changes[i - 1] };
            let named: Vec<&'static str> = st.opt.named().keys().copied().collect();
            if named.len() > 2 {
                for fam in FAMILIES {
                    if named.iter().any(|f| fam.contains(f)) && !named.iter().all(|f| fam.contains(f)) {
                        let mut c = s.clone();
                        for f in fam {
                            step_mut(&mut c, i).opt.unset(f);
                        }
                        out.push((3, c));
                    }
                }
            }
        }
        for i in 0..=s.changes.len() {
            let st = if i == 0 { &s.init } else { &s.changes[i - 1] };
            let named: Vec<&'static str> = st.opt.named().keys().copied().collect();
            if named.len() > 1 || i == 0 {
                for f in named {
                    let mut c = s.clone();
                    step_mut(&mut c, i).opt.unset(f);
                    out.push((4, c));
                }
            }
        }
        let mut seen = BTreeSet::new();
        out.into_iter()
            .filter(|(ph, _)| *ph >= s.shrink_phase)
            .map(|(ph, mut c)| {
                c.shrink_phase = ph;
                serde_json::to_value(c).unwrap()
            })
            .filter(|v| {
                // strictly simpler than the spec itself (ignoring the phase marker), and only once
                let mut a = v.clone();
                let mut b = spec.clone();
                let _ = a.as_object_mut().map(|m| m.remove("shrink_phase"));
                let _ = b.as_object_mut().map(|m| m.remove("shrink_phase"));
                a != b && seen.insert(a.to_string())
            })
            .collect()
    }

    fn exec(&self, spec: &Value, env: &Env) -> Report {
        let s: Spec = serde_json::from_value(spec.clone()).expect("spec");
        common::run_setup(s.subseed, s.start_s);
        let _ = common::take_panics();
        let sim = Sim::new(s.subseed, crate::world::RepoCfg::default(), &env.cpus, "c18");
        let key64 = sim.key.aead_key();
        let mut run = Run {
            sim,
            rep: Report::default(),
            env,
            log: vec![],
            steps_desc: vec![],
            evaluations: 0,
            model: None,
            plan: s.plan.clone(),
            rng: Rng::new(s.model_seed),
            big_models: s.model_seed % 5 == 0,
            tag_cfg: Cfg::new(),
            verbose: std::env::var("VERIF_VERBOSE").is_ok(),
            t0: Instant::now(),
        };
        exec_inner(&s, &mut run, &key64);
        let Run { mut sim, mut rep, log, steps_desc, evaluations, .. } = run;
        sim.finish_report(&mut rep);
        // digest of everything that happened (the free-running commands leave no gate trace)
        let parts: Vec<&[u8]> = log.iter().map(String::as_bytes).collect();
        rep.trace_hash = hash64(&parts);
        rep.evaluations = evaluations.max(1);
        rep.sample = json!({
            "init": if s.base_version.is_some() { format!("apply on a fresh version-{} config + init_with_config", s.base_version.unwrap()) } else { "Repository::init".to_string() },
            "steps": steps_desc,
            "log": log.iter().take(14).map(|l| l.chars().take(220).collect::<String>()).collect::<Vec<_>>(),
        });
        rep
    }
}

fn exec_inner(s: &Spec, run: &mut Run<'_>, key64: &[u8; 64]) {
    // ---- initialisation
    let mut cur: Cfg;
    {
        let step = &s.init;
        let ctx = format!("init with {}", step.opt.describe());
        for k in step.opt.named().keys() {
            run.rep.fire(&format!("named:{k}"), 1);
        }
        let before = run.sim.store.files();
        let log_from = run.sim.store.log_len();
        run.tag_cfg = overlay(&Cfg::new(), &step.opt);
        let r = run_init(run, s.base_version, &step.opt);
        run.evaluations += 1;
        if run.abnormal(&r, "init", &ctx) {
            run.steps_desc.push(json!({"init": step.opt.describe(), "outcome": "panic/hang"}));
            return;
        }
        let mut accepted = false;
        match r {
            Cmd::Ok(()) => accepted = true,
            Cmd::Err(e) => {
                run.rep.fire("init_refused", 1);
                run.rep.fire(&format!("refused:{}", refusal_kind(&e)), 1);
                run.note(format!("init {} -> refused: {}", step.opt.describe(), classify(&e)));
                run.steps_desc.push(json!({"init": step.opt.describe(), "outcome": format!("refused: {}", classify(&e))}));
                run.check_refusal("init", &before, log_from, &ctx, &e);
                // carry on with a default repository so that the changes are exercised
                let r2 = run_init(run, s.base_version.or(Some(2)), &Opt::default());
                if !r2.is_ok() {
                    run.rep.harness_errors.push(format!("fallback initialisation failed: {}", r2.detail()));
                    return;
                }
            }
            _ => return,
        }
        let Some(bytes) = stored_config_bytes(&run.sim) else {
            run.violation("C18/accepted-init-stored-no-config".into(), format!("{ctx}: returned Ok but no config file is stored"));
            return;
        };
        cur = match decode_config(key64, &bytes) {
            Ok(c) => c,
            Err(e) => {
                run.rep.harness_errors.push(format!("stored config does not decode: {e}"));
                return;
            }
        };
        if accepted {
            run.rep.fire("init_accepted", 1);
            run.note(format!("init {} -> accepted; stored {}", step.opt.describe(), cfg_shape(&cur)));
            run.steps_desc.push(json!({"init": step.opt.describe(), "outcome": "accepted"}));
            // observational: a fresh repository should hold the named settings and nothing else
            let named = step.opt.named();
            let base_keys = ["version", "id", "chunker_polynomial"];
            let extra = cur.keys().filter(|k| !base_keys.contains(&k.as_str()) && !named.contains_key(k.as_str())).count() as u64;
            run.rep.fire("init_stored_unnamed_setting(observed, not judged)", extra);
            let unset = named.iter().filter(|(k, v)| cur.get(**k) != Some(*v)).count() as u64;
            run.rep.fire("named_setting_not_stored_as_given(observed, not judged)", unset);
            if run.smoke(step, &cur, &ctx).is_err() {
                return;
            }
            if !step.opt.named().is_empty() {
                run.rep.nontrivial.push(hash64(&[b"init", format!("{:?}", s.base_version).as_bytes(), step.opt.describe().to_string().as_bytes(), format!("{:?}", step.prune).as_bytes()]));
            }
        } else {
            // the fallback repository gets one snapshot so that later prunes have something to look at
            let plain = Step { opt: Opt::default(), restore: false, prune: None };
            if run.smoke(&plain, &cur, "default initialisation").is_err() {
                return;
            }
        }
    }

    // ---- changes
    for (i, step) in s.changes.iter().enumerate() {
        let ctx = format!("change {} of {}: apply_config({}) on {}", i + 1, s.changes.len(), step.opt.describe(), cfg_shape(&cur));
        let named = step.opt.named();
        for k in named.keys() {
            run.rep.fire(&format!("named:{k}"), 1);
        }
        let before_files = run.sim.store.files();
        let before_bytes = stored_config_bytes(&run.sim);
        let log_from = run.sim.store.log_len();
        let opts = step.opt.to_opts();
        let (store, key) = (run.sim.store.clone(), run.sim.key.clone());
        run.tag_cfg = overlay(&cur, &step.opt);
        let r: Cmd<Result<bool, String>> = run.cmd(move || {
            let mut repo = repo_open(&store, 1, &key)?;
            Ok(repo.apply_config(&opts).map_err(|e| etext(&e)))
        });
        run.evaluations += 1;
        if run.abnormal(&r, "apply_config", &ctx) {
            run.steps_desc.push(json!({"change": step.opt.describe(), "outcome": "panic/hang"}));
            return;
        }
        let outcome = match r {
            Cmd::Ok(Ok(changed)) => Outcome::Accepted(Some(changed)),
            Cmd::Ok(Err(e)) => Outcome::Refused(e),
            Cmd::Err(e) => {
                run.violation(format!("C18/accepted-config-reopen-fails:{}", classify(&e)), format!("{ctx}: the repository holding the accepted configuration cannot be opened: {e}"));
                return;
            }
            _ => return,
        };
        let shape_before = cfg_shape(&cur);
        let case_hash = hash64(&[shape_before.as_bytes(), step.opt.describe().to_string().as_bytes(), format!("{:?}", step.prune).as_bytes()]);
        let downgrade = match (step.opt.version, cur.get("version").and_then(Value::as_u64)) {
            (Some(v), Some(b)) => u64::from(v) < b,
            _ => false,
        };
        match outcome {
            Outcome::Refused(e) => {
                run.rep.fire("change_refused", 1);
                run.rep.fire(&format!("refused:{}", refusal_kind(&e)), 1);
                if downgrade {
                    run.rep.fire("version_downgrade_refused", 1);
                }
                run.note(format!("apply_config {} -> refused: {}", step.opt.describe(), classify(&e)));
                run.steps_desc.push(json!({"change": step.opt.describe(), "outcome": format!("refused: {}", classify(&e))}));
                run.check_refusal("change", &before_files, log_from, &ctx, &e);
                if stored_config_bytes(&run.sim) != before_bytes {
                    // (already reported by check_refusal; keep `cur` in step with the store)
                    if let Some(Ok(c)) = stored_config_bytes(&run.sim).map(|b| decode_config(key64, &b)) {
                        cur = c;
                    }
                }
                if !named.is_empty() {
                    run.rep.nontrivial.push(case_hash);
                }
            }
            Outcome::Accepted(changed) => {
                let Some(bytes) = stored_config_bytes(&run.sim) else {
                    run.violation("C18/accepted-change-removed-config".into(), format!("{ctx}: returned Ok but no config file is stored afterwards"));
                    return;
                };
                let new = match decode_config(key64, &bytes) {
                    Ok(c) => c,
                    Err(e) => {
                        run.rep.harness_errors.push(format!("stored config does not decode after {ctx}: {e}"));
                        return;
                    }
                };
                let diff = diff_keys(&cur, &new);
                run.rep.fire(if diff.is_empty() { "change_accepted_noop" } else { "change_accepted" }, 1);
                run.note(format!("apply_config {} -> accepted (returned {:?}); changed keys {:?}; stored {}", step.opt.describe(), changed, diff, cfg_shape(&new)));
                run.steps_desc.push(json!({"change": step.opt.describe(), "outcome": "accepted", "changed_keys": diff}));
                if downgrade {
                    run.violation(
                        "C18/version-downgrade-accepted".into(),
                        format!("{ctx}: naming version {} on a version {} repository was not refused", step.opt.version.unwrap_or(0), cur.get("version").cloned().unwrap_or(Value::Null)),
                    );
                }
                for k in &diff {
                    if !named.contains_key(k.as_str()) {
                        run.violation(
                            format!("C18/unnamed-setting-changed:{k}"),
                            format!("{ctx}: the options do not name `{k}`, but the stored value went from {} to {}", cur.get(k).map_or("absent".to_string(), Value::to_string), new.get(k).map_or("absent".to_string(), Value::to_string)),
                        );
                    }
                }
                // files other than the config must not have been touched by a config change
                let mut a = before_files.clone();
                let mut b = run.sim.store.files();
                let cfg_key = (crate::store::ft_code(FileType::Config), Id::default());
                let _ = a.remove(&cfg_key);
                let _ = b.remove(&cfg_key);
                if a != b {
                    run.rep.fire("config_change_touched_other_files(observed, not judged)", 1);
                }
                let unset = named.iter().filter(|(k, v)| new.get(**k) != Some(*v)).count() as u64;
                run.rep.fire("named_setting_not_stored_as_given(observed, not judged)", unset);
                if changed == Some(false) && !diff.is_empty() {
                    run.rep.fire("returned_unchanged_but_stored_config_differs(observed, not judged)", 1);
                }
                cur = new;
                if run.smoke(step, &cur, &ctx).is_err() {
                    return;
                }
                if !named.is_empty() {
                    run.rep.nontrivial.push(case_hash);
                }
            }
        }
    }
}

/// the wall-clock budget of one library command (they normally take 5..500 ms)
const WALL_CAP: Duration = Duration::from_secs(30);

/// Sample the scheduler state of every other thread of this process for 3 s: true iff none was
/// ever runnable or in uninterruptible sleep, i.e. the unfinished command is blocked for good.
fn all_other_threads_blocked() -> bool {
    let me = unsafe { libc::syscall(libc::SYS_gettid) } as u64;
    for _ in 0..30 {
        let Ok(dir) = std::fs::read_dir("/proc/self/task") else { return false };
        for t in dir.flatten() {
            let name = t.file_name();
            let Some(tid) = name.to_str().and_then(|s| s.parse::<u64>().ok()) else { continue };
            if tid == me {
                continue;
            }
            let Ok(stat) = std::fs::read_to_string(t.path().join("stat")) else { continue };
            // pid (comm) state ...
            let state = stat.rsplit(')').next().and_then(|r| r.trim_start().chars().next()).unwrap_or('R');
            if state == 'R' || state == 'D' {
                return false;
            }
        }
        std::thread::sleep(Duration::from_millis(100));
    }
    true
}

/// `cfg` with the settings named by `opt` written over it
fn overlay(cfg: &Cfg, opt: &Opt) -> Cfg {
    let mut c = cfg.clone();
    for (k, v) in opt.named() {
        let _ = c.insert(k.to_string(), v);
    }
    c
}

/// coarse kind of a refusal (for the fired-kinds table)
fn refusal_kind(e: &str) -> &'static str {
    let e = e.to_ascii_lowercase();
    if e.contains("downgrading") {
        "version-downgrade"
    } else if e.contains("config version unsupported") {
        "version-unsupported"
    } else if e.contains("power of 2") {
        "chunk-size-not-power-of-two"
    } else if e.contains("chunk min size") {
        "chunk-min-above-size"
    } else if e.contains("chunk max size") {
        "chunk-max-below-size"
    } else if e.contains("unsupported for v1") {
        "compression-on-v1"
    } else if e.contains("compression level") {
        "compression-level"
    } else if e.contains("size is too large") || e.contains("too large") {
        "size-too-large"
    } else if e.contains("min_packsize_tolerate_percent") {
        "min-percent"
    } else if e.contains("max_packsize_tolerate_percent") {
        "max-percent"
    } else if e.contains("append-only") {
        "append-only"
    } else {
        "other"
    }
}

/// initialise the repository in `sim.store`
fn run_init(run: &mut Run<'_>, base_version: Option<u32>, opt: &Opt) -> Cmd<()> {
    let (store, key) = (run.sim.store.clone(), run.sim.key.clone());
    let opts = opt.to_opts();
    match base_version {
        None => run.cmd(move || repo_on(store.handle(1), None, None)?.init(&key.creds(), &KeyOptions::default(), &opts).map(|_| ())),
        Some(v) => run.cmd(move || {
            // what `init` does, on a base config of the given version; id and polynomial from the key seed
            let mut r = Rng::new(u64::from_le_bytes(key.encrypt[..8].try_into().unwrap()) ^ 0x18);
            let id = hex::encode(r.bytes(32));
            let poly = crate::gf2::random_poly(&mut r);
            let mut config: ConfigFile = serde_json::from_value(json!({"version": v, "id": id, "chunker_polynomial": format!("{poly:x}")})).expect("config json");
            opts.apply(&mut config)?;
            repo_on(store.handle(1), None, None)?.init_with_config(&key.creds(), &KeyOptions::default(), config).map(|_| ())
        }),
    }
}
