//! C04 Stored data is authenticated ciphertext; tampering is always detected.

use std::collections::{BTreeMap, BTreeSet};
use std::sync::Arc;

use rustic_core::repofile::KeyId;
use rustic_core::{BackupOptions, Credentials, FileType, KeyOptions, LimitOption, PruneOptions, RusticResult};
use serde::{Deserialize, Serialize};
use serde_json::{Value, json};

use crate::audit::{StoreView, id_hex, parse_pack};
use crate::common;
use crate::harness::{Env, Prop, Report, Tier};
use crate::interpose;
use crate::model::{Entry, FsModel, GenParams, Kind, ReadPlan, default_entry, edit_model};
use crate::props::c01::build_model_min;
use crate::readback::ReadBack;
use crate::rng::{Rng, hash64};
use crate::sched::{Mode, Sched};
use crate::sim::{Cmd, Sim};
use crate::store::{Files, SimStore, files_digest, ft_code, ft_name};
use crate::tamper::{damages_of, targets};
use crate::world::{KeyMat, RepoCfg, config_for, repo_on, repo_open};

pub struct C04;

#[derive(Clone, Debug, Serialize, Deserialize)]
pub struct Spec {
    pub pool: usize,
    pub subseed: u64,
    pub kind: String, // scan | nonce | tamper | cred
    pub cfg: RepoCfg,
    pub gen: GenParams,
    pub model_seed: u64,
    pub sample: usize,
    pub start_s: i64,
}

fn marker_model(rng: &mut Rng, now_s: i64) -> (FsModel, Vec<Vec<u8>>) {
    // markers: 16 printable bytes each, so that they survive JSON escaping unchanged
    let mut markers = vec![];
    let mut mk = |rng: &mut Rng| -> Vec<u8> {
        let m: Vec<u8> = (0..16).map(|_| b"ABCDEFGHJKLMNPQRSTUVWXYZ23456789"[rng.usize(32)]).collect();
        markers.push(m.clone());
        m
    };
    let mut m = FsModel::default();
    let mut inode = 500;
    let mut add = |m: &mut FsModel, key: Vec<Vec<u8>>, kind: Kind, rng: &mut Rng| {
        let mut e: Entry = default_entry(rng, kind, now_s);
        e.inode = inode;
        inode += 1;
        let _ = m.entries.insert(key, e);
    };
    let d = [b"dir-".to_vec(), mk(rng)].concat();
    add(&mut m, vec![d.clone()], Kind::Dir, rng);
    for i in 0..3 {
        let name = [format!("file{i}-").into_bytes(), mk(rng)].concat();
        let marker = mk(rng);
        let mut content = vec![];
        let reps = [1usize, 40, 3000][i];
        for _ in 0..reps {
            content.extend_from_slice(&marker);
            content.extend(rng.bytes(if i == 2 { 7 } else { 0 }));
        }
        add(&mut m, vec![d.clone(), name], Kind::File(Arc::new(content)), rng);
    }
    let target = [b"../to/".to_vec(), mk(rng)].concat();
    add(&mut m, vec![d.clone(), b"link".to_vec()], Kind::Symlink(target), rng);
    (m, markers)
}

fn contains_window(hay: &[u8], marker: &[u8]) -> bool {
    // any 12-byte window of the marker
    for w in marker.windows(12) {
        if hay.windows(12).any(|h| h == w) {
            return true;
        }
    }
    false
}

impl Prop for C04 {
    fn id(&self) -> &'static str {
        "C04"
    }
    fn scheduled(&self) -> bool {
        true
    }
    fn level(&self) -> &'static str {
        "fault_enumeration"
    }
    fn runs(&self, tier: Tier) -> u64 {
        match tier {
            Tier::Quick => 320,
            Tier::Thorough => 1600,
        }
    }
    fn rule(&self) -> &'static str {
        "four batches, one kind per run. scan: sources built from random 16-byte markers (names, link targets, contents) go through backup/edit/backup/prune-repack/copy-into-other-key histories; every stored byte outside keys/ is scanned for any 12-byte window of any marker \
         (positive control: the simulator's own decryption must find them), every non-key file must authenticate under the master key, key files must not contain master-key bytes. \
         nonce: with the nonce hook disarmed and real OS randomness, the nonce of every stored message (files, every blob in every pack, every pack header) over a history that re-encrypts identical plaintexts must be pairwise distinct and no two of them numerically within 2^64 of each other (a counter or clock instead of fresh randomness would make messages share AES-CTR key stream). \
         tamper: for sampled/all stored files x {remove, truncate, bit flip, extend, swap with sibling, index entry drop/dup}: opening, listing, loading the index and reading every snapshot back must give Err or exactly the untampered result — a read that returns different content, or a snapshot id that resolves to another snapshot, is a violation; so is a panic on the calling thread. \
         cred: random sequences of add_key / delete_key / open with right password, wrong password, master key, wrong master key against a model set of valid credentials. \
         evaluations = files scanned / nonces compared / damaged states / open attempts; non-trivial per kind as stated; distinct = hash(kind, state, case)"
    }
    fn assumptions(&self) -> Vec<&'static str> {
        vec!["the nonce batch uses the kernel's getrandom (interposition off) and is therefore the one batch that is not bit-reproducible; its oracle (pairwise distinct) does not depend on the values"]
    }

    fn generate(&self, subseed: u64, tier: Tier) -> Value {
        let mut rng = Rng::new(subseed);
        let kind = ["scan", "nonce", "tamper", "tamper", "cred"][rng.usize(5)].to_string();
        let mut cfg = RepoCfg::gen_small(&mut rng);
        if cfg.compression.is_some_and(|c| c > 3) {
            cfg.compression = Some(1);
        }
        let mut genp = GenParams::default();
        genp.max_entries = 6;
        genp.max_file = 30_000;
        genp.total_cap = 80_000;
        genp.special = false;
        genp.sizes_of_interest = vec![4096];
        let spec = Spec { pool: 1, subseed, kind, cfg, gen: genp, model_seed: rng.next_u64(), sample: if tier == Tier::Quick { 40 } else { 0 }, start_s: common::BASE_TIME_S + rng.range(0, 400 * 86400) as i64 };
        serde_json::to_value(spec).unwrap()
    }

    #[allow(clippy::too_many_lines)]
    fn exec(&self, spec: &Value, env: &Env) -> Report {
        let s: Spec = serde_json::from_value(spec.clone()).expect("spec");
        let mut rep = Report::default();
        common::run_setup(s.subseed, s.start_s);
        let mut rng = Rng::new(s.subseed ^ 0xc04);
        let plan = ReadPlan { frag: vec![0, 4097], eintr_every: 0, gate_reads_every: 0 };
        let mut sim = Sim::new(s.subseed, s.cfg.clone(), &env.cpus, "c04");
        sim.strict_bg_panics = false;
        match s.kind.as_str() {
            "scan" => {
                if let Cmd::Err(e) = sim.init() {
                    rep.sample = json!({"skipped": "configuration refused by init", "error": e});
                    rep.evaluations = 1;
                    return rep;
                }
                let (mut m, markers) = marker_model(&mut rng, s.start_s);
                let mut hist = vec![];
                for step in 0..3 {
                    match sim.backup(&Mode::Free, &m.clone(), 1, &BackupOptions::default(), &plan, "c04") {
                        Cmd::Ok(_) => hist.push("backup"),
                        r => {
                            rep.violation(format!("C04/scan-backup-{}", r.class()), r.detail());
                            return rep;
                        }
                    }
                    interpose::clock_advance(60_000_000_000);
                    // edits keep the marker-built entries, add ordinary ones
                    let _ = edit_model(&mut rng, &mut m, &s.gen, s.start_s + 100 * (step + 1), 2);
                }
                let first = sim.snaps.keys().next().cloned();
                if let Some(f) = first {
                    let _ = sim.forget(&Mode::Free, 1, &[f]);
                    let o = PruneOptions::default().max_unused(LimitOption::Percentage(0)).max_repack(LimitOption::Unlimited).keep_delete(jiff::Span::new());
                    match sim.prune(&Mode::Free, 1, &o) {
                        Cmd::Ok(()) => hist.push("forget+prune(repack)"),
                        r => {
                            rep.violation(format!("C04/scan-prune-{}", r.class()), r.detail());
                            return rep;
                        }
                    }
                }
                // copy into a repository with another key
                let dkey = KeyMat::from_seed(s.subseed ^ 0xd57);
                let dstore = SimStore::new("c04-dst", Sched::new());
                let (sstore, skey, dstore2, dkey2, dcfg) = (sim.store.clone(), sim.key.clone(), dstore.clone(), dkey.clone(), s.cfg.clone());
                let r = sim.run(&Mode::Free, move || {
                    let dst = repo_on(dstore2.handle(1), None, None)?.init_with_config(&dkey2.creds(), &KeyOptions::default(), config_for(&dkey2, &dcfg)?)?.to_indexed_ids()?;
                    let src = repo_open(&sstore, 1, &skey)?.to_indexed()?;
                    let snaps = src.get_all_snapshots()?;
                    src.copy(&dst, snaps.iter())
                });
                if !r.is_ok() {
                    rep.violation(format!("C04/scan-copy-{}", r.class()), r.detail());
                    return rep;
                }
                hist.push("copy into other-key repo");
                let mut scanned = 0u64;
                let mut control_hits = 0u64;
                for (name, files, key) in [("source", sim.store.files(), sim.key.aead_key()), ("copy", dstore.files(), dkey.aead_key())] {
                    let view = StoreView::build(&key, &files);
                    if let Some(e) = view.errors.first() {
                        rep.violation("C04/stored-file-does-not-authenticate", format!("{name} repository: {e}"));
                    }
                    for ((t, id), data) in &files {
                        if *t == ft_code(FileType::Key) {
                            continue;
                        }
                        if *t == ft_code(FileType::Config) && crate::audit::decode_file(&key, data).is_err() {
                            rep.violation("C04/config-does-not-authenticate", format!("{name} repository"));
                        }
                        scanned += 1;
                        for mkr in &markers {
                            if contains_window(data, mkr) {
                                rep.violation(
                                    format!("C04/plaintext-in-storage:{}", ft_name(crate::store::ft_from(*t))),
                                    format!("{name} repository: {} {} contains (part of) the marker {}", ft_name(crate::store::ft_from(*t)), id_hex(id), String::from_utf8_lossy(mkr)),
                                );
                            }
                        }
                    }
                    // positive control: decrypted blobs contain the markers
                    for (pid, info) in &view.packs {
                        let pdata = &files[&(ft_code(FileType::Pack), *pid)];
                        for e in &info.entries {
                            if let Ok(plain) = crate::audit::decode_blob(&key, pdata, e) {
                                if markers.iter().any(|mk| contains_window(&plain, mk)) {
                                    control_hits += 1;
                                }
                            }
                        }
                    }
                }
                if control_hits == 0 {
                    rep.harness_errors.push("positive control failed: no marker found in any decrypted blob".into());
                }
                rep.evaluations = scanned.max(1);
                rep.fire("files_scanned", scanned);
                rep.nontrivial.push(hash64(&[b"scan", &files_digest(&sim.store.files()).to_le_bytes()]));
                rep.sample = json!({"kind": "scan", "history": hist, "markers": markers.len(), "files_scanned": scanned, "decrypted_blobs_with_marker(control)": control_hits, "config": s.cfg.describe()});
            }
            "nonce" => {
                // real randomness, real nonces
                common::disarm_nonce();
                interpose::rand_real();
                if let Cmd::Err(e) = sim.init() {
                    rep.sample = json!({"skipped": "configuration refused by init", "error": e});
                    rep.evaluations = 1;
                    return rep;
                }
                let m = build_model_min(&s.gen, s.model_seed, &[], s.start_s, 2);
                // the same content again and again: identical plaintexts (trees, blobs through stale handles, snapshots)
                for i in 0..3 {
                    let force = BackupOptions::default().parent_opts(rustic_core::ParentOptions::default().force(true));
                    if let r @ (Cmd::Err(_) | Cmd::Panic(_) | Cmd::NoProgress | Cmd::Harness(_)) = sim.backup(&Mode::Free, &m, 1 + i, &force, &plan, "c04") {
                        rep.violation(format!("C04/nonce-backup-{}", r.class()), r.detail());
                        return rep;
                    }
                }
                let (store, key, sched, seed, plan2, m2) = (sim.store.clone(), sim.key.clone(), sim.sched.clone(), sim.seed, plan.clone(), m.clone());
                let _ = sim.run(&Mode::Free, move || {
                    // two handles with the same (stale) index store the same blobs twice
                    let mut m3 = m2.clone();
                    let _ = m3.entries.insert(vec![b"extra".to_vec()], default_entry(&mut Rng::new(1), Kind::File(Arc::new(vec![7u8; 9000])), 1_700_000_000));
                    let a = repo_open(&store, 1, &key)?.to_indexed_ids()?;
                    let b = repo_open(&store, 2, &key)?.to_indexed_ids()?;
                    let _ = crate::world::backup_model(&a, &m3, &sched, 1, &plan2, seed, &BackupOptions::default(), "a")?;
                    let _ = crate::world::backup_model(&b, &m3, &sched, 2, &plan2, seed, &BackupOptions::default(), "b")?;
                    Ok(())
                });
                let o = PruneOptions::default().max_unused(LimitOption::Percentage(0)).max_repack(LimitOption::Unlimited).repack_all(true).keep_delete(jiff::Span::new());
                let _ = sim.prune(&Mode::Free, 1, &o);
                let files = sim.store.files();
                let key = sim.key.aead_key();
                let mut nonces: BTreeMap<Vec<u8>, String> = BTreeMap::new();
                let mut n = 0u64;
                let mut add = |nonce: &[u8], what: String, rep: &mut Report| {
                    n += 1;
                    if nonce.iter().all(|b| *b == 0) {
                        rep.violation("C04/all-zero-nonce", what.clone());
                    }
                    if let Some(prev) = nonces.insert(nonce.to_vec(), what.clone()) {
                        rep.violation("C04/nonce-reused", format!("{what} and {prev} use the same nonce {}", hex::encode(nonce)));
                    }
                };
                for ((t, id), data) in &files {
                    let tpe = crate::store::ft_from(*t);
                    match tpe {
                        FileType::Key => {}
                        FileType::Pack => {
                            if let Ok(info) = parse_pack(&key, data) {
                                for e in &info.entries {
                                    add(&data[e.offset as usize..e.offset as usize + 16], format!("blob {} in pack {}", id_hex(&e.id), id_hex(id)), &mut rep);
                                }
                                let hs = data.len() - 4 - info.header_len as usize;
                                add(&data[hs..hs + 16], format!("header of pack {}", id_hex(id)), &mut rep);
                            }
                        }
                        _ => {
                            if data.len() >= 16 {
                                add(&data[..16], format!("{} {}", ft_name(tpe), id_hex(id)), &mut rep);
                            }
                        }
                    }
                }
                // fresh *random* nonces: the stored nonce is the initial AES-CTR counter block, so two nonces
                // that are numerically close (a counter, a timestamp) make messages share key stream. For
                // independent random 128-bit values the chance that any two of n <= 10^5 lie within 2^64 of
                // each other is below 10^-9.
                {
                    let mut vals: Vec<(u128, &String)> = nonces.iter().filter(|(k, _)| k.len() == 16).map(|(k, w)| (u128::from_be_bytes(k.as_slice().try_into().unwrap()), w)).collect();
                    vals.sort_by_key(|v| v.0);
                    for w in vals.windows(2) {
                        if w[1].0 - w[0].0 < (1u128 << 64) {
                            rep.violation("C04/nonces-numerically-close(not-random)", format!("{} and {} have nonces {:032x} and {:032x}: their AES-CTR counter ranges are adjacent or overlapping", w[0].1, w[1].1, w[0].0, w[1].0));
                            break;
                        }
                    }
                    let mut le: Vec<u128> = nonces.keys().filter(|k| k.len() == 16).map(|k| u128::from_le_bytes(k.as_slice().try_into().unwrap())).collect();
                    le.sort_unstable();
                    if le.windows(2).any(|w| w[1] - w[0] < (1u128 << 64)) {
                        rep.violation("C04/nonces-numerically-close(not-random)", "two nonces differ by less than 2^64 read as little-endian integers".to_string());
                    }
                }
                interpose::rand_deterministic(s.subseed);
                rep.evaluations = n.max(1);
                rep.fire("nonces_compared", n);
                if n >= 10 {
                    rep.nontrivial.push(hash64(&[b"nonce", &s.subseed.to_le_bytes()]));
                }
                rep.sample = json!({"kind": "nonce", "messages": n, "config": s.cfg.describe()});
            }
            "tamper" => {
                if let Cmd::Err(e) = sim.init() {
                    rep.sample = json!({"skipped": "configuration refused by init", "error": e});
                    rep.evaluations = 1;
                    return rep;
                }
                let mut model = build_model_min(&s.gen, s.model_seed, &[], s.start_s, 2);
                let hist = match sim.build_history(&mut rng, &s.gen, &mut model, 3) {
                    Ok(h) => h,
                    Err((fp, d)) => {
                        rep.harness_errors.push(format!("history failed ({fp}): {d}"));
                        return rep;
                    }
                };
                let files = sim.store.files();
                let key = sim.key.aead_key();
                let expected: BTreeMap<String, FsModel> = sim.snaps.iter().map(|(k, v)| (k.clone(), v.model.clone())).collect();
                let ctl = sim.probe_state(files.clone(), &expected);
                if ctl.panic.is_some() || ctl.open_err.is_some() || ctl.index_err.is_some() || ctl.readback.values().any(|r| !r.is_equal()) {
                    rep.harness_errors.push(format!("control failed on the untampered state: {ctl:?}").chars().take(500).collect());
                    return rep;
                }
                let mut all = vec![];
                for t in targets(&files, false) {
                    all.extend(damages_of(&files, t, &key, &mut rng, s.sample == 0));
                }
                if s.sample > 0 && all.len() > s.sample {
                    rng.shuffle(&mut all);
                    all.truncate(s.sample);
                }
                let mut evaluations = 0u64;
                let mut samples = vec![];
                for (dmg, dfiles) in all {
                    // index entry edits are re-encoded with the right key: that is not tampering but forging with the key
                    if dmg.kind.starts_with("index_") {
                        continue;
                    }
                    evaluations += 1;
                    rep.fire(dmg.kind, 1);
                    rep.states.push(files_digest(&dfiles));
                    let dfiles_keys: Vec<crate::store::FileKey> = dfiles.keys().copied().collect();
                    let p = sim.probe_state(dfiles, &expected);
                    let class = format!("{}:{}", ft_name(dmg.tpe), dmg.kind);
                    let mut add = |rep: &mut Report, fp: String, d: String| {
                        if !rep.violations.iter().any(|v| v.fingerprint == fp) {
                            rep.violation(fp, d);
                        }
                    };
                    if let Some(pn) = &p.panic {
                        add(&mut rep, format!("C04/panic-on-tampered-file:{class}:{}", common::classify(&common::short_loc(pn))), format!("{}: {pn}", dmg.label()));
                        continue;
                    }
                    let mut detected = p.open_err.is_some() || p.index_err.is_some() || p.list_err.is_some();
                    for (h, (tree, _)) in &p.listed {
                        if let Some(rec) = sim.snaps.get(h) {
                            if &id_hex(&rec.snap.tree) != tree {
                                add(&mut rep, format!("C04/substituted-file-accepted:{class}"), format!("{}: snapshot id {h} now resolves to tree {tree} instead of {}", dmg.label(), id_hex(&rec.snap.tree)));
                            }
                        }
                    }
                    // a snapshot file that is still stored must be listed (or the listing must fail)
                    if p.open_err.is_none() && p.list_err.is_none() {
                        for k in dfiles_keys.iter().filter(|k| k.0 == crate::store::ft_code(FileType::Snapshot)) {
                            let h = id_hex(&k.1);
                            if !p.listed.contains_key(&h) {
                                add(&mut rep, format!("C04/stored-snapshot-silently-omitted-from-listing:{class}"), format!("{}: get_all_snapshots returned Ok without snapshot {h}, whose file is still stored", dmg.label()));
                            }
                        }
                    }
                    // "latest" must resolve to the same snapshot as before or fail (removing a snapshot file legitimately changes it)
                    if let (Some(Ok(before)), Some(now)) = (&ctl.latest, &p.latest) {
                        match now {
                            Err(_) => detected = true,
                            Ok(n) if n == before => {}
                            Ok(_) if dmg.tpe == FileType::Snapshot && dmg.kind == "remove" => {}
                            Ok(n) => add(&mut rep, format!("C04/latest-resolves-to-another-snapshot:{class}"), format!("{}: `latest` resolved to snapshot {} (tree {}) before and to {} (tree {}) now, without an error", dmg.label(), before.0, before.1, n.0, n.1)),
                        }
                    }
                    for (h, rb) in &p.readback {
                        match rb {
                            ReadBack::Equal => {}
                            ReadBack::Err(..) => detected = true,
                            ReadBack::Differs(path, what) => {
                                add(&mut rep, format!("C04/tampered-read-returned-different-content:{class}"), format!("{}: snapshot {h}: `{path}`: {what}", dmg.label()));
                            }
                        }
                    }
                    if detected {
                        rep.nontrivial.push(hash64(&[&files_digest(&files).to_le_bytes(), dmg.label().as_bytes()]));
                    }
                    if samples.len() < 6 {
                        samples.push(json!({"damage": dmg.label(), "some_read_failed": detected}));
                    }
                }
                rep.fire("background_thread_panic(command returned normally)", sim.bg_panics.len() as u64);
                rep.evaluations = evaluations.max(1);
                rep.trace_hash = files_digest(&files);
                rep.sample = json!({"kind": "tamper", "history": hist, "stored_files": files.len(), "damages": samples, "config": s.cfg.describe()});
            }
            _ => {
                // credential histories on a password-initialised repository
                let store = sim.store.clone();
                let mut valid: BTreeMap<String, KeyId> = BTreeMap::new(); // password -> key id
                let pw0 = format!("pw-{}", rng.below(1_000_000));
                let cfg = s.cfg.clone();
                let (st, pw) = (store.clone(), pw0.clone());
                let keyseed = KeyMat::from_seed(s.subseed);
                let r: Cmd<(Option<KeyId>, String)> = sim.run(&Mode::Free, move || {
                    let repo = repo_on(st.handle(1), None, None)?.init_with_config(&Credentials::password(&pw), &KeyOptions::default(), config_for(&keyseed, &cfg)?)?;
                    let mk = serde_json::to_string(&repo.key()).unwrap_or_default();
                    Ok((*repo.key_id(), mk))
                });
                let (kid0, master_json) = match r {
                    Cmd::Ok((Some(k), mj)) => (k, mj),
                    Cmd::Err(e) => {
                        rep.sample = json!({"skipped": "init refused", "error": e});
                        rep.evaluations = 1;
                        return rep;
                    }
                    r => {
                        rep.violation(format!("C04/cred-init-{}", r.class()), r.detail());
                        return rep;
                    }
                };
                let _ = valid.insert(pw0.clone(), kid0);
                // (b) the key file must not contain master key material in clear
                if let Ok(v) = serde_json::from_str::<serde_json::Value>(&master_json) {
                    use base64::Engine;
                    let b = base64::engine::general_purpose::STANDARD;
                    let parts = [v["encrypt"].as_str(), v["mac"]["k"].as_str(), v["mac"]["r"].as_str()];
                    for ((t, id), data) in store.files() {
                        if t != ft_code(FileType::Key) {
                            continue;
                        }
                        for p in parts.iter().flatten() {
                            let raw = b.decode(p).unwrap_or_default();
                            if raw.len() >= 16 && (data.windows(raw.len()).any(|w| w == &raw[..]) || data.windows(p.len()).any(|w| w == p.as_bytes())) {
                                rep.violation("C04/master-key-in-clear-in-key-file", format!("key file {}", id_hex(&id)));
                            }
                        }
                    }
                }
                let master: Option<rustic_core::repofile::MasterKey> = serde_json::from_str(&master_json).ok();
                let mut ops = vec![];
                let mut evaluations = 0u64;
                let n = rng.range(4, 8);
                let mut removed: BTreeSet<String> = BTreeSet::new();
                for i in 0..n {
                    match rng.weighted(&[2, 2, 5]) {
                        0 => {
                            // add a key (through a handle opened with some valid password)
                            let (via, _) = valid.iter().next().map(|(k, v)| (k.clone(), *v)).unwrap();
                            let newpw = format!("pw-{i}-{}", rng.below(1_000_000));
                            let (st, np) = (store.clone(), newpw.clone());
                            let r = sim.run(&Mode::Free, move || {
                                let repo = repo_on(st.handle(1), None, None)?.open(&Credentials::password(&via))?;
                                repo.add_key(&np, &KeyOptions::default())
                            });
                            match r {
                                Cmd::Ok(kid) => {
                                    let _ = valid.insert(newpw.clone(), kid);
                                    ops.push(format!("add_key {newpw}"));
                                }
                                r => rep.violation(format!("C04/add-key-{}", r.class()), r.detail()),
                            }
                        }
                        1 if valid.len() > 1 => {
                            // delete a key that is not the one used to open
                            let pws: Vec<String> = valid.keys().cloned().collect();
                            let via = pws[0].clone();
                            let victim = pws[1 + rng.usize(pws.len() - 1)].clone();
                            let vid = valid[&victim];
                            let st = store.clone();
                            let r = sim.run(&Mode::Free, move || {
                                let repo = repo_on(st.handle(1), None, None)?.open(&Credentials::password(&via))?;
                                repo.delete_key(&vid)
                            });
                            match r {
                                Cmd::Ok(()) => {
                                    let _ = valid.remove(&victim);
                                    let _ = removed.insert(victim.clone());
                                    ops.push(format!("delete_key {victim}"));
                                }
                                r => rep.violation(format!("C04/delete-key-{}", r.class()), r.detail()),
                            }
                        }
                        _ => {
                            // open attempt
                            let which = rng.usize(5);
                            let (cred, should_open, what): (Credentials, bool, String) = match which {
                                0 => {
                                    let pw = valid.keys().nth(rng.usize(valid.len())).unwrap().clone();
                                    (Credentials::password(&pw), true, format!("valid password {pw}"))
                                }
                                1 => (Credentials::password("definitely wrong"), false, "wrong password".into()),
                                2 if !removed.is_empty() => {
                                    let pw = removed.iter().next().unwrap().clone();
                                    (Credentials::password(&pw), false, format!("password of a deleted key {pw}"))
                                }
                                3 => match &master {
                                    Some(mk) => (Credentials::Masterkey(mk.clone()), true, "master key".into()),
                                    None => continue,
                                },
                                _ => (KeyMat::from_seed(s.subseed ^ 0xbad).creds(), false, "wrong master key".into()),
                            };
                            let st = store.clone();
                            evaluations += 1;
                            let r: Cmd<RusticResult<()>> = sim.run(&Mode::Free, move || Ok(repo_on(st.handle(1), None, None)?.open(&cred).map(|_| ())));
                            let opened = matches!(r, Cmd::Ok(Ok(())));
                            if let Cmd::Panic(p) = &r {
                                rep.violation(format!("C04/open-panic:{}", common::classify(&common::short_loc(p))), p.clone());
                            } else if opened != should_open {
                                rep.violation(
                                    if opened { "C04/opened-with-invalid-credential" } else { "C04/valid-credential-refused" },
                                    format!("open with {what}: opened={opened}, expected {should_open}; history: {ops:?}"),
                                );
                            }
                            ops.push(format!("open with {what} -> {opened}"));
                        }
                    }
                }
                rep.evaluations = evaluations.max(1);
                rep.fire("open_attempts", evaluations);
                if evaluations >= 2 {
                    rep.nontrivial.push(hash64(&[b"cred", format!("{ops:?}").as_bytes()]));
                }
                rep.sample = json!({"kind": "cred", "ops": ops});
            }
        }
        sim.finish_report(&mut rep);
        if rep.trace_hash == 0 || s.kind != "tamper" {
            rep.trace_hash = hash64(&[s.kind.as_bytes(), &s.subseed.to_le_bytes()]);
        }
        rep
    }
}
