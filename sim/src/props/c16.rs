//! C16 Hot/cold repositories keep the hot copy complete at every moment.

use std::collections::{BTreeMap, BTreeSet};
use std::sync::Arc;

use rustic_core::repofile::{BlobType, SnapshotFile};
use rustic_core::repofile::KeyId;
use rustic_core::{BackupOptions, ConfigOptions, FileType, Id, KeyOptions, LimitOption, PruneOptions, RepairIndexOptions, RestoreOptions, RusticResult};
use serde::{Deserialize, Serialize};
use serde_json::{Value, json};

use crate::audit::{id_hex, parse_pack};
use crate::common;
use crate::harness::{Env, Prop, Report, Tier};
use crate::interpose;
use crate::model::{FsModel, GenParams, ReadPlan, edit_model};
use crate::props::c01::build_model_min;
use crate::restore_check::{CompareOpts, compare_dir, fresh_dir, make_removable, restore_into};
use crate::rng::{Rng, hash64};
use crate::sched::{Mode, Sched};
use crate::sim::{Cmd, Sim, open_on};
use crate::store::{Fault, Files, Op, OpKind, SimStore, files_digest, ft_code, ft_name};
use crate::world::{RepoCfg, repo_on};

pub struct C16;

#[derive(Clone, Debug, Serialize, Deserialize)]
pub struct Spec {
    pub pool: usize,
    pub subseed: u64,
    pub cfg: RepoCfg,
    pub gen: GenParams,
    pub model_seed: u64,
    pub steps: usize,
    pub strict_cold: bool,
    pub scheduled: bool,
    pub start_s: i64,
}

fn is_tree_pack(key: &[u8; 64], data: &[u8]) -> Option<bool> {
    parse_pack(key, data).ok().and_then(|i| i.entries.first().map(|e| e.tpe == BlobType::Tree))
}

/// replay the combined mutation log of both stores (ordered by the global sequence number) and
/// check the invariant after every single op
fn replay_invariant(key: &[u8; 64], cold0: &Files, hot0: &Files, cold_log: &[Op], hot_log: &[Op], rep: &mut Report, what: &str) -> u64 {
    let mut ops: Vec<(bool, &Op)> = cold_log.iter().filter(|o| o.kind.is_mutation()).map(|o| (false, o)).chain(hot_log.iter().filter(|o| o.kind.is_mutation()).map(|o| (true, o))).collect();
    ops.sort_by_key(|(_, o)| o.seq);
    let (mut cold, mut hot) = (cold0.clone(), hot0.clone());
    let mut n = 0u64;
    for (is_hot, op) in ops {
        let effective = op.ok || op.fault == Some("fail_after_effect");
        if !effective {
            continue;
        }
        let k = (ft_code(op.tpe), op.id);
        let target = if is_hot { &mut hot } else { &mut cold };
        match op.kind {
            OpKind::Write | OpKind::Overwrite => {
                let _ = target.insert(k, op.data.clone().unwrap_or_default());
            }
            OpKind::Remove => {
                let _ = target.remove(&k);
            }
            _ => {}
        }
        n += 1;
        if op.tpe == FileType::Config {
            // the hot config legitimately differs from the cold one in the is_hot marker - and only the hot one carries it
            if let Some(data) = target.get(&k) {
                if let Ok(json) = crate::audit::decode_file(key, data) {
                    if let Ok(v) = serde_json::from_slice::<serde_json::Value>(&json) {
                        let marked = v.get("is_hot").and_then(serde_json::Value::as_bool) == Some(true);
                        if marked != is_hot {
                            rep.violation(
                                if is_hot { "C16/hot-config-not-marked-hot".to_string() } else { "C16/cold-config-marked-hot".to_string() },
                                format!("{what}: after {} op `{}`: is_hot = {:?} in the config of the {} store", if is_hot { "hot" } else { "cold" }, op.label(), v.get("is_hot"), if is_hot { "hot" } else { "cold" }),
                            );
                        }
                    }
                }
            }
            continue;
        }
        let where_ = format!("{what}: after {} op `{}`", if is_hot { "hot" } else { "cold" }, op.label());
        // (a) what the cold store lists must be in hot with identical bytes (packs: tree packs only)
        if let Some(c) = cold.get(&k) {
            let needs_hot = match op.tpe {
                FileType::Pack => is_tree_pack(key, c).unwrap_or(false),
                _ => true,
            };
            if needs_hot {
                match hot.get(&k) {
                    None => rep.violation(format!("C16/cold-file-missing-in-hot:{}", ft_name(op.tpe)), format!("{where_}: {} {} is listed by the cold store but not by the hot store", ft_name(op.tpe), id_hex(&op.id))),
                    Some(h) if h != c => rep.violation(format!("C16/hot-copy-differs:{}", ft_name(op.tpe)), format!("{where_}: {} {}", ft_name(op.tpe), id_hex(&op.id))),
                    _ => {}
                }
            }
        }
        // (b) no data pack in hot
        if is_hot && op.tpe == FileType::Pack {
            if let Some(h) = hot.get(&k) {
                if is_tree_pack(key, h) == Some(false) {
                    rep.violation("C16/data-pack-in-hot-store", format!("{where_}: pack {}", id_hex(&op.id)));
                }
            }
        }
        if !rep.violations.is_empty() {
            break;
        }
    }
    n
}

/// static form of the invariant on two file states
fn static_invariant(key: &[u8; 64], cold: &Files, hot: &Files) -> Vec<(String, String)> {
    let mut out = vec![];
    // packs some index file knows about (the hot/cold repair works from the index; an orphan pack left
    // behind by a failed command is garbage for prune, not something the repair has to mirror)
    let view = crate::audit::StoreView::build(key, cold);
    let indexed_packs: BTreeSet<Id> = view.index_files.values().flat_map(|f| f.packs.iter().chain(f.packs_to_delete.iter()).map(|p| *p.id)).collect();
    for (k, c) in cold {
        let tpe = crate::store::ft_from(k.0);
        if tpe == FileType::Config {
            continue;
        }
        let needs = if tpe == FileType::Pack { is_tree_pack(key, c).unwrap_or(false) && indexed_packs.contains(&k.1) } else { true };
        if needs {
            match hot.get(k) {
                None => out.push((format!("cold-file-missing-in-hot:{}", ft_name(tpe)), id_hex(&k.1))),
                Some(h) if h != c => out.push((format!("hot-copy-differs:{}", ft_name(tpe)), id_hex(&k.1))),
                _ => {}
            }
        }
    }
    for (k, h) in hot {
        if k.0 == ft_code(FileType::Pack) && is_tree_pack(key, h) == Some(false) {
            out.push(("data-pack-in-hot-store".to_string(), id_hex(&k.1)));
        }
    }
    out
}

/// every cold read of a pack must be preceded by a warm-up request for it
fn warm_up_order(cold_log: &[Op]) -> Option<String> {
    let mut warmed: BTreeSet<Id> = BTreeSet::new();
    for op in cold_log {
        if op.tpe != FileType::Pack {
            continue;
        }
        match op.kind {
            OpKind::WarmUp => {
                let _ = warmed.insert(op.id);
            }
            // a pack written through this handle in the same command is readable (it never left the "warm" tier)
            OpKind::Write | OpKind::Overwrite => {
                let _ = warmed.insert(op.id);
            }
            OpKind::ReadFull | OpKind::ReadPartial if !warmed.contains(&op.id) => return Some(op.label()),
            _ => {}
        }
    }
    None
}

impl Prop for C16 {
    fn id(&self) -> &'static str {
        "C16"
    }
    fn scheduled(&self) -> bool {
        true
    }
    fn level(&self) -> &'static str {
        "fault_enumeration"
    }
    fn runs(&self, tier: Tier) -> u64 {
        match tier {
            Tier::Quick => 1500,
            Tier::Thorough => 25000,
        }
    }
    fn rule(&self) -> &'static str {
        "one run = a hot/cold pair of SimStores (cold store needs warm-up; in half of the runs it rejects pack reads that were not warmed up) under the library's own HotColdBackend, plus a single-store twin fed the same history \
         (backup, forget, repacking prune - instant or marking only -, config change, key add, key removal, copy of a snapshot from another repository into the pair; partly under seeded gate schedules). Oracles: (1) the combined hot+cold mutation log is replayed op by op and after EVERY op every key/snapshot/index/tree-pack file listed by cold must be in hot with identical bytes and no data pack may be in hot, and exactly the hot store's config carries the is_hot marker — i.e. at every crash prefix; \
         (2) snapshot sets (tree id, time) equal the twin's and every snapshot reads back equal to its model; (3) for restore into an empty directory, a second restore onto that directory after damaging some of its files, repacking prune and repair_index (in half of the runs after losing some or all index files, so that pack headers must be read from the cold store; every snapshot must read back afterwards) on the rejecting cold store (all packs cooled down before each command) the commands succeed and every cold pack read is preceded by a warm-up request for that pack; \
         (4) a seeded subset (or all) of the hot files is removed, repair_hotcold_except_packs + repair_hotcold_packs run, the invariant holds again and check is clean; (5) one storage op of a backup fails on the hot or the cold store: the command returns Err and the per-op invariant still holds. \
         evaluations = ops replayed + end oracles; non-trivial = >= 10 ops replayed and a repack or a repair actually moved files; distinct = hash(history, config)"
    }
    fn assumptions(&self) -> Vec<&'static str> {
        vec![
            "the config file is exempt from the byte-identity clause (the hot copy carries is_hot) as in the statement",
            "after the hot/cold repair the tree-pack clause is asserted for packs known to the index (the repair works from the index; an orphan pack of a failed command is garbage)",
            "read-back for the equivalence clause goes through non-rejecting copies of the stores; only restore, prune and repair_index are run against the rejecting cold store",
        ]
    }

    fn generate(&self, subseed: u64, _tier: Tier) -> Value {
        let mut rng = Rng::new(subseed);
        let mut cfg = RepoCfg::gen_small(&mut rng);
        if cfg.compression.is_some_and(|c| c > 3) {
            cfg.compression = Some(1);
        }
        let mut genp = GenParams::default();
        genp.max_entries = 6;
        genp.max_file = 30_000;
        genp.total_cap = 80_000;
        genp.special = false;
        genp.sizes_of_interest = vec![4096];
        let spec = Spec { pool: *rng.pick(&[1usize, 2]), subseed, cfg, gen: genp, model_seed: rng.next_u64(), steps: rng.range(3, 7) as usize, strict_cold: rng.chance(1, 2), scheduled: rng.chance(1, 4), start_s: common::BASE_TIME_S + rng.range(0, 400 * 86400) as i64 };
        serde_json::to_value(spec).unwrap()
    }

    fn shrink(&self, spec: &Value) -> Vec<Value> {
        let s: Spec = serde_json::from_value(spec.clone()).unwrap();
        let mut out = vec![];
        if s.steps > 1 {
            let mut c = s.clone();
            c.steps -= 1;
            out.push(serde_json::to_value(c).unwrap());
        }
        if s.scheduled {
            let mut c = s.clone();
            c.scheduled = false;
            out.push(serde_json::to_value(c).unwrap());
        }
        out
    }

    #[allow(clippy::too_many_lines)]
    fn exec(&self, spec: &Value, env: &Env) -> Report {
        let s: Spec = serde_json::from_value(spec.clone()).expect("spec");
        let mut rep = Report::default();
        common::run_setup(s.subseed, s.start_s);
        let mut rng = Rng::new(s.subseed ^ 0xc16);
        // hot/cold world
        let mut sim = Sim::new(s.subseed, s.cfg.clone(), &env.cpus, "c16-cold");
        sim.store = SimStore::new_opts("c16-cold", sim.sched.clone(), true, s.strict_cold);
        sim.hot = Some(SimStore::new("c16-hot", sim.sched.clone()));
        // twin
        let mut twin = Sim::new(s.subseed, s.cfg.clone(), &env.cpus, "c16-twin");
        if let Cmd::Err(e) = twin.init() {
            rep.sample = json!({"skipped": "configuration refused by init", "error": e});
            rep.evaluations = 1;
            return rep;
        }
        if let r @ (Cmd::Err(_) | Cmd::Panic(_) | Cmd::NoProgress | Cmd::Harness(_)) = sim.init() {
            rep.violation(format!("C16/init-hot-cold-{}", r.class()), r.detail());
            return rep;
        }
        let key = sim.key.aead_key();
        let hot = sim.hot.clone().unwrap();
        let plan = ReadPlan { frag: vec![0, 4097], eintr_every: 0, gate_reads_every: 0 };
        let mut model = build_model_min(&s.gen, s.model_seed, &[], s.start_s, 2);
        let mut hist = vec![];
        let mut moved = false;
        let mut copy_src: Option<(Sim, FsModel)> = None;
        // half of the runs prune without instant-delete: obsolete packs are only marked and stay in both stores
        let instant = rng.chance(1, 2);
        let popts = if instant {
            PruneOptions::default().max_unused(LimitOption::Percentage(0)).max_repack(LimitOption::Unlimited).keep_delete(jiff::Span::new()).instant_delete(true)
        } else {
            PruneOptions::default().max_unused(LimitOption::Percentage(0)).max_repack(LimitOption::Unlimited).keep_delete(jiff::Span::new().hours(12))
        };
        macro_rules! both {
            ($name:expr, $a:expr, $b:expr) => {{
                let ra = $a;
                let rb = $b;
                hist.push(format!("{} -> {} / twin {}", $name, ra.class().chars().take(40).collect::<String>(), rb.class().chars().take(40).collect::<String>()));
                match (&ra, &rb) {
                    (Cmd::Ok(_), Cmd::Ok(_)) => {}
                    (Cmd::Harness(h), _) | (_, Cmd::Harness(h)) => rep.harness_errors.push(h.clone()),
                    _ => {
                        if ra.class() != rb.class() {
                            rep.violation(format!("C16/result-differs-from-single-store-twin:{}", $name), format!("hot/cold: {} — single store: {}", ra.detail(), rb.detail()));
                        }
                    }
                }
            }};
        }
        // ---------- history on both worlds
        for step in 0..s.steps {
            let choice = if step < 2 { 0 } else { rng.weighted(&[4, 2, 3, 1, 1, 1, 2]) };
            let mode = if s.scheduled && rng.chance(1, 2) { sim.draw_mode(true, &[0, 1], false) } else { Mode::Free };
            match choice {
                0 => {
                    let now = interpose::clock_now() / 1_000_000_000;
                    let _ = edit_model(&mut rng, &mut model, &s.gen, now, 3);
                    let m = model.clone();
                    both!("backup", sim.backup(&mode, &m, 1, &BackupOptions::default(), &plan, "c16"), twin.backup(&Mode::Free, &m, 1, &BackupOptions::default(), &plan, "c16"));
                }
                1 => {
                    // forget the oldest (by time) in both worlds
                    let pick = |sm: &Sim| sm.snaps.iter().min_by_key(|(_, r)| r.snap.time.timestamp()).map(|(k, _)| k.clone());
                    if sim.snaps.len() > 1 && twin.snaps.len() > 1 {
                        let (a, b) = (pick(&sim).unwrap(), pick(&twin).unwrap());
                        both!("forget", sim.forget(&Mode::Free, 1, &[a]), twin.forget(&Mode::Free, 1, &[b]));
                    }
                }
                2 => {
                    let before = files_digest(&sim.store.files());
                    sim.store.cool_down();
                    let l0 = sim.store.log_len();
                    both!("prune", sim.prune(&mode, 1, &popts), twin.prune(&Mode::Free, 1, &popts));
                    if files_digest(&sim.store.files()) != before {
                        moved = true;
                    }
                    if let Some(bad) = warm_up_order(&sim.store.log_from(l0)) {
                        rep.violation("C16/cold-pack-read-without-warm-up:prune", format!("prune performed `{bad}` on the cold store without a preceding warm-up of that pack"));
                    }
                }
                3 => {
                    let o = ConfigOptions::default().set_treepack_size(bytesize::ByteSize::b(rng.range(2000, 90_000)));
                    let run_cfg = |sm: &mut Sim| {
                        let (st, ht, ky) = (sm.store.clone(), sm.hot.clone(), sm.key.clone());
                        sm.run(&Mode::Free, move || open_on(&st, &ht, 1, &ky)?.apply_config(&o).map(|_| ()))
                    };
                    both!("config", run_cfg(&mut sim), run_cfg(&mut twin));
                }
                4 => {
                    let run_key = |sm: &mut Sim| {
                        let (st, ht, ky) = (sm.store.clone(), sm.hot.clone(), sm.key.clone());
                        sm.run(&Mode::Free, move || open_on(&st, &ht, 1, &ky)?.add_key("extra", &KeyOptions::default()).map(|_| ()))
                    };
                    both!("add_key", run_key(&mut sim), run_key(&mut twin));
                }
                5 => {
                    // remove a key file (the handles open with the master key, so any key may go)
                    let run_del = |sm: &mut Sim| {
                        let (st, ht, ky) = (sm.store.clone(), sm.hot.clone(), sm.key.clone());
                        sm.run(&Mode::Free, move || {
                            let repo = open_on(&st, &ht, 1, &ky)?;
                            let mut ids: Vec<KeyId> = repo.list::<KeyId>()?.collect();
                            ids.sort();
                            let id = match ids.first() {
                                Some(id) => *id,
                                None => repo.add_key("temporary", &KeyOptions::default())?,
                            };
                            repo.delete_key(&id).map(|()| true)
                        })
                    };
                    let (a, b) = (run_del(&mut sim), run_del(&mut twin));
                    if matches!(a, Cmd::Ok(true)) {
                        rep.fire("key_deleted", 1);
                    }
                    both!("delete_key", a, b);
                }
                _ => {
                    // copy a snapshot from another repository (own key, own store) into both worlds
                    if copy_src.is_none() {
                        let mut src = Sim::new(s.subseed ^ 0x5c, s.cfg.clone(), &env.cpus, "c16-src");
                        let m = build_model_min(&s.gen, s.model_seed ^ 0x5c, &[], s.start_s, 2);
                        if src.init().is_ok() && src.backup(&Mode::Free, &m, 1, &BackupOptions::default(), &plan, "c16-src").is_ok() {
                            copy_src = Some((src, m));
                        }
                    }
                    if let Some((src, m)) = &copy_src {
                        let run_copy = |sm: &mut Sim, mode: &Mode| {
                            let (st, ht, ky, ss, sk) = (sm.store.clone(), sm.hot.clone(), sm.key.clone(), src.store.clone(), src.key.clone());
                            let r = sm.run(mode, move || {
                                let srepo = crate::world::repo_open(&ss, 7, &sk)?.to_indexed()?;
                                let dst = open_on(&st, &ht, 1, &ky)?.to_indexed_ids()?;
                                let snaps = srepo.get_all_snapshots()?;
                                let rel = dst.relevant_copy_snapshots(|_| true, &snaps)?;
                                let todo: Vec<SnapshotFile> = rel.into_iter().filter(|c| c.relevant).map(|c| c.sn).collect();
                                srepo.copy(&dst, todo.iter())?;
                                let trees: Vec<_> = snaps.iter().map(|x| x.tree).collect();
                                Ok(dst.get_all_snapshots()?.into_iter().filter(|x| trees.contains(&x.tree)).collect::<Vec<SnapshotFile>>())
                            });
                            if let Cmd::Ok(new) = &r {
                                for sn in new {
                                    let _ = sm.snaps.insert(id_hex(&sn.id), crate::sim::SnapRec { snap: sn.clone(), model: m.clone() });
                                }
                            }
                            r
                        };
                        let l0 = sim.store.log_len();
                        let (a, b) = (run_copy(&mut sim, &mode), run_copy(&mut twin, &Mode::Free));
                        if sim.store.log_from(l0).iter().any(|o| o.kind == OpKind::Write && o.tpe == FileType::Pack) {
                            rep.fire("copy_wrote_packs", 1);
                            moved = true;
                        }
                        both!("copy", a, b);
                    }
                }
            }
            interpose::clock_advance(61_000_000_000);
            if !rep.violations.is_empty() {
                break;
            }
        }
        // ---------- (1) per-op invariant over the whole history (init included)
        let mut evaluations = replay_invariant(&key, &Files::new(), &Files::new(), &sim.store.log(), &hot.log(), &mut rep, "history");
        rep.fire("ops_replayed", evaluations);
        // ---------- (2) equivalence with the twin
        if rep.violations.is_empty() {
            let sets = |sm: &Sim| -> BTreeSet<(String, i64)> { sm.snaps.values().map(|r| (id_hex(&r.snap.tree), r.snap.time.timestamp().as_second())).collect() };
            let (a, b) = (sets(&sim), sets(&twin));
            if a.iter().map(|x| &x.0).collect::<BTreeSet<_>>() != b.iter().map(|x| &x.0).collect::<BTreeSet<_>>() {
                rep.violation("C16/snapshot-trees-differ-from-single-store-twin", format!("{a:?} vs {b:?}"));
            }
            for (fp, d) in sim.verify(false) {
                rep.violation(format!("C16/hot-cold:{fp}"), d);
            }
            for (fp, d) in twin.verify(false) {
                rep.harness_errors.push(format!("twin unhealthy: {fp}: {d}"));
            }
            evaluations += 2;
        }
        // ---------- (3) restore and repair_index against the (possibly rejecting) cold store
        if rep.violations.is_empty() {
            if let Some(rec) = sim.snaps.values().last().cloned() {
                let dest = fresh_dir(&env.tmp, "c16-restore");
                sim.store.cool_down();
                let (st, ht, ky, d2, sn) = (sim.store.clone(), sim.hot.clone(), sim.key.clone(), dest.clone(), rec.snap.clone());
                let l0 = sim.store.log_len();
                let r = sim.run(&Mode::Free, move || -> RusticResult<Result<(), String>> {
                    let repo = open_on(&st, &ht, 1, &ky)?.to_indexed()?;
                    Ok(restore_into(&repo, &sn, &d2, &RestoreOptions::default(), false))
                });
                evaluations += 1;
                match r {
                    Cmd::Ok(Ok(())) => {
                        if let Err(e) = compare_dir(&dest, &rec.model, &CompareOpts::default()) {
                            rep.violation("C16/restore-from-hot-cold-differs", e);
                        }
                    }
                    Cmd::Ok(Err(e)) => rep.violation(format!("C16/restore-from-hot-cold-failed:{}", common::classify(&e)), e),
                    r => rep.violation(format!("C16/restore-{}", r.class()), r.detail()),
                }
                if let Some(bad) = warm_up_order(&sim.store.log_from(l0)) {
                    rep.violation("C16/cold-pack-read-without-warm-up:restore", format!("restore performed `{bad}` on the cold store without a preceding warm-up of that pack"));
                }
                // second restore onto the same destination after damaging some of its files (same
                // size, other first byte, other mtime): only the packs of the damaged blobs are needed
                // now, and each of them must be warmed up before it is read
                if rep.violations.is_empty() {
                    make_removable(&dest);
                    let mut damaged = 0;
                    for (k, e) in &rec.model.entries {
                        if let crate::model::Kind::File(b) = &e.kind {
                            if !b.is_empty() && e.links == 1 && rng.chance(1, 2) {
                                let p = dest.join(crate::model::path_of(k));
                                if let Ok(mut data) = std::fs::read(&p) {
                                    if let Ok(md) = std::fs::metadata(&p) {
                                        use std::os::unix::fs::PermissionsExt;
                                        let _ = std::fs::set_permissions(&p, std::fs::Permissions::from_mode(0o600));
                                        let at = rng.usize(data.len());
                                        data[at] ^= 0x5a;
                                        if std::fs::write(&p, &data).is_ok() {
                                            damaged += 1;
                                        }
                                        let _ = std::fs::set_permissions(&p, md.permissions());
                                        // std::fs::write leaves the real "now" as mtime, which differs from the snapshot's
                                    }
                                }
                            }
                        }
                    }
                    rep.fire("destination_files_damaged_before_second_restore", damaged);
                    sim.store.cool_down();
                    let (st, ht, ky, d2, sn) = (sim.store.clone(), sim.hot.clone(), sim.key.clone(), dest.clone(), rec.snap.clone());
                    let l1 = sim.store.log_len();
                    let r = sim.run(&Mode::Free, move || -> RusticResult<Result<(), String>> {
                        let repo = open_on(&st, &ht, 1, &ky)?.to_indexed()?;
                        Ok(restore_into(&repo, &sn, &d2, &RestoreOptions::default(), false))
                    });
                    evaluations += 1;
                    match r {
                        Cmd::Ok(Ok(())) => {
                            if let Err(e) = compare_dir(&dest, &rec.model, &CompareOpts::default()) {
                                rep.violation("C16/second-restore-from-hot-cold-differs", e);
                            }
                        }
                        Cmd::Ok(Err(e)) => rep.violation(format!("C16/second-restore-from-hot-cold-failed:{}", common::classify(&e)), e),
                        r => rep.violation(format!("C16/second-restore-{}", r.class()), r.detail()),
                    }
                    if let Some(bad) = warm_up_order(&sim.store.log_from(l1)) {
                        rep.violation("C16/cold-pack-read-without-warm-up:second-restore", format!("restore onto a damaged destination performed `{bad}` on the cold store without a preceding warm-up of that pack"));
                    }
                }
                make_removable(&dest);
                let _ = std::fs::remove_dir_all(&dest);
            }
            sim.store.cool_down();
            // in half of the runs some (or all) index files are lost first: the packs they listed are then
            // unknown to the index and repair_index has to read their headers from the cold store
            let mut lost_index = 0u64;
            if rng.chance(1, 2) {
                let all = rng.chance(1, 2);
                for id in sim.store.list_ids(FileType::Index) {
                    if all || rng.chance(1, 2) {
                        let _ = sim.store.remove_raw(FileType::Index, &id);
                        let _ = hot.remove_raw(FileType::Index, &id);
                        lost_index += 1;
                    }
                }
                rep.fire("lost_file(index, both stores)", lost_index);
            }
            let read_all = lost_index == 0 || rng.chance(1, 2);
            let (st, ht, ky) = (sim.store.clone(), sim.hot.clone(), sim.key.clone());
            let l0 = sim.store.log_len();
            let (lc0, lh0) = (sim.store.log_len(), hot.log_len());
            let (c0, h0) = (sim.store.files(), hot.files());
            let r = sim.run(&Mode::Free, move || open_on(&st, &ht, 1, &ky)?.repair_index(&RepairIndexOptions::default().read_all(read_all), false));
            evaluations += 1;
            if !r.is_ok() {
                rep.violation(format!("C16/repair-index-on-hot-cold-{}", r.class()), r.detail());
            }
            if let Some(bad) = warm_up_order(&sim.store.log_from(l0)) {
                rep.violation("C16/cold-pack-read-without-warm-up:repair-index", format!("repair_index performed `{bad}` on the cold store without a preceding warm-up of that pack"));
            }
            evaluations += replay_invariant(&key, &c0, &h0, &sim.store.log_from(lc0), &hot.log_from(lh0), &mut rep, "repair_index");
            if lost_index > 0 && rep.violations.is_empty() {
                for (fp, d) in sim.verify(false) {
                    rep.violation(format!("C16/after-repair-index-with-lost-index-files:{fp}"), d);
                }
                evaluations += 1;
            }
        }
        // ---------- (5) a failing storage op during a backup
        if rep.violations.is_empty() {
            let now = interpose::clock_now() / 1_000_000_000;
            let mut m = model.clone();
            let _ = edit_model(&mut rng, &mut m, &s.gen, now, 3);
            let on_hot = rng.chance(1, 2);
            let k = rng.usize(4);
            let after = rng.chance(1, 3);
            let target: Arc<SimStore> = if on_hot { hot.clone() } else { sim.store.clone() };
            target.set_faults(vec![if after { Fault::FailMutAfterEffect { actor: 4, k } } else { Fault::FailMut { actor: 4, k } }]);
            let (lc0, lh0) = (sim.store.log_len(), hot.log_len());
            let (c0, h0) = (sim.store.files(), hot.files());
            let snaps_before = sim.snaps.clone();
            sim.strict_bg_panics = false;
            let r = sim.backup(&Mode::Free, &m, 4, &BackupOptions::default(), &plan, "c16");
            target.set_faults(vec![]);
            let fired = target.log_from(if on_hot { lh0 } else { lc0 }).iter().any(|o| o.fault.is_some());
            if fired {
                rep.fire(if on_hot { "fail(hot store op)" } else { "fail(cold store op)" }, 1);
                match &r {
                    Cmd::Ok(_) => rep.violation("C16/ok-despite-failed-store-op", format!("backup returned Ok although mutation op {k} on the {} store failed", if on_hot { "hot" } else { "cold" })),
                    Cmd::Panic(p) => rep.violation(format!("C16/panic-on-store-failure:{}", common::classify(&common::short_loc(p))), p.clone()),
                    Cmd::NoProgress => rep.violation("C16/hang-on-store-failure", "backup did not return"),
                    _ => {}
                }
                evaluations += replay_invariant(&key, &c0, &h0, &sim.store.log_from(lc0), &hot.log_from(lh0), &mut rep, "backup with failing store op");
            }
            if !r.is_ok() {
                sim.snaps = snaps_before;
            }
        }
        // ---------- (4) lose hot files, repair
        if rep.violations.is_empty() {
            let hot_files: Vec<(u8, Id)> = hot.files().keys().copied().collect();
            let all = rng.chance(1, 4);
            let mut removed = 0;
            for (t, id) in &hot_files {
                let tpe = crate::store::ft_from(*t);
                // keep config and keys unless everything goes (then the repository is opened cold-only)
                if all || (tpe != FileType::Config && tpe != FileType::Key && rng.chance(1, 2)) {
                    let _ = hot.remove_raw(tpe, id);
                    removed += 1;
                }
            }
            rep.fire("lost_file(hot)", removed);
            let (st, ht, ky) = (sim.store.clone(), sim.hot.clone(), sim.key.clone());
            let r = sim.run(&Mode::Free, move || -> RusticResult<()> {
                let repo = repo_on(st.handle(1), ht.as_ref().map(|h| h.handle(1)), None)?;
                if all {
                    let repo = repo.open_only_cold(&ky.creds())?;
                    repo.init_hot()?;
                    repo.repair_hotcold_except_packs(false)?;
                } else {
                    repo.repair_hotcold_except_packs(false)?;
                }
                let repo = open_on(&st, &ht, 1, &ky)?;
                repo.repair_hotcold_packs(false)
            });
            evaluations += 1;
            if removed > 0 {
                moved = true;
            }
            match r {
                Cmd::Ok(()) => {
                    for (fp, id) in static_invariant(&key, &sim.store.files(), &hot.files()) {
                        rep.violation(format!("C16/after-hotcold-repair:{fp}"), format!("{id} (removed {removed} hot files, all={all})"));
                    }
                    if rep.violations.is_empty() {
                        for (fp, d) in sim.verify(false) {
                            rep.violation(format!("C16/after-hotcold-repair:{fp}"), d);
                        }
                    }
                }
                r => rep.violation(format!("C16/hotcold-repair-{}", r.class()), r.detail()),
            }
        }
        sim.finish_report(&mut rep);
        for (k, v) in hot.fired() {
            rep.fire(k, v);
        }
        rep.evaluations = evaluations.max(1);
        if evaluations >= 10 && moved {
            rep.nontrivial.push(hash64(&[format!("{hist:?}{:?}", s.cfg).as_bytes()]));
        }
        rep.sample = json!({"history": hist, "config": s.cfg.describe(), "cold_store_rejects_unwarmed_reads": s.strict_cold, "ops_replayed": evaluations});
        if !rep.violations.is_empty() {
            rep.trace = sim.trace.clone();
        }
        let _: BTreeMap<u8, u8> = BTreeMap::new();
        let _: Option<FsModel> = None;
        let _ = Sched::new;
        rep
    }
}
