//! Gate scheduler: real threads, parked at seams and released one at a time.
//!
//! Every SimStore call and every SimSource open/read first calls `Sched::gate`. When the
//! scheduler is inactive (FREE mode) the gate is a no-op. When it is active, the calling thread
//! parks; the scheduler thread waits until the whole process is quiescent (all other threads
//! asleep), sorts the parked gates by identity, lets the policy choose one, advances the
//! simulated clock and releases exactly that thread.

use std::collections::BTreeMap;
use std::sync::atomic::{AtomicBool, Ordering};
use std::sync::{Arc, Condvar, Mutex};
use std::time::{Duration, Instant};

use crate::interpose;
use crate::rng::Rng;

#[derive(Clone, Copy, Debug, PartialEq, Eq, PartialOrd, Ord, Hash)]
pub enum Role {
    Source,
    List,
    ReadKeyCfg,
    ReadSnapshot,
    ReadIndex,
    ReadPack,
    WritePack,
    WriteIndex,
    WriteSnapshot,
    WriteOther,
    Remove,
    WarmUp,
    /// scheduling point inside the library (verif hook)
    Internal,
}

pub const ALL_ROLES: [Role; 13] = [
    Role::Source,
    Role::List,
    Role::ReadKeyCfg,
    Role::ReadSnapshot,
    Role::ReadIndex,
    Role::ReadPack,
    Role::WritePack,
    Role::WriteIndex,
    Role::WriteSnapshot,
    Role::WriteOther,
    Role::Remove,
    Role::WarmUp,
    Role::Internal,
];

#[derive(Clone, Debug, PartialEq, Eq, PartialOrd, Ord)]
pub struct GateKey {
    pub actor: u32,
    pub role: Role,
    pub desc: String,
}

impl GateKey {
    pub fn label(&self) -> String {
        format!("{}:{}", self.actor, self.desc)
    }
}

struct Parked {
    ticket: u64,
    key: GateKey,
    cell: Arc<(Mutex<bool>, Condvar)>,
}

#[derive(Default)]
struct Inner {
    active: bool,
    parked: Vec<Parked>,
    next_ticket: u64,
}

#[derive(Default)]
pub struct Sched {
    inner: Mutex<Inner>,
}

#[derive(Clone, Debug)]
pub enum Policy {
    Fifo,
    Random,
    /// PCT-like: random priority per (actor, role); at the change points the priority of the gate
    /// just chosen drops to the minimum
    Pct { prio: BTreeMap<(u32, Role), u64>, change_points: Vec<usize> },
    /// never release `role` while anything else is parked
    Starve(Role),
    /// run actor `a` for `n` releases, then the next segment, ...; falls back to any gate when the
    /// preferred actor has nothing parked
    Segments(Vec<(u32, usize)>),
    /// replay a recorded trace (labels and clock steps)
    Replay(Vec<(String, i64)>),
}

impl Policy {
    pub fn name(&self) -> &'static str {
        match self {
            Policy::Fifo => "fifo",
            Policy::Random => "random",
            Policy::Pct { .. } => "pct",
            Policy::Starve(_) => "starve",
            Policy::Segments(_) => "segments",
            Policy::Replay(_) => "replay",
        }
    }

    /// draw a policy for a single-actor run
    pub fn draw(rng: &mut Rng, actors: &[u32]) -> Self {
        match rng.weighted(&[2, 4, 4, 3]) {
            0 => Policy::Fifo,
            1 => Policy::Random,
            2 => {
                let mut prio = BTreeMap::new();
                for a in actors {
                    for r in ALL_ROLES {
                        prio.insert((*a, r), rng.next_u64() >> 8);
                    }
                }
                let d = rng.usize(4);
                let change_points = (0..d).map(|_| rng.usize(120)).collect();
                Policy::Pct { prio, change_points }
            }
            _ => Policy::Starve(*rng.pick(&[
                Role::Source,
                Role::WritePack,
                Role::WriteIndex,
                Role::ReadPack,
                Role::ReadIndex,
                Role::ReadSnapshot,
                Role::Remove,
            ])),
        }
    }
}

#[derive(Clone, Debug, Default)]
pub struct ClockSteps {
    /// allow rare jumps of more than 5 minutes at a release
    pub jumps: bool,
}

impl ClockSteps {
    fn draw(&self, rng: &mut Rng) -> i64 {
        match rng.weighted(&[60, 30, 9, if self.jumps { 1 } else { 0 }]) {
            0 => rng.range(1_000, 900_000) as i64,                 // µs
            1 => rng.range(1_000_000, 900_000_000) as i64,         // ms
            2 => rng.range(1_000_000_000, 50_000_000_000) as i64,  // s
            _ => rng.range(301_000_000_000, 900_000_000_000) as i64, // > 5 min
        }
    }
}

#[derive(Clone, Debug)]
pub struct CpuPlan {
    pub sched_cpu: Option<usize>,
    pub worker_cpus: Vec<usize>,
}

impl CpuPlan {
    pub fn none() -> Self {
        Self { sched_cpu: None, worker_cpus: vec![] }
    }
}

/// SCHED_FIFO: a thread runs until it blocks, woken threads queue up in wake order — with all
/// command threads on one CPU the interleaving between two gates is decided by the code, not by
/// timing. Returns false if the policy cannot be set.
pub fn set_fifo() -> bool {
    let p = libc::sched_param { sched_priority: 10 };
    unsafe { libc::sched_setscheduler(0, libc::SCHED_FIFO, &p) == 0 }
}

pub fn set_affinity(cpus: &[usize]) {
    if cpus.is_empty() {
        return;
    }
    unsafe {
        let mut set: libc::cpu_set_t = std::mem::zeroed();
        for c in cpus {
            libc::CPU_SET(*c, &mut set);
        }
        let _ = libc::sched_setaffinity(0, std::mem::size_of::<libc::cpu_set_t>(), &set);
    }
}

#[derive(Debug)]
pub enum Stop {
    Done,
    /// quiescent, nothing parked, command not finished (confirmed over a window)
    NoProgress,
    /// step cap reached
    StepCap,
    /// replay: recorded gate never showed up
    Diverged(String),
    /// threads never became quiescent
    NoQuiescence,
    /// free-running command still consuming CPU when the wall cap was reached: slow, not hung
    WallCapBusy,
}

pub struct Outcome<T> {
    /// None if the command did not finish (stop != Done); Err = panic payload text
    pub result: Option<Result<T, String>>,
    pub stop: Stop,
    pub trace: Vec<(String, i64)>,
    pub samples: u64,
    pub sim_ns: i64,
    pub policy: &'static str,
}

impl Sched {
    pub fn new() -> Arc<Self> {
        Arc::new(Self::default())
    }

    /// the library's internal scheduling points park at this scheduler from now on
    fn claim_sched_points(self: &Arc<Self>) {
        let s2 = self.clone();
        rustic_core::verif::set_sched_point(Some(Box::new(move |name: &'static str, what: &str| {
            let short = if what.len() > 12 { &what[..12] } else { what };
            s2.gate(GateKey { actor: 0, role: Role::Internal, desc: format!("{name} {short}") });
        })));
    }

    pub fn is_active(&self) -> bool {
        self.inner.lock().unwrap().active
    }

    /// A seam calls this before it does anything.
    pub fn gate(&self, key: GateKey) {
        let cell = {
            let mut g = self.inner.lock().unwrap();
            if !g.active {
                return;
            }
            let cell = Arc::new((Mutex::new(false), Condvar::new()));
            let ticket = g.next_ticket;
            g.next_ticket += 1;
            g.parked.push(Parked { ticket, key, cell: cell.clone() });
            cell
        };
        let mut released = cell.0.lock().unwrap();
        while !*released {
            released = cell.1.wait(released).unwrap();
        }
    }

    fn release_all_and_deactivate(&self) {
        let mut g = self.inner.lock().unwrap();
        g.active = false;
        for p in g.parked.drain(..) {
            *p.cell.0.lock().unwrap() = true;
            p.cell.1.notify_all();
        }
    }

    /// Run `f` on a fresh thread under the scheduler.
    pub fn run<T: Send + 'static>(
        self: &Arc<Self>,
        mut policy: Policy,
        rng: &mut Rng,
        cpus: &CpuPlan,
        steps: &ClockSteps,
        step_cap: usize,
        f: impl FnOnce() -> T + Send + 'static,
    ) -> Outcome<T> {
        let policy_name = policy.name();
        self.claim_sched_points();
        let start_ns = interpose::clock_now();
        {
            let mut g = self.inner.lock().unwrap();
            assert!(!g.active, "scheduler already active");
            g.active = true;
            g.parked.clear();
        }
        if let Some(c) = cpus.sched_cpu {
            set_affinity(&[c]);
        }
        let done = Arc::new(AtomicBool::new(false));
        let slot: Arc<Mutex<Option<Result<T, String>>>> = Arc::new(Mutex::new(None));
        let (done2, slot2) = (done.clone(), slot.clone());
        let worker_cpus = cpus.worker_cpus.clone();
        let handle = std::thread::Builder::new()
            .name("cmd".into())
            .spawn(move || {
                set_affinity(&worker_cpus);
                if !worker_cpus.is_empty() {
                    let _ = set_fifo();
                }
                let r = std::panic::catch_unwind(std::panic::AssertUnwindSafe(f));
                let r = r.map_err(|e| panic_text(&*e));
                *slot2.lock().unwrap() = Some(r);
                done2.store(true, Ordering::SeqCst);
            })
            .expect("spawn command thread");

        let self_tid = unsafe { libc::syscall(libc::SYS_gettid) } as i32;
        let mut q = Quiesce::new(self_tid);
        let mut trace: Vec<(String, i64)> = Vec::new();
        let mut step = 0usize;
        let mut segment_left: Option<usize> = None;
        let debug = std::env::var("VERIF_SCHED_DEBUG").is_ok();
        let keep_cands = std::env::var("VERIF_KEEP_CANDS").is_ok();
        // released gate records are dropped only after the run: freeing them here would take the
        // malloc arena lock of the worker thread that allocated them while that worker runs
        let mut grave = Vec::with_capacity(4096);
        trace.reserve(4096);
        let stop = loop {
            let tq = Instant::now();
            let qs = q.wait(&done, Duration::from_secs(20));
            if debug {
                eprintln!("[sched] step {step} wait {:?} samples {}", tq.elapsed(), q.samples);
            }
            match qs {
                QState::Done => break Stop::Done,
                QState::Timeout => {
                    // 20 s without a quiescent moment: one long computation between two gates (slow
                    // scenario) or a machine that starves the threads (environmental, repeated by the driver)
                    let busy = cpu_used_by_other_threads(Duration::from_millis(700));
                    break if busy > 350_000_000 { Stop::WallCapBusy } else { Stop::NoQuiescence };
                }
                QState::Quiescent => {}
            }
            if step >= step_cap {
                break Stop::StepCap;
            }
            // choose
            let chosen = {
                let g = self.inner.lock().unwrap();
                let mut cands: Vec<(usize, &GateKey)> =
                    g.parked.iter().enumerate().map(|(i, p)| (i, &p.key)).collect();
                cands.sort_by(|a, b| a.1.cmp(b.1).then(g.parked[a.0].ticket.cmp(&g.parked[b.0].ticket)));
                if cands.is_empty() {
                    None
                } else {
                    let pick = choose(&mut policy, rng, &cands, step, &mut segment_left);
                    match pick {
                        Ok(ci) => Some(Ok(cands[ci].0)),
                        Err(e) => Some(Err(e)),
                    }
                }
            };
            let idx = match chosen {
                None => {
                    // nothing parked and not done: confirm over a window (a real-time sleep
                    // inside the library, e.g. GlobalIndex::into_index, ends by itself)
                    let t0 = Instant::now();
                    let mut progressed = false;
                    while t0.elapsed() < Duration::from_millis(1500) {
                        std::thread::sleep(Duration::from_millis(2));
                        if done.load(Ordering::SeqCst) || !self.inner.lock().unwrap().parked.is_empty() {
                            progressed = true;
                            break;
                        }
                    }
                    if progressed {
                        continue;
                    }
                    break Stop::NoProgress;
                }
                Some(Err(label)) => {
                    // replay: wait a little for the recorded gate to appear
                    let t0 = Instant::now();
                    let mut found = false;
                    while t0.elapsed() < Duration::from_millis(2000) {
                        std::thread::sleep(Duration::from_millis(1));
                        if self.inner.lock().unwrap().parked.iter().any(|p| p.key.label() == label) {
                            found = true;
                            break;
                        }
                    }
                    if found {
                        continue;
                    }
                    break Stop::Diverged(label);
                }
                Some(Ok(i)) => i,
            };
            let dt = match &policy {
                Policy::Replay(t) => t[step].1,
                _ => steps.draw(rng),
            };
            interpose::clock_advance(dt);
            crate::common::bump_epoch();
            let p = {
                let mut g = self.inner.lock().unwrap();
                g.parked.remove(idx)
            };
            if keep_cands {
                let others: Vec<String> = self.inner.lock().unwrap().parked.iter().map(|x| x.key.label()).collect();
                trace.push((format!("{} || others={:?}", p.key.label(), others), dt));
            } else {
                trace.push((p.key.label(), dt));
            }
            step += 1;
            if crate::common::dbg_on() {
                crate::common::dbg_push(format!("release step={step} {} last_sample={}", p.key.label(), q.last_desc));
            }
            grave.reserve(1);
            trace.reserve(1);
            *p.cell.0.lock().unwrap() = true;
            p.cell.1.notify_all();
            grave.push(p);
        };
        // The command may have returned while other threads of it are still running (error paths):
        // let them come to rest at their gates first, so that the moment of deactivation is not a race.
        drain_threads();
        self.release_all_and_deactivate();
        let result = match stop {
            Stop::Done => {
                let _ = handle.join();
                slot.lock().unwrap().take()
            }
            _ => {
                // give the now ungated command a moment to finish, then abandon it
                let t0 = Instant::now();
                while t0.elapsed() < Duration::from_millis(3000) && !done.load(Ordering::SeqCst) {
                    std::thread::sleep(Duration::from_millis(5));
                }
                if done.load(Ordering::SeqCst) {
                    let _ = handle.join();
                    slot.lock().unwrap().take()
                } else {
                    None
                }
            }
        };
        // threads of the library may outlive the call (e.g. after an error): let them come to rest
        // before anybody looks at the store or its log
        drain_threads();
        drain_rayon();
        drain_threads();
        Outcome {
            result,
            stop,
            trace,
            samples: q.samples,
            sim_ns: interpose::clock_now() - start_ns,
            policy: policy_name,
        }
    }
}

pub fn panic_text(e: &(dyn std::any::Any + Send)) -> String {
    if let Some(s) = e.downcast_ref::<&str>() {
        (*s).to_string()
    } else if let Some(s) = e.downcast_ref::<String>() {
        s.clone()
    } else {
        "panic (non-string payload)".to_string()
    }
}

fn choose(
    policy: &mut Policy,
    rng: &mut Rng,
    cands: &[(usize, &GateKey)],
    step: usize,
    segment_left: &mut Option<usize>,
) -> Result<usize, String> {
    match policy {
        Policy::Fifo => Ok(0),
        Policy::Random => Ok(rng.usize(cands.len())),
        Policy::Pct { prio, change_points } => {
            let mut best = 0usize;
            let mut best_p = 0u64;
            for (ci, (_, k)) in cands.iter().enumerate() {
                let p = *prio.get(&(k.actor, k.role)).unwrap_or(&1);
                if ci == 0 || p > best_p {
                    best = ci;
                    best_p = p;
                }
            }
            if change_points.contains(&step) {
                let k = cands[best].1;
                let _ = prio.insert((k.actor, k.role), 0);
            }
            Ok(best)
        }
        Policy::Starve(role) => {
            let others: Vec<usize> = cands
                .iter()
                .enumerate()
                .filter(|(_, (_, k))| k.role != *role)
                .map(|(ci, _)| ci)
                .collect();
            if others.is_empty() {
                Ok(rng.usize(cands.len()))
            } else {
                Ok(others[rng.usize(others.len())])
            }
        }
        Policy::Segments(segs) => {
            // drop exhausted segments
            loop {
                if segs.is_empty() {
                    return Ok(rng.usize(cands.len()));
                }
                let left = segment_left.get_or_insert(segs[0].1);
                if *left == 0 {
                    let _ = segs.remove(0);
                    *segment_left = None;
                    continue;
                }
                let actor = segs[0].0;
                let mine: Vec<usize> = cands
                    .iter()
                    .enumerate()
                    .filter(|(_, (_, k))| k.actor == actor)
                    .map(|(ci, _)| ci)
                    .collect();
                if mine.is_empty() {
                    // the preferred actor may be waiting for one of the library-internal
                    // scheduling points (actor 0): release those first, without charging the segment
                    if let Some(ci) = cands.iter().position(|(_, k)| k.actor == 0) {
                        return Ok(ci);
                    }
                    // preferred actor has nothing to do (finished or blocked on the other): move on
                    let _ = segs.remove(0);
                    *segment_left = None;
                    continue;
                }
                *left -= 1;
                return Ok(mine[0]);
            }
        }
        Policy::Replay(t) => {
            if step >= t.len() {
                return Err(format!("<trace exhausted at step {step}>"));
            }
            let want = &t[step].0;
            cands
                .iter()
                .position(|(_, k)| &k.label() == want)
                .ok_or_else(|| want.clone())
        }
    }
}

// ---------------------------------------------------------------------------------------------
// quiescence detection through /proc

#[derive(Clone, Copy, PartialEq, Eq, Debug)]
struct Samp {
    sleeping: bool,
    slices: u64,
    run_ns: u64,
}

enum QState {
    Quiescent,
    Done,
    Timeout,
}

/// Quiescence detector. Its sampling loop runs on the scheduler's CPU *while* the command's threads
/// run on theirs, so it must not share any user-space lock with them: in particular it must not
/// call malloc/free (glibc arenas are shared between threads once there are more threads than
/// arenas; a worker that finds its arena locked by the sampler goes to sleep, another worker runs
/// in its place, and the run-until-block interleaving is no longer a function of the code — measured:
/// 7 of 12 executions of one scenario differed, 12 of 12 with a single arena). Hence raw system
/// calls, stack buffers and vectors allocated once.
struct Quiesce {
    self_tid: i32,
    pub samples: u64,
    task_fd: i32,
    dents: Box<[u8; 16384]>,
    cur: Vec<(i32, Samp)>,
    prev: Vec<(i32, Samp)>,
    pub last_desc: String,
}

const Q_CAP: usize = 1024;

impl Drop for Quiesce {
    fn drop(&mut self) {
        if self.task_fd >= 0 {
            unsafe {
                let _ = libc::close(self.task_fd);
            }
        }
    }
}

/// "<tid>/<leaf>\0" into `buf`
fn task_path(buf: &mut [u8; 48], tid: i32, leaf: &[u8]) {
    let mut digits = [0u8; 12];
    let mut n = 0;
    let mut t = tid.max(0) as u32;
    loop {
        digits[n] = b'0' + (t % 10) as u8;
        n += 1;
        t /= 10;
        if t == 0 {
            break;
        }
    }
    let mut i = 0;
    while n > 0 {
        n -= 1;
        buf[i] = digits[n];
        i += 1;
    }
    buf[i] = b'/';
    i += 1;
    for b in leaf {
        buf[i] = *b;
        i += 1;
    }
    buf[i] = 0;
}

/// read a small /proc file relative to `dirfd` into `out`; number of bytes or None
fn read_small(dirfd: i32, path: &[u8; 48], out: &mut [u8]) -> Option<usize> {
    unsafe {
        let fd = libc::openat(dirfd, path.as_ptr().cast(), libc::O_RDONLY | libc::O_CLOEXEC);
        if fd < 0 {
            return None;
        }
        let n = libc::read(fd, out.as_mut_ptr().cast(), out.len());
        let _ = libc::close(fd);
        if n < 0 { None } else { Some(n as usize) }
    }
}

fn parse_u64(b: &[u8]) -> Option<u64> {
    if b.is_empty() {
        return None;
    }
    let mut v = 0u64;
    for c in b {
        if !c.is_ascii_digit() {
            return None;
        }
        v = v.wrapping_mul(10).wrapping_add(u64::from(c - b'0'));
    }
    Some(v)
}

impl Quiesce {
    fn new(self_tid: i32) -> Self {
        let task_fd = unsafe { libc::open(c"/proc/self/task".as_ptr(), libc::O_RDONLY | libc::O_DIRECTORY | libc::O_CLOEXEC) };
        Self { self_tid, samples: 0, task_fd, dents: Box::new([0u8; 16384]), cur: Vec::with_capacity(Q_CAP), prev: Vec::with_capacity(Q_CAP), last_desc: String::new() }
    }

    /// fills `self.cur` (sorted by tid); false if the task directory could not be read
    fn sample(&mut self) -> bool {
        self.samples += 1;
        self.cur.clear();
        if self.task_fd < 0 {
            return false;
        }
        unsafe {
            if libc::lseek(self.task_fd, 0, libc::SEEK_SET) < 0 {
                return false;
            }
        }
        loop {
            let n = unsafe { libc::syscall(libc::SYS_getdents64, self.task_fd, self.dents.as_mut_ptr(), self.dents.len()) };
            if n < 0 {
                return false;
            }
            if n == 0 {
                break;
            }
            let n = n as usize;
            let mut off = 0usize;
            while off + 19 <= n {
                // struct linux_dirent64 { u64 d_ino; i64 d_off; u16 d_reclen; u8 d_type; char d_name[] }
                let reclen = u16::from_ne_bytes([self.dents[off + 16], self.dents[off + 17]]) as usize;
                if reclen == 0 || off + reclen > n {
                    break;
                }
                let name = &self.dents[off + 19..off + reclen];
                let len = name.iter().position(|b| *b == 0).unwrap_or(name.len());
                let tid = parse_u64(&name[..len]).map(|t| t as i32);
                off += reclen;
                let Some(tid) = tid else { continue };
                if tid == self.self_tid {
                    continue;
                }
                let mut path = [0u8; 48];
                let mut buf = [0u8; 1024];
                task_path(&mut path, tid, b"stat");
                let Some(k) = read_small(self.task_fd, &path, &mut buf) else { continue }; // thread gone
                let stat = &buf[..k];
                let Some(rp) = stat.iter().rposition(|b| *b == b')') else { continue };
                let state = *stat.get(rp + 2).unwrap_or(&b'R');
                if state == b'Z' || state == b'X' {
                    continue; // exiting thread
                }
                task_path(&mut path, tid, b"schedstat");
                let mut sbuf = [0u8; 128];
                let Some(k) = read_small(self.task_fd, &path, &mut sbuf) else { continue };
                let mut it = sbuf[..k].split(|b| b.is_ascii_whitespace()).filter(|w| !w.is_empty());
                let run_ns = it.next().and_then(parse_u64).unwrap_or(0);
                let _wait = it.next();
                let slices = it.next().and_then(parse_u64).unwrap_or(0);
                if self.cur.len() < Q_CAP {
                    self.cur.push((tid, Samp { sleeping: state == b'S', slices, run_ns }));
                }
            }
        }
        self.cur.sort_unstable_by_key(|e| e.0);
        true
    }

    /// (syscall nr, timed?) of a sleeping thread
    fn syscall_of(&self, tid: i32) -> Option<(i64, bool)> {
        let mut path = [0u8; 48];
        task_path(&mut path, tid, b"syscall");
        let mut buf = [0u8; 256];
        let k = read_small(self.task_fd, &path, &mut buf)?;
        let mut it = buf[..k].split(|b| b.is_ascii_whitespace()).filter(|w| !w.is_empty());
        let first = it.next()?;
        let nr: i64 = if first.first() == Some(&b'-') { -(parse_u64(&first[1..])? as i64) } else { parse_u64(first)? as i64 };
        // futex(uaddr, op, val, timeout, ...): 4th argument
        let timed = it.nth(3).map(|a| a != b"0x0").unwrap_or(false);
        Some((nr, timed))
    }

    /// Quiescent = over two consecutive samples every thread is either asleep at both with an
    /// unchanged time-slice count, or is a poller (timed futex wait) that used less than a
    /// quarter of the wall time in between; and no thread is in a real-time sleep.
    fn wait(&mut self, done: &AtomicBool, budget: Duration) -> QState {
        let t0 = Instant::now();
        let mut have_prev = false;
        let mut prev_t = t0;
        let need: u32 = 1;
        let mut streak = 0u32;
        loop {
            if done.load(Ordering::SeqCst) {
                return QState::Done;
            }
            if t0.elapsed() > budget {
                return QState::Timeout;
            }
            let now = Instant::now();
            if !self.sample() {
                have_prev = false;
                continue;
            }
            let mut ok = false;
            if have_prev {
                let wall = now.duration_since(prev_t).as_nanos() as u64;
                if self.prev.len() == self.cur.len() && self.prev.iter().map(|e| e.0).eq(self.cur.iter().map(|e| e.0)) {
                    ok = true;
                    for i in 0..self.cur.len() {
                        let (tid, c) = self.cur[i];
                        let o = self.prev[i].1;
                        if !(o.sleeping && c.sleeping) {
                            // a runnable thread is never idle, poller or not: it may just have
                            // picked up work
                            ok = false;
                            break;
                        }
                        if o.slices == c.slices {
                            continue;
                        }
                        // it ran in between: tolerated only if it is (again) polling in a timed
                        // futex wait and used little CPU
                        let timed = matches!(self.syscall_of(tid), Some((202, true)));
                        if !(timed && c.run_ns.saturating_sub(o.run_ns) < wall / 4) {
                            ok = false;
                            break;
                        }
                    }
                }
            }
            if ok {
                // threads in a real-time sleep are about to run again: busy
                let mut sleeper = false;
                for i in 0..self.cur.len() {
                    let (tid, c) = self.cur[i];
                    if !c.sleeping {
                        continue;
                    }
                    if let Some((nr, _)) = self.syscall_of(tid) {
                        if nr == 35 || nr == 230 {
                            sleeper = true;
                            break;
                        }
                    }
                }
                if !sleeper {
                    streak += 1;
                    if streak >= need {
                        if crate::common::dbg_on() {
                            self.last_desc = self.cur.iter().map(|(t, c)| format!("{t}:{}", c.slices)).collect::<Vec<_>>().join(",");
                        }
                        return QState::Quiescent;
                    }
                    std::mem::swap(&mut self.prev, &mut self.cur);
                    have_prev = true;
                    prev_t = now;
                    spin(60);
                    continue;
                }
                streak = 0;
                have_prev = false;
                std::thread::sleep(Duration::from_micros(500));
                continue;
            }
            streak = 0;
            std::mem::swap(&mut self.prev, &mut self.cur);
            have_prev = true;
            prev_t = now;
            spin(60);
        }
    }
}

/// Make every rayon pool worker finish what it is doing: tasks of a command that was aborted by an
/// injected fault may still occupy workers and would otherwise overlap with the next command.
pub fn drain_rayon() {
    let (tx, rx) = std::sync::mpsc::channel();
    let _ = std::thread::Builder::new().name("drain".into()).spawn(move || {
        let _ = rayon::broadcast(|_| ());
        let _ = tx.send(());
    });
    let t0 = Instant::now();
    while t0.elapsed() < Duration::from_millis(800) {
        if rx.try_recv().is_ok() {
            return;
        }
        std::thread::sleep(Duration::from_micros(200));
    }
}

/// CPU time (ns) consumed by the other threads of the process during `window`
pub fn cpu_used_by_other_threads(window: Duration) -> u64 {
    let self_tid = unsafe { libc::syscall(libc::SYS_gettid) } as i32;
    let mut q = Quiesce::new(self_tid);
    let total = |q: &mut Quiesce| -> u64 {
        if q.sample() { q.cur.iter().map(|e| e.1.run_ns).sum() } else { 0 }
    };
    let a = total(&mut q);
    std::thread::sleep(window);
    let b = total(&mut q);
    b.saturating_sub(a)
}

/// wait (bounded) until every other thread of the process is asleep
pub fn drain_threads() {
    let self_tid = unsafe { libc::syscall(libc::SYS_gettid) } as i32;
    let never = AtomicBool::new(false);
    let _ = Quiesce::new(self_tid).wait(&never, Duration::from_millis(1500));
}

fn spin(us: u64) {
    let t = Instant::now();
    while (t.elapsed().as_micros() as u64) < us {
        std::hint::spin_loop();
    }
}

impl Sched {
    /// FREE mode: run `f` on a fresh thread with all gates open; a wall-clock watchdog detects hangs.
    pub fn run_free<T: Send + 'static>(self: &Arc<Self>, plan: &CpuPlan, wall_cap: Duration, f: impl FnOnce() -> T + Send + 'static) -> Outcome<T> {
        let start_ns = interpose::clock_now();
        let (tx, rx) = std::sync::mpsc::channel();
        let cpus = plan.worker_cpus.clone();
        let fifo = plan.sched_cpu.is_some() && !cpus.is_empty();
        let handle = std::thread::Builder::new()
            .name("cmd".into())
            .spawn(move || {
                set_affinity(&cpus);
                if fifo {
                    // one CPU + SCHED_FIFO: the threads interleave run-until-block, i.e. the
                    // free-running execution is one fixed, repeatable interleaving
                    let _ = set_fifo();
                }
                let r = std::panic::catch_unwind(std::panic::AssertUnwindSafe(f)).map_err(|e| panic_text(&*e));
                let _ = tx.send(r);
            })
            .expect("spawn command thread");
        // no timed waits here: CLOCK_MONOTONIC may be shifted
        let t0 = Instant::now();
        let (result, stop) = loop {
            match rx.try_recv() {
                Ok(r) => {
                    let _ = handle.join();
                    break (Some(r), Stop::Done);
                }
                Err(std::sync::mpsc::TryRecvError::Disconnected) => break (None, Stop::NoProgress),
                Err(std::sync::mpsc::TryRecvError::Empty) => {
                    if t0.elapsed() > wall_cap {
                        // a hang (every thread asleep) or merely slow (threads still burning CPU, e.g. zstd
                        // level 22 on a thousand blobs in a debug build)? only the former says something
                        // about the code under test
                        let busy = cpu_used_by_other_threads(Duration::from_millis(700));
                        break (None, if busy > 50_000_000 { Stop::WallCapBusy } else { Stop::NoProgress });
                    }
                    std::thread::sleep(Duration::from_micros(300));
                }
            }
        };
        drain_threads();
        drain_rayon();
        drain_threads();
        Outcome { result, stop, trace: vec![], samples: 0, sim_ns: interpose::clock_now() - start_ns, policy: "free" }
    }
}

/// how a command is executed
#[derive(Clone, Debug)]
pub enum Mode {
    Free,
    Sched { policy: Policy, clock: ClockSteps, step_cap: usize },
}

pub fn run_cmd<T: Send + 'static>(
    sched: &Arc<Sched>,
    mode: &Mode,
    rng: &mut Rng,
    cpus: &CpuPlan,
    f: impl FnOnce() -> T + Send + 'static,
) -> Outcome<T> {
    match mode {
        Mode::Free => sched.run_free(cpus, Duration::from_secs(120), f),
        Mode::Sched { policy, clock, step_cap } => sched.run(policy.clone(), rng, cpus, clock, *step_cap, f),
    }
}
