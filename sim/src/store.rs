//! SimStore: the simulated storage service behind `WriteBackend`.
//!
//! A map (file type, id) -> bytes with the semantics of the real backends, an operation log,
//! per-actor handles, a fault plan, and a scheduling gate in front of every call.

use std::collections::{BTreeMap, BTreeSet};
use std::sync::{Arc, Mutex};

use bytes::Bytes;
use rustic_core::{
    BytesList, ErrorKind, FileType, Id, ReadBackend, RusticError, RusticResult, WriteBackend,
};

use crate::interpose;
use crate::sched::{GateKey, Role, Sched};

pub fn ft_code(t: FileType) -> u8 {
    match t {
        FileType::Config => 0,
        FileType::Key => 1,
        FileType::Snapshot => 2,
        FileType::Index => 3,
        FileType::Pack => 4,
    }
}
pub fn ft_from(c: u8) -> FileType {
    match c {
        0 => FileType::Config,
        1 => FileType::Key,
        2 => FileType::Snapshot,
        3 => FileType::Index,
        _ => FileType::Pack,
    }
}
pub fn ft_name(t: FileType) -> &'static str {
    match t {
        FileType::Config => "config",
        FileType::Key => "key",
        FileType::Snapshot => "snapshot",
        FileType::Index => "index",
        FileType::Pack => "pack",
    }
}
pub const ALL_TYPES: [FileType; 5] = [
    FileType::Config,
    FileType::Key,
    FileType::Snapshot,
    FileType::Index,
    FileType::Pack,
];

static GLOBAL_SEQ: std::sync::atomic::AtomicU64 = std::sync::atomic::AtomicU64::new(0);

pub type FileKey = (u8, Id);
pub type Files = BTreeMap<FileKey, Bytes>;

#[derive(Clone, Copy, Debug, PartialEq, Eq)]
pub enum OpKind {
    Create,
    List,
    ReadFull,
    ReadPartial,
    Write,
    Overwrite,
    Remove,
    WarmUp,
}

impl OpKind {
    pub fn is_mutation(self) -> bool {
        matches!(self, OpKind::Write | OpKind::Overwrite | OpKind::Remove)
    }
    pub fn short(self) -> &'static str {
        match self {
            OpKind::Create => "create",
            OpKind::List => "list",
            OpKind::ReadFull => "read",
            OpKind::ReadPartial => "readp",
            OpKind::Write => "write",
            OpKind::Overwrite => "overwrite",
            OpKind::Remove => "remove",
            OpKind::WarmUp => "warmup",
        }
    }
}

#[derive(Clone, Debug)]
pub struct Op {
    pub seq: u64,
    pub actor: u32,
    pub kind: OpKind,
    pub tpe: FileType,
    pub id: Id,
    pub offset: u32,
    pub len: u32,
    /// content written (Write/Overwrite) – ref-counted
    pub data: Option<Bytes>,
    pub ok: bool,
    /// what fault was applied, if any
    pub fault: Option<&'static str>,
    pub sim_ns: i64,
    /// index of this op among the actor's mutation ops (only for mutations)
    pub mut_idx: Option<usize>,
    /// Overwrite whose new bytes equal the old ones (e.g. the same pack produced twice): not a replacement
    pub identical: bool,
}

impl Op {
    pub fn label(&self) -> String {
        let id = if self.tpe == FileType::Config { "-".to_string() } else { self.id.to_hex().as_str()[..8].to_string() };
        match self.kind {
            OpKind::ReadPartial => format!("{}:{} {} {} @{}+{}", self.actor, self.kind.short(), ft_name(self.tpe), id, self.offset, self.len),
            OpKind::List | OpKind::Create => format!("{}:{} {}", self.actor, self.kind.short(), ft_name(self.tpe)),
            _ => format!("{}:{} {} {}", self.actor, self.kind.short(), ft_name(self.tpe), id),
        }
    }
}

#[derive(Clone, Debug, PartialEq, Eq)]
pub enum Fault {
    /// the actor's mutation ops with index >= k fail and have no effect; so do all later reads
    CrashAt { actor: u32, k: usize },
    /// the actor's k-th mutation op returns Err, no effect
    FailMut { actor: u32, k: usize },
    /// the actor's k-th mutation op takes effect but returns Err
    FailMutAfterEffect { actor: u32, k: usize },
    /// the actor's k-th read (full or partial) of the given type fails
    FailRead { actor: u32, tpe: u8, k: usize },
    /// the actor's k-th list of the given type fails
    FailList { actor: u32, tpe: u8, k: usize },
}

#[derive(Default)]
struct Counters {
    muts: usize,
    reads: BTreeMap<u8, usize>,
    lists: BTreeMap<u8, usize>,
}

struct State {
    files: Files,
    log: Vec<Op>,
    seq: u64,
    faults: Vec<Fault>,
    fired: BTreeMap<&'static str, u64>,
    counters: BTreeMap<u32, Counters>,
    warmed: BTreeSet<FileKey>,
    /// log reads and lists too (always true; kept for clarity)
    log_reads: bool,
}

pub struct SimStore {
    name: String,
    state: Mutex<State>,
    pub sched: Arc<Sched>,
    /// cold store: needs warm-up, and (if strict) rejects reads of packs not warmed up
    pub cold: bool,
    pub strict_cold: bool,
}

fn sim_err(msg: &str, op: &str) -> Box<RusticError> {
    RusticError::new(ErrorKind::Backend, format!("simulated backend error: {msg} ({op})"))
}

impl SimStore {
    pub fn new(name: &str, sched: Arc<Sched>) -> Arc<Self> {
        Self::new_opts(name, sched, false, false)
    }

    /// cold store: every pack goes back to the cold tier (reads need a new warm-up)
    pub fn cool_down(&self) {
        self.state.lock().unwrap().warmed.clear();
    }

    pub fn new_opts(name: &str, sched: Arc<Sched>, cold: bool, strict_cold: bool) -> Arc<Self> {
        Arc::new(Self {
            name: name.to_string(),
            state: Mutex::new(State {
                files: Files::new(),
                log: Vec::new(),
                seq: 0,
                faults: Vec::new(),
                fired: BTreeMap::new(),
                counters: BTreeMap::new(),
                warmed: BTreeSet::new(),
                log_reads: true,
            }),
            sched,
            cold,
            strict_cold,
        })
    }

    /// a store holding exactly `files` (frozen copy of another store's state)
    pub fn from_files(name: &str, sched: Arc<Sched>, files: Files) -> Arc<Self> {
        let s = Self::new(name, sched);
        s.state.lock().unwrap().files = files;
        s
    }

    pub fn handle(self: &Arc<Self>, actor: u32) -> Arc<dyn WriteBackend> {
        Arc::new(SimBackend { store: self.clone(), actor })
    }

    pub fn files(&self) -> Files {
        self.state.lock().unwrap().files.clone()
    }
    pub fn set_files(&self, files: Files) {
        self.state.lock().unwrap().files = files;
    }
    pub fn log(&self) -> Vec<Op> {
        self.state.lock().unwrap().log.clone()
    }
    pub fn log_len(&self) -> usize {
        self.state.lock().unwrap().log.len()
    }
    pub fn log_from(&self, from: usize) -> Vec<Op> {
        self.state.lock().unwrap().log[from..].to_vec()
    }
    pub fn clear_log(&self) {
        let mut s = self.state.lock().unwrap();
        s.log.clear();
        s.counters.clear();
    }
    pub fn set_faults(&self, faults: Vec<Fault>) {
        let mut s = self.state.lock().unwrap();
        s.faults = faults;
        s.counters.clear();
    }
    pub fn fired(&self) -> BTreeMap<&'static str, u64> {
        self.state.lock().unwrap().fired.clone()
    }
    pub fn list_ids(&self, tpe: FileType) -> Vec<Id> {
        let c = ft_code(tpe);
        self.state.lock().unwrap().files.keys().filter(|k| k.0 == c).map(|k| k.1).collect()
    }
    pub fn get(&self, tpe: FileType, id: &Id) -> Option<Bytes> {
        self.state.lock().unwrap().files.get(&(ft_code(tpe), key_id(tpe, id))).cloned()
    }
    pub fn put_raw(&self, tpe: FileType, id: &Id, data: Bytes) {
        let _ = self.state.lock().unwrap().files.insert((ft_code(tpe), key_id(tpe, id)), data);
    }
    pub fn remove_raw(&self, tpe: FileType, id: &Id) -> Option<Bytes> {
        self.state.lock().unwrap().files.remove(&(ft_code(tpe), key_id(tpe, id)))
    }
    pub fn total_bytes(&self) -> usize {
        self.state.lock().unwrap().files.values().map(Bytes::len).sum()
    }
}

/// state digest of a file map (for counting distinct states)
pub fn files_digest(files: &Files) -> u64 {
    use sha2::{Digest, Sha256};
    let mut h = Sha256::new();
    for ((t, id), b) in files {
        h.update([*t]);
        h.update(id.to_hex().as_str().as_bytes());
        h.update((b.len() as u64).to_le_bytes());
    }
    let d = h.finalize();
    u64::from_le_bytes(d[..8].try_into().unwrap())
}

/// apply the mutation ops of a log (in order) to a file map
pub fn apply_ops(files: &mut Files, ops: &[Op]) {
    for op in ops {
        if !op.ok && op.fault != Some("fail_after_effect") {
            continue;
        }
        match op.kind {
            OpKind::Write | OpKind::Overwrite => {
                let _ = files.insert((ft_code(op.tpe), op.id), op.data.clone().unwrap_or_default());
            }
            OpKind::Remove => {
                let _ = files.remove(&(ft_code(op.tpe), op.id));
            }
            _ => {}
        }
    }
}

fn key_id(tpe: FileType, id: &Id) -> Id {
    if tpe == FileType::Config { Id::default() } else { *id }
}

pub struct SimBackend {
    store: Arc<SimStore>,
    actor: u32,
}

impl SimBackend {
    fn gate(&self, role: Role, desc: String) {
        self.store.sched.gate(GateKey { actor: self.actor, role, desc });
    }

    fn short(tpe: FileType, id: &Id) -> String {
        if tpe == FileType::Config { "-".into() } else { id.to_hex().as_str()[..12].to_string() }
    }

    #[allow(clippy::too_many_arguments)]
    fn push(
        &self,
        s: &mut State,
        kind: OpKind,
        tpe: FileType,
        id: Id,
        offset: u32,
        len: u32,
        data: Option<Bytes>,
        ok: bool,
        fault: Option<&'static str>,
        mut_idx: Option<usize>,
    ) {
        if let Some(f) = fault {
            *s.fired.entry(f).or_insert(0) += 1;
        }
        if !self.store.sched.is_active() {
            crate::common::bump_epoch();
        }
        if !s.log_reads && !kind.is_mutation() {
            return;
        }
        // one sequence over all stores of the process: a hot and a cold store share one history
        let seq = GLOBAL_SEQ.fetch_add(1, std::sync::atomic::Ordering::SeqCst);
        s.seq = seq + 1;
        s.log.push(Op {
            seq,
            actor: self.actor,
            kind,
            tpe,
            id,
            offset,
            len,
            data,
            ok,
            fault,
            sim_ns: interpose::clock_now(),
            mut_idx,
            identical: false,
        });
    }

    /// is this actor past its crash point?
    fn crashed(&self, s: &State) -> bool {
        let muts = s.counters.get(&self.actor).map_or(0, |c| c.muts);
        s.faults.iter().any(|f| matches!(f, Fault::CrashAt { actor, k } if *actor == self.actor && muts >= *k && Self::crash_latched(s, self.actor, *k)))
    }

    fn crash_latched(s: &State, actor: u32, k: usize) -> bool {
        // the crash takes effect when the actor *attempts* mutation k; reads before that attempt
        // still work. Latched = some logged op of this actor carries the crash fault.
        let _ = k;
        s.log.iter().rev().any(|op| op.actor == actor && op.fault == Some("crash"))
    }

    fn read_fault(&self, s: &mut State, tpe: FileType) -> Option<&'static str> {
        if self.crashed(s) {
            return Some("crash");
        }
        let c = s.counters.entry(self.actor).or_default();
        let n = c.reads.entry(ft_code(tpe)).or_insert(0);
        let k = *n;
        *n += 1;
        let hit = s.faults.iter().any(|f| matches!(f, Fault::FailRead { actor, tpe: t, k: kk } if *actor == self.actor && *t == ft_code(tpe) && *kk == k));
        hit.then_some("fail_read")
    }
}

impl ReadBackend for SimBackend {
    fn location(&self) -> String {
        format!("sim:{}", self.store.name)
    }

    fn list_with_size(&self, tpe: FileType) -> RusticResult<Vec<(Id, u32)>> {
        self.gate(Role::List, format!("list {}", ft_name(tpe)));
        let mut s = self.store.state.lock().unwrap();
        let fault = if self.crashed(&s) {
            Some("crash")
        } else {
            let c = s.counters.entry(self.actor).or_default();
            let n = c.lists.entry(ft_code(tpe)).or_insert(0);
            let k = *n;
            *n += 1;
            s.faults
                .iter()
                .any(|f| matches!(f, Fault::FailList { actor, tpe: t, k: kk } if *actor == self.actor && *t == ft_code(tpe) && *kk == k))
                .then_some("fail_list")
        };
        self.push(&mut s, OpKind::List, tpe, Id::default(), 0, 0, None, fault.is_none(), fault, None);
        if let Some(f) = fault {
            return Err(sim_err(f, "list"));
        }
        let c = ft_code(tpe);
        Ok(s.files
            .iter()
            .filter(|(k, _)| k.0 == c)
            .map(|(k, v)| (k.1, v.len() as u32))
            .collect())
    }

    fn read_full(&self, tpe: FileType, id: &Id) -> RusticResult<Bytes> {
        let role = match tpe {
            FileType::Config | FileType::Key => Role::ReadKeyCfg,
            FileType::Snapshot => Role::ReadSnapshot,
            FileType::Index => Role::ReadIndex,
            FileType::Pack => Role::ReadPack,
        };
        self.gate(role, format!("read {} {}", ft_name(tpe), Self::short(tpe, id)));
        let mut s = self.store.state.lock().unwrap();
        let kid = key_id(tpe, id);
        let mut fault = self.read_fault(&mut s, tpe);
        let key = (ft_code(tpe), kid);
        if fault.is_none() && self.store.strict_cold && tpe == FileType::Pack && !s.warmed.contains(&key) {
            fault = Some("unwarmed_read");
        }
        let res = if fault.is_some() { None } else { s.files.get(&key).cloned() };
        self.push(&mut s, OpKind::ReadFull, tpe, kid, 0, 0, None, res.is_some(), fault, None);
        match (res, fault) {
            (Some(b), _) => Ok(b),
            (None, Some(f)) => Err(sim_err(f, "read_full")),
            (None, None) => Err(sim_err("file not found", "read_full")),
        }
    }

    fn read_partial(
        &self,
        tpe: FileType,
        id: &Id,
        _cacheable: bool,
        offset: u32,
        length: u32,
    ) -> RusticResult<Bytes> {
        let role = match tpe {
            FileType::Config | FileType::Key => Role::ReadKeyCfg,
            FileType::Snapshot => Role::ReadSnapshot,
            FileType::Index => Role::ReadIndex,
            FileType::Pack => Role::ReadPack,
        };
        self.gate(role, format!("readp {} {} @{}+{}", ft_name(tpe), Self::short(tpe, id), offset, length));
        let mut s = self.store.state.lock().unwrap();
        let kid = key_id(tpe, id);
        let mut fault = self.read_fault(&mut s, tpe);
        let key = (ft_code(tpe), kid);
        if fault.is_none() && self.store.strict_cold && tpe == FileType::Pack && !s.warmed.contains(&key) {
            fault = Some("unwarmed_read");
        }
        let res = if fault.is_some() {
            None
        } else {
            s.files.get(&key).and_then(|b| {
                let (o, l) = (offset as usize, length as usize);
                (o + l <= b.len()).then(|| b.slice(o..o + l))
            })
        };
        self.push(&mut s, OpKind::ReadPartial, tpe, kid, offset, length, None, res.is_some(), fault, None);
        match (res, fault) {
            (Some(b), _) => Ok(b),
            (None, Some(f)) => Err(sim_err(f, "read_partial")),
            (None, None) => Err(sim_err("file not found or range out of bounds", "read_partial")),
        }
    }

    fn warmup_path(&self, tpe: FileType, id: &Id) -> String {
        format!("sim:{}/{}/{}", self.store.name, ft_name(tpe), id.to_hex().as_str())
    }

    fn needs_warm_up(&self) -> bool {
        self.store.cold
    }

    fn warm_up(&self, tpe: FileType, id: &Id) -> RusticResult<()> {
        self.gate(Role::WarmUp, format!("warmup {} {}", ft_name(tpe), Self::short(tpe, id)));
        let mut s = self.store.state.lock().unwrap();
        let kid = key_id(tpe, id);
        let _ = s.warmed.insert((ft_code(tpe), kid));
        self.push(&mut s, OpKind::WarmUp, tpe, kid, 0, 0, None, true, None, None);
        Ok(())
    }
}

impl WriteBackend for SimBackend {
    fn create(&self) -> RusticResult<()> {
        let mut s = self.store.state.lock().unwrap();
        self.push(&mut s, OpKind::Create, FileType::Config, Id::default(), 0, 0, None, true, None, None);
        Ok(())
    }

    fn write_bytes(&self, tpe: FileType, id: &Id, _cacheable: bool, content: BytesList) -> RusticResult<()> {
        let role = match tpe {
            FileType::Pack => Role::WritePack,
            FileType::Index => Role::WriteIndex,
            FileType::Snapshot => Role::WriteSnapshot,
            _ => Role::WriteOther,
        };
        self.gate(role, format!("write {} {}", ft_name(tpe), Self::short(tpe, id)));
        // flatten
        let data: Bytes = {
            let v = content.into_vec();
            if v.len() == 1 {
                v.into_iter().next().unwrap()
            } else {
                let mut out = Vec::with_capacity(v.iter().map(Bytes::len).sum());
                for b in v {
                    out.extend_from_slice(&b);
                }
                out.into()
            }
        };
        let mut s = self.store.state.lock().unwrap();
        let kid = key_id(tpe, id);
        let key = (ft_code(tpe), kid);
        let (fault, k) = self.mutation_fault(&mut s);
        let exists = s.files.contains_key(&key);
        let identical = s.files.get(&key).is_some_and(|old| old == &data);
        let kind = if exists { OpKind::Overwrite } else { OpKind::Write };
        let effect = matches!(fault, None | Some("fail_after_effect"));
        if effect {
            let _ = s.files.insert(key, data.clone());
            if self.store.cold {
                // freshly written files are readable without warm-up (as with real cold storage classes
                // only after transition; we are conservative: a written file is NOT warm)
            }
        }
        self.push(&mut s, kind, tpe, kid, 0, data.len() as u32, Some(data), fault.is_none(), fault, Some(k));
        if identical {
            if let Some(op) = s.log.last_mut() {
                op.identical = true;
            }
        }
        match fault {
            None => Ok(()),
            Some(f) => Err(sim_err(f, "write_bytes")),
        }
    }

    fn remove(&self, tpe: FileType, id: &Id, _cacheable: bool) -> RusticResult<()> {
        self.gate(Role::Remove, format!("remove {} {}", ft_name(tpe), Self::short(tpe, id)));
        let mut s = self.store.state.lock().unwrap();
        let kid = key_id(tpe, id);
        let key = (ft_code(tpe), kid);
        let (fault, k) = self.mutation_fault(&mut s);
        let effect = matches!(fault, None | Some("fail_after_effect"));
        let mut ok = fault.is_none();
        let mut missing = false;
        if effect && s.files.remove(&key).is_none() {
            missing = true;
            ok = false;
        }
        self.push(&mut s, OpKind::Remove, tpe, kid, 0, 0, None, ok, fault, Some(k));
        match fault {
            None if missing => Err(sim_err("file not found", "remove")),
            None => Ok(()),
            Some(f) => Err(sim_err(f, "remove")),
        }
    }
}

impl SimBackend {
    /// decide the fault for the next mutation op of this actor; returns (fault, mutation index)
    fn mutation_fault(&self, s: &mut State) -> (Option<&'static str>, usize) {
        let already_crashed = self.crashed(s);
        let c = s.counters.entry(self.actor).or_default();
        let k = c.muts;
        c.muts += 1;
        if already_crashed {
            return (Some("crash"), k);
        }
        for f in &s.faults {
            match f {
                Fault::CrashAt { actor, k: kk } if *actor == self.actor && k >= *kk => return (Some("crash"), k),
                Fault::FailMut { actor, k: kk } if *actor == self.actor && k == *kk => return (Some("fail"), k),
                Fault::FailMutAfterEffect { actor, k: kk } if *actor == self.actor && k == *kk => {
                    return (Some("fail_after_effect"), k);
                }
                _ => {}
            }
        }
        (None, k)
    }
}
