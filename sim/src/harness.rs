//! Batch driver, worker loop, evidence writer, replay files, known findings.

use std::collections::{BTreeMap, BTreeSet};
use std::io::Write;
use std::path::{Path, PathBuf};
use std::process::{Command, Stdio};
use std::sync::{Arc, Mutex};
use std::time::{Duration, Instant};

use serde::{Deserialize, Serialize};
use serde_json::{Value, json};

use crate::rng::{hash64, subseed};
use crate::sched::CpuPlan;

#[derive(Clone, Copy, Debug, PartialEq, Eq)]
pub enum Tier {
    Quick,
    Thorough,
}

impl Tier {
    pub fn name(self) -> &'static str {
        match self {
            Tier::Quick => "quick",
            Tier::Thorough => "thorough",
        }
    }
    pub fn parse(s: &str) -> Self {
        if s == "thorough" { Tier::Thorough } else { Tier::Quick }
    }
}

pub struct Env {
    pub tier: Tier,
    pub pool: usize,
    pub cpus: CpuPlan,
    /// scratch directory on tmpfs, private to this worker process
    pub tmp: PathBuf,
    /// replaying a file (do not minimise, do not spawn)
    pub replaying: bool,
}

#[derive(Clone, Debug, Serialize, Deserialize)]
pub struct Violation {
    /// structured, stable identification of what failed (used for known findings and for
    /// deciding whether a shrunk scenario still shows the *same* violation)
    pub fingerprint: String,
    pub detail: String,
}

#[derive(Clone, Debug, Default, Serialize, Deserialize)]
pub struct Report {
    pub violations: Vec<Violation>,
    /// harness errors (not a verdict about the property): the batch exits 2
    pub harness_errors: Vec<String>,
    /// hash of the event log / gate trace of this run
    pub trace_hash: u64,
    pub gates: u64,
    pub sim_ns: i64,
    pub fired: BTreeMap<String, u64>,
    pub policies: BTreeMap<String, u64>,
    pub probes: BTreeMap<String, u64>,
    /// hashes of store states reached at quiescent points / crash prefixes
    pub states: Vec<u64>,
    /// sub-cases evaluated inside this run (crash prefixes, tamper cases, …); at least 1
    pub evaluations: u64,
    /// distinct non-trivial case hashes contributed by this run
    pub nontrivial: Vec<u64>,
    /// human-readable summary of the scenario for evidence samples
    pub sample: Value,
    /// the recorded schedule (only kept when a violation was found)
    #[serde(default)]
    pub trace: Vec<(String, i64)>,
}

impl Report {
    /// A command that was still busy at the wall cap (slow, not hung) is neither a violation nor a
    /// harness error: the scenario is counted as too slow and what it established so far stands.
    pub fn normalize(&mut self) {
        let n = self.harness_errors.len();
        self.harness_errors.retain(|e| !e.contains("WallCapBusy"));
        if self.harness_errors.len() < n {
            self.fire("scenario_too_slow_for_the_wall_cap(not judged further)", 1);
        }
    }

    pub fn fire(&mut self, kind: &str, n: u64) {
        if n > 0 {
            *self.fired.entry(kind.to_string()).or_insert(0) += n;
        }
    }
    pub fn violation(&mut self, fingerprint: impl Into<String>, detail: impl Into<String>) {
        let (fingerprint, detail): (String, String) = (fingerprint.into(), detail.into());
        // a command outcome of class "harness" (the scheduler gave up: no quiescence within its budget,
        // step cap, replay divergence) says nothing about the code under test
        if fingerprint.split(['/', ':', '-', ' ']).any(|t| t == "harness") || detail.starts_with("scheduler stopped with") {
            self.harness_errors.push(format!("{fingerprint}: {detail}"));
            return;
        }
        self.violations.push(Violation { fingerprint, detail });
    }
}

pub trait Prop: Sync + Send {
    fn id(&self) -> &'static str;
    /// does the scenario use the gate scheduler (needs a dedicated scheduler CPU)?
    fn scheduled(&self) -> bool;
    fn runs(&self, tier: Tier) -> u64;
    /// scenario spec of a run; must contain "pool" (0 = don't care)
    fn generate(&self, subseed: u64, tier: Tier) -> Value;
    fn exec(&self, spec: &Value, env: &Env) -> Report;
    /// simpler candidate specs (for minimisation), most aggressive first
    fn shrink(&self, _spec: &Value) -> Vec<Value> {
        vec![]
    }
    fn level(&self) -> &'static str {
        "exploration"
    }
    fn rule(&self) -> &'static str;
    fn assumptions(&self) -> Vec<&'static str> {
        vec![]
    }
    fn components(&self) -> Value {
        json!({
            "real": ["rustic_core (all code under test)", "pariter", "crossbeam-channel", "rayon", "zstd", "aes256ctr_poly1305aes", "sha2", "serde_json"],
            "stub": ["SimStore in place of a storage service", "SimSource in place of LocalSource", "simulated CLOCK_REALTIME", "PRF getrandom", "PRF nonces (nonce hook armed)"]
        })
    }
}

// ---------------------------------------------------------------------------------------------
// known findings

#[derive(Clone, Debug, Deserialize)]
pub struct KnownFinding {
    pub property: String,
    /// exact fingerprint of the violation that is a recorded finding
    pub fingerprint: String,
    pub what: String,
}

#[derive(Clone, Debug, Default, Deserialize)]
pub struct KnownFile {
    #[serde(default)]
    pub findings: Vec<KnownFinding>,
    #[serde(default)]
    pub fixed: Vec<String>,
}

pub fn verif_dir() -> PathBuf {
    std::env::var("VERIF_DIR").map(PathBuf::from).unwrap_or_else(|_| PathBuf::from("/verif"))
}

pub fn load_known() -> KnownFile {
    let p = verif_dir().join("known_findings.json");
    match std::fs::read_to_string(&p) {
        Ok(s) => serde_json::from_str(&s).unwrap_or_else(|e| {
            eprintln!("HARNESS-ERROR: cannot parse {}: {e}", p.display());
            std::process::exit(2);
        }),
        Err(_) => KnownFile::default(),
    }
}

pub fn known_match<'a>(known: &'a KnownFile, prop: &str, fp: &str) -> Option<&'a KnownFinding> {
    known.findings.iter().find(|k| k.property == prop && k.fingerprint == fp)
}

// ---------------------------------------------------------------------------------------------
// replay files

#[derive(Clone, Debug, Serialize, Deserialize)]
pub struct ReplayFile {
    pub property: String,
    pub tier: String,
    pub seed: u64,
    pub run: u64,
    pub subseed: u64,
    pub pool: usize,
    pub spec: Value,
    /// recorded gate-release trace (label, clock step ns) of the failing execution
    pub trace: Vec<(String, i64)>,
    pub fingerprint: String,
    pub detail: String,
    pub trace_hash: u64,
    pub minimised: bool,
    pub shrink_steps: u64,
}

pub fn write_replay(rf: &ReplayFile) -> PathBuf {
    let dir = verif_dir().join("replays");
    let _ = std::fs::create_dir_all(&dir);
    // one file per distinct violation (fingerprint), not per failing run
    let fp = hash64(&[rf.fingerprint.as_bytes()]) & 0xffff_ffff;
    let p = dir.join(format!("{}-{}-{:08x}.json", rf.property, rf.seed, fp));
    let tmp = dir.join(format!("{}-{}-{:08x}.json.{}.tmp", rf.property, rf.seed, fp, std::process::id()));
    std::fs::write(&tmp, serde_json::to_vec_pretty(rf).unwrap()).expect("write replay");
    std::fs::rename(&tmp, &p).expect("rename replay");
    p
}

// ---------------------------------------------------------------------------------------------
// worker

#[derive(Clone, Debug, Serialize, Deserialize)]
pub struct RunLine {
    pub run: u64,
    pub subseed: u64,
    pub pool: usize,
    pub wall_ms: u64,
    pub report: Report,
    /// replay file written for the first violation of this run
    pub replay: Option<String>,
    pub shrink_steps: u64,
    pub replay_verified: Option<bool>,
}

pub fn make_tmp() -> PathBuf {
    let base = if Path::new("/dev/shm").is_dir() { PathBuf::from("/dev/shm") } else { std::env::temp_dir() };
    let p = base.join(format!("rsim-{}", std::process::id()));
    let _ = std::fs::remove_dir_all(&p);
    std::fs::create_dir_all(&p).expect("create scratch dir");
    p
}

/// run the scenarios `runs` in this process; one JSON line per run on `out`
pub fn worker(prop: &dyn Prop, tier: Tier, seed: u64, runs: &[u64], pool: usize, cpus: CpuPlan, deadline: Instant, out: &mut dyn Write) {
    let tmp = make_tmp();
    let env = Env { tier, pool, cpus, tmp: tmp.clone(), replaying: false };
    let known = load_known();
    // violations already minimised and written by this worker
    let mut reported: BTreeSet<String> = BTreeSet::new();
    for &i in runs {
        if Instant::now() > deadline {
            break;
        }
        let ss = subseed(seed, prop.id(), i);
        let spec = prop.generate(ss, tier);
        let t0 = Instant::now();
        // a panic of the scenario code itself (on this thread) is a harness error, not a dead worker
        let mut report = match std::panic::catch_unwind(std::panic::AssertUnwindSafe(|| prop.exec(&spec, &env))) {
            Ok(r) => r,
            Err(e) => {
                let mut r = Report::default();
                let recorded = crate::common::take_panics();
                r.harness_errors.push(format!("scenario code panicked: {} {}", crate::sched::panic_text(&*e), recorded.last().cloned().unwrap_or_default()));
                r.evaluations = 1;
                r
            }
        };
        report.normalize();
        let mut line = RunLine { run: i, subseed: ss, pool, wall_ms: 0, report: Report::default(), replay: None, shrink_steps: 0, replay_verified: None };
        // a new (unlisted) violation: minimise and write the replay file
        let new_v = report.violations.iter().find(|v| known_match(&known, prop.id(), &v.fingerprint).is_none()).cloned();
        let new_v = new_v.filter(|v| reported.insert(v.fingerprint.clone()));
        if let Some(v) = new_v {
            let (mspec, mreport, steps) = minimise(prop, &env, spec.clone(), report.clone(), &v.fingerprint, Instant::now() + Duration::from_secs(if tier == Tier::Quick { 40 } else { 240 }));
            let mv = mreport.violations.iter().find(|x| x.fingerprint == v.fingerprint).cloned().unwrap_or(v.clone());
            let rf = ReplayFile {
                property: prop.id().to_string(),
                tier: tier.name().to_string(),
                seed,
                run: i,
                subseed: ss,
                pool,
                spec: mspec,
                trace: mreport.trace.clone(),
                fingerprint: mv.fingerprint.clone(),
                detail: mv.detail.clone(),
                trace_hash: mreport.trace_hash,
                minimised: steps > 0,
                shrink_steps: steps,
            };
            let path = write_replay(&rf);
            line.replay = Some(path.display().to_string());
            line.shrink_steps = steps;
            // verify in a fresh process
            let exe = std::env::current_exe().expect("current_exe");
            let verify = |p: &Path| {
                let st = Command::new(&exe).arg("replay").arg(p).arg("--quiet").stdout(Stdio::null()).stderr(Stdio::null()).status();
                matches!(st, Ok(s) if s.code() == Some(1))
            };
            let mut ok = verify(&path);
            if !ok && steps > 0 {
                // the minimised scenario does not stand on its own: report the scenario as it was found
                let rf0 = ReplayFile { spec: spec.clone(), trace: report.trace.clone(), fingerprint: v.fingerprint.clone(), detail: v.detail.clone(), trace_hash: report.trace_hash, minimised: false, shrink_steps: 0, ..rf.clone() };
                let path0 = write_replay(&rf0);
                line.shrink_steps = 0;
                ok = verify(&path0);
            }
            line.replay_verified = Some(ok);
            report.trace.clear();
        } else {
            report.trace.clear();
        }
        line.wall_ms = t0.elapsed().as_millis() as u64;
        line.report = report;
        let _ = writeln!(out, "{}", serde_json::to_string(&line).unwrap());
        let _ = out.flush();
    }
    let _ = std::fs::remove_dir_all(&tmp);
}

/// greedy delta debugging over the property's shrink candidates: accept a candidate only if the
/// same fingerprint reproduces
pub fn minimise(prop: &dyn Prop, env: &Env, mut spec: Value, mut report: Report, fp: &str, deadline: Instant) -> (Value, Report, u64) {
    let mut steps = 0u64;
    'outer: loop {
        if Instant::now() > deadline {
            break;
        }
        for cand in prop.shrink(&spec) {
            if Instant::now() > deadline {
                break 'outer;
            }
            let mut r = prop.exec(&cand, env);
            r.normalize();
            if r.harness_errors.is_empty() && r.violations.iter().any(|v| v.fingerprint == fp) {
                spec = cand;
                report = r;
                steps += 1;
                continue 'outer;
            }
        }
        break;
    }
    (spec, report, steps)
}

// ---------------------------------------------------------------------------------------------
// batch driver

pub struct BatchResult {
    pub exit: i32,
}

pub fn batch(prop: &'static dyn Prop, tier: Tier, seed: u64) -> BatchResult {
    let t0 = Instant::now();
    let n = std::env::var("VERIF_RUNS").ok().and_then(|s| s.parse().ok()).unwrap_or_else(|| prop.runs(tier));
    let wall_cap = Duration::from_secs(
        std::env::var("VERIF_WALL").ok().and_then(|s| s.parse().ok()).unwrap_or(match tier {
            Tier::Quick => 300,
            Tier::Thorough => 1500,
        }),
    );
    let ncpu = std::thread::available_parallelism().map(|n| n.get()).unwrap_or(2);
    let slots = (ncpu / 2).max(1);
    // group run indices by pool
    let mut by_pool: BTreeMap<usize, Vec<u64>> = BTreeMap::new();
    for i in 0..n {
        let spec = prop.generate(subseed(seed, prop.id(), i), tier);
        let pool = spec.get("pool").and_then(Value::as_u64).unwrap_or(0) as usize;
        by_pool.entry(pool).or_default().push(i);
    }
    // chunks
    // One scenario per worker process: a run then starts from exactly the process state a replay
    // starts from (fresh rayon pool and work-stealing state, no leaked threads, fresh allocator).
    let chunk_size = std::env::var("VERIF_CHUNK").ok().and_then(|s| s.parse().ok()).unwrap_or(1usize).max(1);
    let mut chunks: Vec<(usize, Vec<u64>)> = Vec::new();
    for (pool, v) in &by_pool {
        for c in v.chunks(chunk_size) {
            chunks.push((*pool, c.to_vec()));
        }
    }
    // interleave pools so that the tail is balanced
    chunks.sort_by_key(|(p, c)| (c[0], *p));
    let queue = Arc::new(Mutex::new(chunks.into_iter().collect::<std::collections::VecDeque<_>>()));
    let lines: Arc<Mutex<Vec<RunLine>>> = Arc::default();
    let worker_failures: Arc<Mutex<Vec<String>>> = Arc::default();
    let retries: Arc<std::sync::atomic::AtomicU64> = Arc::default();
    let exe = std::env::current_exe().expect("current_exe");
    let mut handles = vec![];
    for s in 0..slots {
        let (queue, lines, worker_failures, exe, retries) = (queue.clone(), lines.clone(), worker_failures.clone(), exe.clone(), retries.clone());
        let id = prop.id();
        let scheduled = prop.scheduled();
        handles.push(std::thread::spawn(move || {
            loop {
                let Some((pool, runs)) = queue.lock().unwrap().pop_front() else { break };
                let left = wall_cap.saturating_sub(t0.elapsed());
                if left.as_secs() < 2 {
                    break;
                }
                let (sched_cpu, worker_cpus): (i64, Vec<usize>) = if ncpu >= 2 {
                    if scheduled {
                        (2 * s as i64, vec![2 * s + 1])
                    } else {
                        (-1, vec![2 * s, 2 * s + 1])
                    }
                } else {
                    (-1, vec![])
                };
                // A scenario whose report carries a harness error (or whose worker died) is executed again in a
                // fresh process, up to two more times: scenarios are deterministic, so an environmental
                // glitch (an overloaded machine starving the scheduler) does not repeat, a real harness
                // bug does and is then reported.
                let mut pending = runs.clone();
                let mut attempt = 0;
                while !pending.is_empty() {
                    let left = wall_cap.saturating_sub(t0.elapsed());
                    let runs_s = pending.iter().map(u64::to_string).collect::<Vec<_>>().join(",");
                    let out = Command::new(&exe)
                        .arg("worker")
                        .arg(id)
                        .arg(tier.name())
                        .arg(seed.to_string())
                        .arg(runs_s)
                        .arg(pool.to_string())
                        .arg(sched_cpu.to_string())
                        .arg(worker_cpus.iter().map(usize::to_string).collect::<Vec<_>>().join(","))
                        .arg(left.as_secs().max(30).to_string())
                        .stderr(Stdio::piped())
                        .stdout(Stdio::piped())
                        .output();
                    let mut again = vec![];
                    match out {
                        Ok(o) => {
                            let mut got = BTreeSet::new();
                            for l in String::from_utf8_lossy(&o.stdout).lines() {
                                if let Ok(rl) = serde_json::from_str::<RunLine>(l) {
                                    let _ = got.insert(rl.run);
                                    if !rl.report.harness_errors.is_empty() && attempt < 2 {
                                        again.push(rl.run);
                                    } else {
                                        lines.lock().unwrap().push(rl);
                                    }
                                }
                            }
                            let missing: Vec<u64> = pending.iter().copied().filter(|r| !got.contains(r)).collect();
                            if !missing.is_empty() {
                                if attempt < 2 {
                                    again.extend(missing);
                                } else {
                                    let err = String::from_utf8_lossy(&o.stderr);
                                    let tail: String = err.lines().rev().take(12).collect::<Vec<_>>().into_iter().rev().collect::<Vec<_>>().join("\n");
                                    worker_failures.lock().unwrap().push(format!("worker for runs {missing:?} ended with {:?}: {tail}", o.status));
                                }
                            }
                        }
                        Err(e) => {
                            if attempt < 2 {
                                again = pending.clone();
                            } else {
                                worker_failures.lock().unwrap().push(format!("cannot spawn worker: {e}"));
                            }
                        }
                    }
                    if !again.is_empty() {
                        let _ = retries.fetch_add(again.len() as u64, std::sync::atomic::Ordering::SeqCst);
                    }
                    pending = again;
                    attempt += 1;
                }
            }
        }));
    }
    for h in handles {
        let _ = h.join();
    }
    let mut lines = std::mem::take(&mut *lines.lock().unwrap());
    lines.sort_by_key(|l| l.run);
    let failures = worker_failures.lock().unwrap().clone();
    let n_retries = retries.load(std::sync::atomic::Ordering::SeqCst);
    if n_retries > 0 {
        eprintln!("note: {n_retries} scenario execution(s) repeated in a fresh process after a harness error");
    }
    finish(prop, tier, seed, n, &lines, &failures, t0.elapsed())
}

fn finish(prop: &dyn Prop, tier: Tier, seed: u64, planned: u64, lines: &[RunLine], failures: &[String], wall: Duration) -> BatchResult {
    let known = load_known();
    let id = prop.id();
    let mut evaluations = 0u64;
    let mut nontrivial = BTreeSet::new();
    let mut traces = BTreeSet::new();
    let mut states = BTreeSet::new();
    let mut fired: BTreeMap<String, u64> = BTreeMap::new();
    let mut policies: BTreeMap<String, u64> = BTreeMap::new();
    let mut probes: BTreeMap<String, u64> = BTreeMap::new();
    let mut pools: BTreeMap<String, u64> = BTreeMap::new();
    let mut gates = 0u64;
    let mut sim_ns = 0i128;
    let mut samples = vec![];
    let mut harness_errors: Vec<String> = failures.to_vec();
    let mut new_violations: Vec<(String, String, Option<String>, Option<bool>)> = vec![];
    let mut known_hits: BTreeMap<String, (String, u64)> = BTreeMap::new();
    for l in lines {
        let r = &l.report;
        evaluations += r.evaluations.max(1);
        for h in &r.nontrivial {
            let _ = nontrivial.insert(*h);
        }
        let _ = traces.insert(r.trace_hash);
        for s in &r.states {
            let _ = states.insert(*s);
        }
        for (k, v) in &r.fired {
            *fired.entry(k.clone()).or_insert(0) += v;
        }
        for (k, v) in &r.policies {
            *policies.entry(k.clone()).or_insert(0) += v;
        }
        for (k, v) in &r.probes {
            *probes.entry(k.clone()).or_insert(0) += v;
        }
        *pools.entry(l.pool.to_string()).or_insert(0) += 1;
        gates += r.gates;
        sim_ns += r.sim_ns as i128;
        if samples.len() < 3 && !r.sample.is_null() {
            samples.push(json!({"run": l.run, "subseed": l.subseed, "scenario": r.sample, "gates": r.gates, "evaluations": r.evaluations}));
        }
        for e in &r.harness_errors {
            harness_errors.push(format!("run {}: {e}", l.run));
        }
        let mut reported_new = false;
        for v in &r.violations {
            if let Some(k) = known_match(&known, id, &v.fingerprint) {
                let e = known_hits.entry(k.fingerprint.clone()).or_insert((k.what.clone(), 0));
                e.1 += 1;
            } else if !reported_new {
                reported_new = true;
                new_violations.push((v.fingerprint.clone(), v.detail.clone(), l.replay.clone(), l.replay_verified));
            }
        }
    }
    let missing = planned.saturating_sub(lines.len() as u64);
    let wall_s = wall.as_secs_f64();
    let runs_per_hour = if wall_s > 0.0 { lines.len() as f64 / wall_s * 3600.0 } else { 0.0 };
    let ev = json!({
        "property_id": id,
        "tier": tier.name(),
        "seed": seed,
        "level": prop.level(),
        "coverage": {
            "evaluations": evaluations.max(1),
            "distinct_nontrivial": nontrivial.len(),
            "rule": prop.rule(),
            "samples": samples,
            "runs_planned": planned,
            "runs_completed": lines.len(),
            "runs_not_started_before_wall_cap": missing,
            "runs_per_hour": runs_per_hour.round(),
            "simulated_seconds_covered": (sim_ns / 1_000_000_000) as i64,
            "gates_released": gates,
            "faults_fired": fired,
            "scheduler_policies": policies,
            "pool_sizes": pools,
            "distinct_traces": traces.len(),
            "distinct_store_states": states.len(),
            "probes": probes,
            "components": prop.components(),
            "known_findings_hit": known_hits.iter().map(|(k, v)| json!({"fingerprint": k, "what": v.0, "runs": v.1})).collect::<Vec<_>>(),
            "new_violations": new_violations.iter().map(|v| json!({"fingerprint": v.0, "detail": v.1, "replay": v.2, "replay_reproduced_in_fresh_process": v.3})).collect::<Vec<_>>(),
            "harness_errors": harness_errors,
        },
        "assumptions": prop.assumptions(),
        "wall_s": (wall_s * 10.0).round() / 10.0,
        "violations": new_violations.len(),
    });
    let evdir = verif_dir().join("evidence");
    let _ = std::fs::create_dir_all(&evdir);
    let evp = evdir.join(format!("{id}.json"));
    std::fs::write(&evp, serde_json::to_vec_pretty(&ev).unwrap()).expect("write evidence");

    println!(
        "{id} {}: {} runs ({} evaluations, {} distinct non-trivial, {} distinct traces) in {:.1}s, gates={}, faults={:?}",
        tier.name(),
        lines.len(),
        evaluations,
        nontrivial.len(),
        traces.len(),
        wall_s,
        gates,
        fired
    );
    for (fp, (what, n)) in &known_hits {
        println!("KNOWN-FINDING: property={id} {what} [fingerprint {fp}; {n} runs]");
    }
    let mut exit = 0;
    let mut seen = BTreeSet::new();
    // per fingerprint prefer the entry that carries the replay file
    let mut ordered: Vec<&(String, String, Option<String>, Option<bool>)> = new_violations.iter().collect();
    ordered.sort_by_key(|v| v.2.is_none());
    for (fp, detail, replay, verified) in ordered {
        if !seen.insert(fp.clone()) {
            continue;
        }
        let rp = replay.clone().unwrap_or_else(|| "<none>".into());
        println!("VIOLATION property={id} replay={rp}");
        println!("  fingerprint: {fp}\n  detail: {}\n  replay reproduced in fresh process: {verified:?}", detail.lines().next().unwrap_or(""));
        exit = 1;
    }
    if exit == 0 && (!harness_errors.is_empty() || lines.is_empty()) {
        for e in harness_errors.iter().take(10) {
            eprintln!("HARNESS-ERROR: {e}");
        }
        if lines.is_empty() {
            eprintln!("HARNESS-ERROR: no run completed");
        }
        exit = 2;
    }
    BatchResult { exit }
}

pub fn trace_hash(trace: &[(String, i64)]) -> u64 {
    let mut parts: Vec<&[u8]> = Vec::with_capacity(trace.len());
    for (l, _) in trace {
        parts.push(l.as_bytes());
    }
    hash64(&parts)
}
