//! Stored-byte damage: remove, truncate, bit flip, extend, swap with a sibling, and index-entry
//! edits (duplicate / drop one entry, re-encoded with the repository key).

use bytes::Bytes;
use rustic_core::repofile::IndexFile;
use rustic_core::{FileType, Id};

use crate::audit::{decode_file, encode_file, hash_id, id_hex};
use crate::rng::Rng;
use crate::store::{FileKey, Files, ft_code, ft_from, ft_name};

#[derive(Clone, Debug)]
pub struct Damage {
    pub tpe: FileType,
    pub id: Id,
    /// fault kind (stable name for counters and fingerprints)
    pub kind: &'static str,
    /// human-readable detail (position, length, partner)
    pub detail: String,
}

impl Damage {
    pub fn label(&self) -> String {
        format!("{} {} {}: {}", self.kind, ft_name(self.tpe), &id_hex(&self.id)[..8], self.detail)
    }
}

fn put(files: &Files, key: FileKey, data: Vec<u8>) -> Files {
    let mut f = files.clone();
    let _ = f.insert(key, Bytes::from(data));
    f
}

/// all single-file damages of `target` (which must exist in `files`); `all` = the full list,
/// otherwise a seeded handful per kind
pub fn damages_of(files: &Files, target: FileKey, key: &[u8; 64], rng: &mut Rng, all: bool) -> Vec<(Damage, Files)> {
    let tpe = ft_from(target.0);
    let id = target.1;
    let data = files[&target].clone();
    let len = data.len();
    let mut out = vec![];
    let mk = |kind: &'static str, detail: String| Damage { tpe, id, kind, detail };

    // remove
    {
        let mut f = files.clone();
        let _ = f.remove(&target);
        out.push((mk("remove", String::new()), f));
    }
    // truncate
    let mut lens: Vec<usize> = vec![0, 15, 16, 31, 32, len.saturating_sub(1), len / 2, len.saturating_sub(4), len.saturating_sub(5)];
    for _ in 0..(if all { 8 } else { 2 }) {
        lens.push(rng.usize(len.max(1)));
    }
    lens.retain(|l| *l < len);
    lens.sort_unstable();
    lens.dedup();
    if !all {
        rng.shuffle(&mut lens);
        lens.truncate(3);
    }
    for l in lens {
        out.push((mk("truncate", format!("to {l} of {len}")), put(files, target, data[..l].to_vec())));
    }
    // bit flips: structural positions + seeded ones
    if len > 0 {
        let mut pos: Vec<usize> = vec![0, 15, 16, len / 2, len - 1, len.saturating_sub(4), len.saturating_sub(5), len.saturating_sub(17), len.saturating_sub(21)];
        if tpe == FileType::Pack && len > 40 {
            // inside the header region and right before it
            let hl = u32::from_le_bytes(data[len - 4..].try_into().unwrap()) as usize;
            if hl + 4 <= len {
                pos.extend([len - 4 - hl, len - 4 - hl + 20, (len - 4 - hl).saturating_sub(1)]);
            }
        }
        for _ in 0..(if all { 32 } else { 3 }) {
            pos.push(rng.usize(len));
        }
        pos.retain(|p| *p < len);
        pos.sort_unstable();
        pos.dedup();
        if !all {
            rng.shuffle(&mut pos);
            pos.truncate(4);
        }
        for p in pos {
            let mut d = data.to_vec();
            let bit = 1u8 << rng.usize(8);
            d[p] ^= bit;
            out.push((mk("bitflip", format!("byte {p} of {len} mask {bit:#04x}")), put(files, target, d)));
        }
    }
    // extend
    for n in if all { vec![1usize, 4096] } else { vec![*rng.pick(&[1usize, 4096])] } {
        let mut d = data.to_vec();
        d.extend(rng.bytes(n));
        out.push((mk("extend", format!("by {n}")), put(files, target, d)));
    }
    // swap with siblings of the same type
    let siblings: Vec<FileKey> = files.keys().filter(|k| k.0 == target.0 && k.1 != id).copied().collect();
    let sibs: Vec<FileKey> = if all { siblings } else { siblings.into_iter().take(1 + rng.usize(2)).collect() };
    for sib in sibs {
        let mut f = files.clone();
        let a = f[&target].clone();
        let b = f[&sib].clone();
        let _ = f.insert(target, b);
        let _ = f.insert(sib, a);
        out.push((mk("swap", format!("with {}", &id_hex(&sib.1)[..8])), f));
    }
    // index entry edits
    if tpe == FileType::Index {
        if let Ok(json) = decode_file(key, &data) {
            if let Ok(idx) = serde_json::from_slice::<IndexFile>(&json) {
                let npacks = idx.packs.len();
                if npacks > 0 {
                    let pi = rng.usize(npacks);
                    let nblobs = idx.packs[pi].blobs.len();
                    if nblobs > 0 {
                        let bi = rng.usize(nblobs);
                        for (kind, dup) in [("index_drop_entry", false), ("index_dup_entry", true)] {
                            let mut e: IndexFile = serde_json::from_slice(&json).unwrap();
                            if dup {
                                let b = e.packs[pi].blobs[bi];
                                e.packs[pi].blobs.push(b);
                            } else {
                                let _ = e.packs[pi].blobs.remove(bi);
                            }
                            let j = serde_json::to_vec(&e).unwrap();
                            let mut nonce = [0u8; 16];
                            nonce.copy_from_slice(&rng.bytes(16));
                            let enc = encode_file(key, &nonce, &j);
                            let nid = hash_id(&enc);
                            let mut f = files.clone();
                            let _ = f.remove(&target);
                            let _ = f.insert((ft_code(FileType::Index), nid), Bytes::from(enc));
                            out.push((mk(kind, format!("pack {} blob #{bi}", &id_hex(&idx.packs[pi].id)[..8])), f));
                        }
                    }
                }
            }
        }
    }
    out
}

/// targets: every stored file except the config (and, optionally, keys)
pub fn targets(files: &Files, with_keys: bool) -> Vec<FileKey> {
    files.keys().filter(|k| k.0 != ft_code(FileType::Config) && (with_keys || k.0 != ft_code(FileType::Key))).copied().collect()
}
