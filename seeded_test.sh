#!/bin/bash
# seeded_test.sh <patch.diff> <PROP> [<PROP>...]
# Apply a seeded breakage to a scratch worktree of /repo's HEAD, build a scratch copy of the simulator against it
# and run the quick checks there (so that /repo and /verif/sim stay usable meanwhile). Removes the worktree afterwards;
# the build cache /tmp/seeded-target is kept between invocations and can be removed at any time.
patch="$(readlink -f "$1")"; shift
R=/tmp/seeded-repo; S=/tmp/seeded-sim; V=/tmp/seeded-verif
git -C /repo worktree remove --force $R 2>/dev/null; rm -rf $R $S $V
git -C /repo worktree add -q --detach $R HEAD || exit 2
trap 'git -C /repo worktree remove --force /tmp/seeded-repo 2>/dev/null; rm -rf /tmp/seeded-sim /tmp/seeded-verif' EXIT
( cd $R && git apply "$patch" ) || { echo "patch does not apply"; exit 2; }
mkdir -p $S $V/evidence $V/replays; cp -r /verif/sim/src /verif/sim/Cargo.toml /verif/sim/Cargo.lock /verif/sim/.cargo $S/ ; cp /verif/known_findings.json $V/
sed -i "s#/repo/crates#$R/crates#g" $S/Cargo.toml
cd $S && CARGO_TARGET_DIR=/tmp/seeded-target cargo build --offline 2>&1 | grep -E "^error" -A5
for p in "$@"; do
  echo "---- $p with $(basename $(dirname $(dirname $patch)))/$(basename $patch)"
  VERIF_DIR=$V /tmp/seeded-target/debug/rsim batch $p quick | cut -c1-330 | head -14; echo "exit ${PIPESTATUS[0]}"
done
