#!/usr/bin/env python3
"""print the DESIGN 11.3 table from seeded/*/meta.json"""
import json, glob, os
print("| seeded change | needs | caught by | missed by |")
print("|---|---|---|---|")
for p in sorted(glob.glob("/verif/seeded/*/meta.json")):
    m = json.load(open(p))
    cell = lambda x: (x if isinstance(x, str) else "; ".join(x)).replace("|", "/").replace("\n", " ") or "—"
    print(f"| {m['id']} | {cell(m['needs_to_manifest'])} | {cell(m['caught_by'])} | {cell(m['missed_by'])} |")

def write_into_design():
    import io, contextlib
    p = "/verif/DESIGN.md"
    s = open(p).read()
    a = s.index("<!-- seeded-table-begin -->") + len("<!-- seeded-table-begin -->\n")
    b = s.index("<!-- seeded-table-end -->")
    rows = ["| seeded change | needs | caught by | missed by |", "|---|---|---|---|"]
    for q in sorted(glob.glob("/verif/seeded/*/meta.json")):
        m = json.load(open(q))
        cell = lambda x: (x if isinstance(x, str) else "; ".join(x)).replace("|", "/").replace("\n", " ") or "—"
        rows.append(f"| {m['id']} | {cell(m['needs_to_manifest'])} | {cell(m['caught_by'])} | {cell(m['missed_by'])} |")
    open(p, "w").write(s[:a] + "\n".join(rows) + "\n" + s[b:])

import sys
if "--write" in sys.argv:
    write_into_design()
