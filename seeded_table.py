#!/usr/bin/env python3
"""print the DESIGN 11.3 table from seeded/*/meta.json"""
import json, glob, os
print("| seeded change | needs | caught by | missed by |")
print("|---|---|---|---|")
for p in sorted(glob.glob("/verif/seeded/*/meta.json")):
    m = json.load(open(p))
    cell = lambda x: (x if isinstance(x, str) else "; ".join(x)).replace("|", "/").replace("\n", " ") or "—"
    print(f"| {m['id']} | {cell(m['needs_to_manifest'])} | {cell(m['caught_by'])} | {cell(m['missed_by'])} |")
