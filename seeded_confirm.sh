#!/bin/bash
# seeded_confirm.sh <worktree> <i> : confirm mutant i of a sub-agent's delivery in its scratch worktree
# (compiles, existing lib+integration tests pass, demo fails with the mutant and passes without)
wt="$1"; i="$2"; out="$wt/out/confirm$i.txt"
export CARGO_TARGET_DIR="$wt/target" CARGO_NET_OFFLINE=true
cd "$wt" || exit 2
git checkout -q -- crates; rm -f crates/core/tests/demo*.rs
{
echo "== apply"; git apply "out/mutant$i.diff" && echo applied || { echo APPLY-FAILED; exit 1; }
cp "out/demo$i.rs" "crates/core/tests/demo$i.rs"
echo "== demo with mutant (expect FAIL)"; cargo test --offline -p rustic_core --test "demo$i" 2>&1 | grep -E "^test result|panicked|error(\[|:)" | head -5
echo "== lib tests with mutant"; cargo test --offline -p rustic_core --lib 2>&1 | grep -E "^test result|FAILED|failed" | head -5
echo "== integration tests with mutant"; cargo test --offline -p rustic_core --test integration -- --test-threads=4 2>&1 | grep -E "^test result|^test .* FAILED" | head -12
git checkout -q -- crates
echo "== demo without mutant (expect ok)"; cargo test --offline -p rustic_core --test "demo$i" 2>&1 | grep -E "^test result|panicked" | head -5
rm -f "crates/core/tests/demo$i.rs"
echo "== done"
} > "$out" 2>&1
cat "$out"
